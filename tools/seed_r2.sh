#!/bin/bash
# usage: tools/seed_r2.sh CNN...   - after a round-2 seed author finished: check both seeds against the property's check, then verify (demo + suite) in the background
for id in "$@"; do
  for i in 1 2; do d=/tmp/seed/$id-r2/out/$i; [ -f $d/patch.diff ] || { echo "missing $d"; continue; }
    git -C /repo apply --check $d/patch.diff 2>/dev/null || echo "NOTE: $d does not apply to /repo HEAD"
    /verif/tools/seed_check.sh $d $id; tail -1 /tmp/seed/results.txt | cut -c1-260
  done
  nohup /verif/tools/seed_queue.sh /tmp/seed/$id-r2/out/1 /tmp/seed/$id-r2/out/2 >> /tmp/seed/queueR2.log 2>&1 &
done
