#!/bin/bash
# usage: tools/seed_setup.sh CNN [tag]  -> creates /tmp/seed/CNN[-tag]/{wt,out,property.json}; worktree of /repo HEAD
set -eu
id="$1"; tag="${2:-}"; d="/tmp/seed/$id${tag:+-$tag}"
mkdir -p "$d/out"
[ -d "$d/wt" ] || git -C /repo worktree add -q --detach "$d/wt" HEAD
/venv/bin/python - "$id" "$d" <<'PY'
import json,sys
pid,d=sys.argv[1],sys.argv[2]
for l in open('/verif/properties.jsonl'):
    p=json.loads(l)
    if p['id']==pid:
        p.pop('added_in_round',None); p.pop('source',None)
        json.dump(p,open(d+'/property.json','w'),indent=1)
PY
echo "$d"
