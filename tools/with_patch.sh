#!/bin/bash
# usage: tools/with_patch.sh PATCH.diff CNN [CNN...]
# Runs the quick checks against a scratch worktree of /repo with PATCH applied (never touches /repo or /verif outputs).
set -u
patch="$(readlink -f "$1")"; shift
wt=$(mktemp -d /var/tmp/wt.XXXXXX); out=$(mktemp -d /var/tmp/out.XXXXXX)
git -C /repo worktree add -q --detach "$wt" HEAD || exit 2
trap 'git -C /repo worktree remove --force "$wt" >/dev/null 2>&1; rm -rf "$wt" "$out"' EXIT
git -C "$wt" apply "$patch" || { echo "patch does not apply"; exit 2; }
cd /verif
for id in "$@"; do
  o=$(VERIF_REPO="$wt" VERIF_OUT="$out" ./check "$id" --tier ${TIER:-quick} 2>&1); rc=$?
  echo "== $id rc=$rc"; echo "$o" | grep -E "^(VIOLATION|KNOWN|SUMMARY|HARNESS)" | cut -c1-${CUT:-260} | head -${HEAD:-8}
  [ $rc -eq 2 ] && echo "$o" | tail -15
done
