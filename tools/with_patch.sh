#!/bin/bash
# usage: tools/with_patch.sh PATCH.diff CNN [CNN...]   -- applies patch to /repo, runs quick checks, reverts. Never leaves /repo dirty.
set -u
patch="$1"; shift
cd /repo || exit 2
if ! git diff --quiet; then echo "repo dirty, refusing"; exit 2; fi
git apply "$patch" || { echo "patch does not apply"; exit 2; }
trap 'git -C /repo checkout -- . ; rm -rf /verif/scratch_replays' EXIT
cd /verif
for id in "$@"; do
  cp -r replays /verif/scratch_replays_backup 2>/dev/null
  out=$(./check "$id" --tier ${TIER:-quick} 2>&1); rc=$?
  echo "== $id rc=$rc"; echo "$out" | grep -E "^(VIOLATION|KNOWN|SUMMARY|HARNESS)" | cut -c1-${CUT:-260} | head -${HEAD:-8}
  # discard replay files created by the mutant run
  rm -rf replays; mv /verif/scratch_replays_backup replays
  git -C /verif checkout -- evidence 2>/dev/null
done
