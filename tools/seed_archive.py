#!/venv/bin/python
"""Archive confirmed seeded changes: /tmp/seed/<ID>/out/<n>/ -> /verif/seeded/<ID>-<n>/ {patch.diff, demo.py, notes.md, meta.json}.
A seed is archived only when its verify.log says RESULT ok (demo passes on HEAD, fails with the patch, pinned suite still passes).
usage: tools/seed_archive.py [--force-id ID-n ...]"""
import json, os, re, shutil, subprocess, sys
notes = json.load(open("/verif/tools/seed_notes.json"))
force = set(sys.argv[1:])
results = {}
if os.path.exists("/tmp/seed/results.txt"):
    for l in open("/tmp/seed/results.txt"):
        m = re.match(r"/tmp/seed/(C\d+)(-r2|-r3)?/out/(\d) :: (.*?) :: (\d+) violations ::\s*(.*)", l.strip())
        if m:
            n_ = int(m.group(3)) + {None: 0, "-r2": 2, "-r3": 4}[m.group(2)]
            results["%s-%d" % (m.group(1), n_)] = {"runs": m.group(4).strip(), "violations": int(m.group(5)), "signatures": [x.strip() for x in (m.group(6).split("|") if "|" in m.group(6) else m.group(6).split()) if x.strip()]}
head = subprocess.run(["git", "-C", "/repo", "rev-parse", "--short", "HEAD"], capture_output=True, text=True).stdout.strip()
for job in sorted(os.listdir("/tmp/seed")):
    mj = re.match(r"(C\d+)(-r2|-r3)?$", job)
    if not mj:
        continue
    pid = mj.group(1)
    for n in ("1", "2"):
        d = "/tmp/seed/%s/out/%s" % (job, n)
        key = "%s-%d" % (pid, int(n) + {None: 0, "-r2": 2, "-r3": 4}[mj.group(2)])
        if not os.path.exists(d + "/patch.diff"):
            continue
        if notes.get(key, {}).get("retired"):
            # a change that turned out not to break the property (any more) is not kept; DESIGN 8.5 lists it with the reason
            if os.path.isdir("/verif/seeded/" + key):
                shutil.rmtree("/verif/seeded/" + key)
            print("retired %s: %s" % (key, notes[key]["retired"][:100]))
            continue
        vlog = open(d + "/verify.log").read() if os.path.exists(d + "/verify.log") else ""
        ok = (re.findall(r"RESULT.*", vlog) or [""])[-1].startswith("RESULT ok")
        if not ok and key not in force:
            print("skip %s (not verified: %s)" % (key, (re.findall(r"RESULT.*", vlog) or ["no verify.log"])[-1]))
            continue
        applies = subprocess.run(["git", "-C", "/repo", "apply", "--check", d + "/patch.diff"], capture_output=True).returncode == 0
        out = "/verif/seeded/" + key
        os.makedirs(out, exist_ok=True)
        shutil.copy(d + "/patch.diff", out + "/patch.diff")
        demo = sorted(f for f in os.listdir(d) if f.startswith("demo") and f.endswith(".py"))[0]
        shutil.copy(d + "/" + demo, out + "/demo.py")
        if os.path.exists(d + "/notes.md"):
            shutil.copy(d + "/notes.md", out + "/notes.md")
        if os.path.exists(d + "/patch.original.diff"):
            shutil.copy(d + "/patch.original.diff", out + "/patch.original.diff")
        r = results.get(key, {})
        prev = json.load(open(out + "/meta.json")) if os.path.exists(out + "/meta.json") else {}
        meta = {
            "seed": key, "property": pid,
            "origin": "written by an independent sub-agent that saw only the property record and a scratch worktree of /repo (nothing from /verif)",
            "breaks": notes.get(key, {}).get("breaks", prev.get("breaks", "see notes.md")),
            "needs_to_manifest": notes.get(key, {}).get("needs", prev.get("needs_to_manifest", "see notes.md")),
            "applies_to_repo_head": head if applies else "NO (%s)" % head,
            "confirmed": {
                "how": "tools/seed_verify.sh in a fresh scratch worktree: demo.py exits 0 on HEAD, patch applies, demo.py exits non-zero with the patch, "
                       "pinned suite (BASELINE.json stable_pass) still passes with the patch (tests failing in the loaded full run are re-run alone)",
                "verify_log_tail": [l for l in vlog.strip().splitlines() if l.startswith(("demo clean", "suite:", "RESULT", "  NOT PASSING"))][-6:],
            },
            "check_result": {
                "how": "tools/seed_check.sh -> tools/with_patch.sh (quick tier of the property's check against a scratch worktree with the patch)",
                "detected": bool(r.get("violations")), "signatures": r.get("signatures", []),
            },
        }
        if notes.get(key, {}).get("ported"):
            meta["ported"] = notes[key]["ported"]
        if prev.get("history"):
            meta["history"] = prev["history"]
        if notes.get(key, {}).get("history"):
            meta["history"] = notes[key]["history"]
        json.dump(meta, open(out + "/meta.json", "w"), indent=1)
        print("archived", key, "detected" if meta["check_result"]["detected"] else "NOT DETECTED")
