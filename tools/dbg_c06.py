import sys, json
sys.path[:0]=['/repo','/verif']
from vp.harness.engine_h import EngineHarness
ops = sys.argv[1].split(',')
method = sys.argv[2].split('|') if len(sys.argv)>2 else ["Mark: a","Wait: 1000s"]
h = EngineHarness(method)
for op in ops+['tick']*4:
    if op=='tick':
        o=h.tick(); e=h.engine
        print('tick',o.no,o.state,'started',e._runstate_started,'paused',e._runstate_paused,'hold',e._runstate_holding,'stopping',e._runstate_stopping,'rid',o.run_id, 'exec',[r.name for r in e._command_manager.cmd_executing])
    else:
        try: h.user(op); print(op,'accepted')
        except ValueError as ex: print(op,'REJECTED',ex)
