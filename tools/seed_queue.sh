#!/bin/bash
# usage: tools/seed_queue.sh dir...   (sequential full verification incl. pinned suite; log per dir in <dir>/verify.log)
for d in "$@"; do /verif/tools/seed_verify.sh "$d" tests > "$d/verify.log" 2>&1; echo "$d: $(grep RESULT "$d/verify.log")"; done
