#!/bin/bash
# usage: tools/seed_check.sh <seeddir(with patch.diff)> CNN [CNN...] ; appends a line to /tmp/seed/results.txt
d="$1"; shift
o=$(VERIF_PROCS=${VERIF_PROCS:-6} VERIF_BUDGET_SCALE=${VERIF_BUDGET_SCALE:-4} /verif/tools/with_patch.sh "$d/patch.diff" "$@" 2>&1)
echo "$o" > "$d/check.log"
echo "$d :: $(echo "$o" | grep -E '^== ' | tr '\n' ' ') :: $(echo "$o" | grep -c '^VIOLATION') violations :: $(echo "$o" | grep '^VIOLATION' | sed -E 's/.*signature=(.*) count=[0-9]+ ::.*/\1/' | tr '\n' '|')" >> /tmp/seed/results.txt
