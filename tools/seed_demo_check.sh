#!/bin/bash
# usage: tools/seed_demo_check.sh OUTFILE key...   - for archived seeds: does the demonstration still pass on the current HEAD and fail with the patch?
out=$1; shift
wt=$(mktemp -d /var/tmp/sdc.XXXXXX)
git -C /repo worktree add -q --detach "$wt" HEAD || exit 2
trap 'git -C /repo worktree remove --force "$wt" >/dev/null 2>&1; rm -rf "$wt"' EXIT
cd "$wt"
for k in "$@"; do
  d=/verif/seeded/$k
  git reset -q --hard HEAD; git clean -qfd
  timeout 600 env PYTHONPATH="$wt" /venv/bin/python $d/demo.py >/dev/null 2>&1; r0=$?
  if git apply $d/patch.diff 2>/dev/null; then
    timeout 600 env PYTHONPATH="$wt" /venv/bin/python $d/demo.py >/dev/null 2>&1; r1=$?
  else r1=noapply; fi
  echo "$k head=$r0 patched=$r1" >> $out
done
