#!/venv/bin/python
"""usage: tools/replay_status.py CNN...  - replays every committed reproducer and prints signature / reproduces / message."""
import importlib, json, logging, os, sys
os.environ.setdefault("PYTHONHASHSEED", "0")
if os.environ.get("PYTHONHASHSEED") != "0":
    os.environ["PYTHONHASHSEED"] = "0"; os.execv(sys.executable, [sys.executable] + sys.argv)
sys.path[:0] = [os.environ.get("VERIF_REPO", "/repo"), "/verif"]
logging.disable(logging.CRITICAL)
known = json.load(open("/verif/known_findings.json"))["findings"]
for pid in sys.argv[1:]:
    mod = importlib.import_module("vp.props." + pid.lower())
    d = "/verif/replays/" + pid
    for fn in sorted(os.listdir(d)) if os.path.isdir(d) else []:
        rp = json.load(open(os.path.join(d, fn)))
        vs = mod.check_case(rp["case"])
        sigs = sorted({v.sig for v in vs})
        st = next((e["status"] for e in known if e["property"] == pid and e["signature"] == rp["signature"]), "-")
        print("%s %-10s %-5s sig=%s\n      file=%s\n      now=%s\n      msg=%s" % (pid, st, "REPRO" if rp["signature"] in sigs else "quiet", rp["signature"], fn, sigs,
              next((v.msg for v in vs if v.sig == rp["signature"]), rp.get("message", ""))[:300]))
