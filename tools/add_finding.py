#!/venv/bin/python
"""usage: add_finding.py PROP SIGNATURE known|fixed REPLAY_FILE WHAT [--commit HASH] [--why TEXT]   (edits known_findings.json; never called by a check)"""
import json, sys, argparse
ap = argparse.ArgumentParser(); ap.add_argument("prop"); ap.add_argument("sig"); ap.add_argument("status"); ap.add_argument("replay"); ap.add_argument("what")
ap.add_argument("--commit"); ap.add_argument("--why"); ap.add_argument("--append", action="store_true", help="keep existing entries of this signature (second history with the same symptom)")
a = ap.parse_args()
p = "/verif/known_findings.json"; k = json.load(open(p))
if not a.append:
    k["findings"] = [f for f in k["findings"] if not (f["property"] == a.prop and f["signature"] == a.sig)]
e = {"property": a.prop, "signature": a.sig, "status": a.status}
if a.status == "fixed":
    assert a.commit; e["commit"] = a.commit; e["line"] = "fixed: property=%s %s %s" % (a.prop, a.commit, a.what)
else:
    e["line"] = "KNOWN-FINDING: property=%s %s" % (a.prop, a.what)
    if a.why: e["why_not_repaired"] = a.why
e["what"] = a.what; e["replay"] = a.replay
k["findings"].append(e)
json.dump(k, open(p, "w"), indent=1); open(p, "a").write("\n")
print("ok", a.prop, a.sig, a.status)
