"""mkmut(name, relpath, old, new): write /var/tmp/mut/<name>.diff (git-apply compatible) WITHOUT touching /repo."""
import difflib, os
def mkmut(name, relpath, old, new, count=1, outdir="/var/tmp/mut"):
    os.makedirs(outdir, exist_ok=True)
    src = open(os.path.join("/repo", relpath)).read()
    assert old in src, "pattern not found for %s" % name
    dst = src.replace(old, new, count)
    d = "".join(difflib.unified_diff(src.splitlines(True), dst.splitlines(True), "a/" + relpath, "b/" + relpath))
    open(os.path.join(outdir, name + ".diff"), "w").write(d)
    return os.path.join(outdir, name + ".diff")
