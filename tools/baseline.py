#!/venv/bin/python
"""Run the repository's pinned suite (guard OFF) and compare with /root/.vp/BASELINE.json stable_pass."""
import json, os, subprocess, sys, tempfile, xml.etree.ElementTree as ET
b = json.load(open("/root/.vp/BASELINE.json"))
out = tempfile.mktemp(suffix=".xml", dir="/var/tmp")
env = dict(os.environ); env.pop("OPEN_PECTUS_VERIF", None)
cmd = b["cmd"].replace("<file>", out)
subprocess.run(cmd, shell=True, env=env, stdout=subprocess.DEVNULL, stderr=subprocess.DEVNULL)
passed = set()
for tc in ET.parse(out).getroot().iter("testcase"):
    if not any(c.tag in ("failure", "error", "skipped") for c in tc):
        passed.add("%s::%s" % (tc.get("classname"), tc.get("name")))
os.unlink(out)
missing = [t for t in b["stable_pass"] if t not in passed]
print("stable_pass=%d passed_now=%d missing=%d" % (len(b["stable_pass"]), len(passed), len(missing)))
for m in missing: print("  NOT PASSING:", m)
sys.exit(1 if missing else 0)
