#!/bin/bash
# usage: tools/seed_r3.sh CNN...   - round 3 (one change per property): check the seed against the property's check, then verify (demo + suite) in the background
for id in "$@"; do
  d=/tmp/seed/$id-r3/out/1; [ -f $d/patch.diff ] || { echo "missing $d"; continue; }
  git -C /repo apply --check $d/patch.diff 2>/dev/null || echo "NOTE: $d does not apply to /repo HEAD"
  VERIF_PROCS=4 /verif/tools/seed_check.sh $d $id; tail -1 /tmp/seed/results.txt | cut -c1-260
  nohup /verif/tools/seed_queue.sh $d >> /tmp/seed/queueR3.log 2>&1 &
done
