#!/venv/bin/python
"""Regenerate /verif/MANIFEST.json from the property modules that exist (vp/props/cNN.py)."""
import importlib, json, os, sys
sys.path[:0] = ["/repo", "/verif"]
os.chdir("/verif")
props = [json.loads(l) for l in open("properties.jsonl")]
baseline = json.load(open("/root/.vp/BASELINE.json"))["cmd"].replace("<file>", "/var/tmp/openpectus-baseline.junit.xml")
checks, na = [], []
NA_REASONS = json.load(open("tools/not_applicable.json")) if os.path.exists("tools/not_applicable.json") else {}
for p in props:
    pid = p["id"]
    path = "vp/props/%s.py" % pid.lower()
    if not os.path.exists(path) or pid in NA_REASONS:
        na.append({"property_id": pid, "reason": NA_REASONS.get(pid, "check not built yet in this session; planned design in DESIGN.md section 3")})
        continue
    m = importlib.import_module("vp.props." + pid.lower())
    checks.append({
        "property_id": pid,
        "quick_cmd": "./check %s --tier quick" % pid,
        "thorough_cmd": "./check %s --tier thorough" % pid,
        "evidence_file": "/verif/evidence/%s.json" % pid,
        "replay_cmd_template": "./check %s --replay {path}" % pid,
        "engine": getattr(m, "ENGINE", "pure"),
        "level_claimed": {"category": m.LEVEL, "text": getattr(m, "LEVEL_TEXT", m.RULE), "design_ref": getattr(m, "DESIGN_REF", "DESIGN.md section 3 " + pid)},
        "level_note": "; ".join(getattr(m, "ASSUMPTIONS", [])) or "none beyond the harness itself",
        "technique": getattr(m, "TECHNIQUE", "property-based testing (Hypothesis) against an explicit oracle"),
    })
engines = [
    {"name": "pure", "path": "/verif/vp/props", "serves_properties": [c["property_id"] for c in checks if c["engine"] == "pure"],
     "kind_free_text": "Hypothesis strategies / exhaustive enumeration driving pure functions of /repo against reference models"},
    {"name": "engine_harness", "path": "/verif/vp/harness/engine_h.py", "serves_properties": [c["property_id"] for c in checks if c["engine"] == "engine_harness"],
     "kind_free_text": "real openpectus Engine on a virtual clock with instrumented UOD and recording hardware; grammar-based P-code generator"},
    {"name": "aggregator_harness", "path": "/verif/vp/harness/agg_h.py", "serves_properties": [c["property_id"] for c in checks if c["engine"] == "aggregator_harness"],
     "kind_free_text": "real Aggregator/handlers/repositories on temporary sqlite with fake publisher and dispatcher"},
    {"name": "async_harness", "path": "/verif/vp/harness/aio.py", "serves_properties": [c["property_id"] for c in checks if c["engine"] == "async_harness"],
     "kind_free_text": "virtual-time asyncio loop / baton thread scheduler owning the schedule"},
]
man = {
    "version": 1,
    "setup_cmd": "/venv/bin/python -c 'import hypothesis' 2>/dev/null || /venv/bin/pip install --no-index --find-links /opt/veriftools/wheels hypothesis; "
                 "/venv/bin/pip install -q --no-index --find-links /opt/veriftools/wheels --target /verif/.deps atheris >/dev/null 2>&1 || true",
    "hooks": {"guard": "OPEN_PECTUS_VERIF", "enable": "no source hooks: all instrumentation is applied by the harness at run time (./check exports OPEN_PECTUS_VERIF=1 for uniformity)",
              "baseline_off_cmd": baseline, "source_commits": [], "add_only": True},
    "engines": [e for e in engines if e["serves_properties"]],
    "checks": checks,
    "not_applicable": na,
    "notes": "All checks: ./check CNN --tier quick|thorough (cwd /verif), deterministic in (working tree of /repo, VERIF_SEED). Exit 0 held / 1 VIOLATION / 2 harness error. "
             "known_findings.json lists recorded defects (status known) and repaired ones (status fixed).",
}
json.dump(man, open("MANIFEST.json", "w"), indent=1)
print("checks:", len(checks), "not_applicable:", len(na))
try:
    import jsonschema
    jsonschema.validate(man, json.load(open("/root/.vp/MANIFEST.schema.json")))
    print("schema ok")
except ImportError:
    print("jsonschema not available in this interpreter")
