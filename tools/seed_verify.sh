#!/bin/bash
# usage: tools/seed_verify.sh <dir-with patch.diff demo.py> [notests]
# Confirms in a fresh scratch worktree: demo passes on HEAD, patch applies, demo fails with patch, pinned suite still passes with patch.
set -u
src="$(readlink -f "$1")"; mode="${2:-tests}"
wt=$(mktemp -d /var/tmp/sv.XXXXXX)
git -C /repo worktree add -q --detach "$wt" HEAD || exit 2
trap 'git -C /repo worktree remove --force "$wt" >/dev/null 2>&1; rm -rf "$wt"' EXIT
cd "$wt"
demo=$(ls "$src"/demo*.py | head -1)
timeout 600 env PYTHONPATH="$wt" /venv/bin/python "$demo" >/var/tmp/sv_clean.$$ 2>&1; rc0=$?
git apply "$src/patch.diff" || { echo "RESULT patch-does-not-apply"; exit 3; }
/venv/bin/python -c "import openpectus,sys; sys.exit(0 if openpectus.__file__.startswith('$wt') else 1)" || { echo "RESULT wrong-import"; exit 3; }
timeout 600 env PYTHONPATH="$wt" /venv/bin/python "$demo" >/var/tmp/sv_mut.$$ 2>&1; rc1=$?
echo "demo clean rc=$rc0 mutated rc=$rc1"
tail -5 /var/tmp/sv_mut.$$; rm -f /var/tmp/sv_clean.$$ /var/tmp/sv_mut.$$
[ $rc0 -eq 0 ] && [ $rc1 -ne 0 ] || { echo "RESULT demo-does-not-discriminate"; exit 4; }
if [ "$mode" = tests ]; then
  out=$(mktemp /var/tmp/sv.XXXXXX.xml)
  env -u OPEN_PECTUS_VERIF /venv/bin/python -m pytest -q -p no:cacheprovider --timeout=900 --continue-on-collection-errors --junitxml="$out" >/dev/null 2>&1
  /venv/bin/python - "$out" "$wt" <<'PY'
import json,sys,subprocess,os,xml.etree.ElementTree as ET
b=json.load(open('/root/.vp/BASELINE.json'))
wt=sys.argv[2]
passed=set()
for tc in ET.parse(sys.argv[1]).getroot().iter('testcase'):
    if not any(c.tag in ('failure','error','skipped') for c in tc): passed.add('%s::%s'%(tc.get('classname'),tc.get('name')))
missing=[t for t in b['stable_pass'] if t not in passed]
print('suite: stable_pass=%d passed_now=%d missing=%d'%(len(b['stable_pass']),len(passed),len(missing)))
def nodeid(t):
    cls,name=t.split('::'); parts=cls.split('.'); return '/'.join(parts[:-1])+'.py::'+parts[-1]+'::'+name
def run(t,cwd):
    env=dict(os.environ); env.pop('OPEN_PECTUS_VERIF',None)
    return subprocess.run(['/venv/bin/python','-m','pytest','-q','-p','no:cacheprovider','--timeout=900',nodeid(t)],cwd=cwd,env=env,stdout=subprocess.DEVNULL,stderr=subprocess.DEVNULL).returncode==0
still=[]
for m in missing:
    ok=any(run(m,wt) for _ in range(3))
    head_ok=None
    if not ok:
        head_ok=any(run(m,'/repo') for _ in range(3))   # /repo is only read here
        still.append((m,head_ok))
    print('  NOT PASSING in suite run:',m,'-> alone with patch:', 'passes' if ok else 'FAILS 3/3', '' if ok else '(unchanged tree alone: %s)'%('passes' if head_ok else 'fails too'))
real=[m for m,h in still if h]
print('RESULT', 'ok' if not real else 'tests-fail', '' if not still else 'flaky-under-load=%d'%len([1 for m,h in still if not h]))
PY
  rm -f "$out"
else
  echo "RESULT ok-notests"
fi
