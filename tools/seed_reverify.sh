#!/bin/bash
# usage: tools/seed_reverify.sh <seed-dir>...
# For a seed whose verify.log ended "RESULT tests-fail" because wall-clock tests did not pass on a loaded machine:
# re-runs exactly the tests listed as NOT PASSING, alone, in a fresh worktree with the patch (up to 5 attempts each, one
# at a time), and appends a new RESULT line. Run this when the machine is quiet.
for src in "$@"; do
  src="$(readlink -f "$src")"; log="$src/verify.log"
  grep -q "RESULT tests-fail" "$log" || { echo "$src: nothing to re-verify"; continue; }
  tests=$(grep "NOT PASSING in suite run:" "$log" | grep "FAILS" | sed 's/.*suite run: \([^ ]*\) -> .*/\1/' | sort -u)
  wt=$(mktemp -d /var/tmp/srv.XXXXXX)
  git -C /repo worktree add -q --detach "$wt" HEAD || exit 2
  if ! git -C "$wt" apply "$src/patch.diff"; then echo "$src: patch does not apply to HEAD"; echo "RESULT patch-does-not-apply (re-verification)" >> "$log"; git -C /repo worktree remove --force "$wt"; rm -rf "$wt"; continue; fi
  bad=0
  {
  echo "re-verification on a quieter machine ($(uptime | sed 's/.*load average/load average/')), HEAD $(git -C /repo rev-parse --short HEAD):"
  for t in $tests; do
    node=$(/venv/bin/python -c "import sys; c,n=sys.argv[1].split('::'); p=c.split('.'); print('/'.join(p[:-1])+'.py::'+p[-1]+'::'+n)" "$t")
    ok=0
    for i in 1 2 3 4 5; do
      if (cd "$wt" && env -u OPEN_PECTUS_VERIF /venv/bin/python -m pytest -q -p no:cacheprovider --timeout=900 "$node" >/dev/null 2>&1); then ok=$i; break; fi
    done
    if [ $ok -gt 0 ]; then echo "  $t -> alone with patch: passes (attempt $ok)"; else echo "  $t -> alone with patch: FAILS 5/5"; bad=1; fi
  done
  if [ $bad -eq 0 ]; then echo "RESULT ok (the tests that did not pass in the loaded suite run pass alone with the patch)"; else echo "RESULT tests-fail (re-verification)"; fi
  } >> "$log"
  tail -1 "$log" | sed "s|^|$src: |"
  git -C /repo worktree remove --force "$wt" >/dev/null 2>&1; rm -rf "$wt"
done
