#!/venv/bin/python
"""Regenerate the generated parts of DESIGN.md (between <!-- GEN:x --> and <!-- /GEN:x --> markers) from
known_findings.json, MANIFEST.json and seeded/*/meta.json."""
import json, os, re, glob
V = "/verif"
k = json.load(open(V + "/known_findings.json"))["findings"]
man = json.load(open(V + "/MANIFEST.json"))

def esc(s): return str(s).replace("|", "\\|").replace("\n", " ")
def pkey(f): return (int(f["property"][1:]), f["signature"])

known = ["| property | signature | what fails | why not repaired |", "|---|---|---|---|"]
for f in sorted([f for f in k if f["status"] == "known"], key=pkey):
    known.append("| %s | `%s` | %s | %s |" % (f["property"], esc(f["signature"]), esc(f["what"]), esc(f.get("why_not_repaired", "see the notes below the table"))))
fixed = ["| property | signature | commit | what failed |", "|---|---|---|---|"]
for f in sorted([f for f in k if f["status"] == "fixed"], key=pkey):
    fixed.append("| %s | `%s` | %s | %s |" % (f["property"], esc(f["signature"]), f.get("commit", "?"), esc(f["what"])))
checks = ["| property | engine | level | technique |", "|---|---|---|---|"]
for c in man["checks"]:
    checks.append("| %s | %s | %s | %s |" % (c["property_id"], c.get("engine", ""), c["level_claimed"]["category"], esc(c.get("technique", ""))))
seeds = ["| seed | breaks | needs to manifest | detected by (signatures of the property's check) | note |", "|---|---|---|---|---|"]
for mf in sorted(glob.glob(V + "/seeded/*/meta.json"), key=lambda p: (int(re.search(r"C(\d+)-", p).group(1)), p)):
    m = json.load(open(mf))
    cr = m.get("check_result", {})
    det = ", ".join("`%s`" % s for s in cr.get("signatures", [])[:4]) + (" ..." if len(cr.get("signatures", [])) > 4 else "") if cr.get("detected") else "**not detected**"
    seeds.append("| %s | %s | %s | %s | %s |" % (m["seed"], esc(m.get("breaks", "")), esc(m.get("needs_to_manifest", "")), det, esc(m.get("history", m.get("ported", "")))))
notes_ = json.load(open(V + "/tools/seed_notes.json"))
retired = ["", "Changes written by sub-agents that are **not kept** as seeds:", ""]
for k in sorted(notes_, key=lambda k: (int(re.search(r"C(\d+)-", k).group(1)), k)):
    if notes_[k].get("retired"):
        retired.append("- %s (%s; needs: %s) - %s" % (k, esc(notes_[k].get("breaks", "")), esc(notes_[k].get("needs", "")), esc(notes_[k]["retired"])))
if len(retired) > 3:
    seeds += retired
parts = {"known": "\n".join(known), "fixed": "\n".join(fixed), "checks": "\n".join(checks), "seeds": "\n".join(seeds)}
s = open(V + "/DESIGN.md").read()
for name, body in parts.items():
    pat = re.compile(r"(<!-- GEN:%s -->)(.*?)(<!-- /GEN:%s -->)" % (name, name), re.S)
    if pat.search(s):
        s = pat.sub(lambda m: m.group(1) + "\n" + body + "\n" + m.group(3), s)
    else:
        print("marker missing:", name)
open(V + "/DESIGN.md", "w").write(s)
print("known %d fixed %d checks %d seeds %d" % (len(known) - 2, len(fixed) - 2, len(checks) - 2, len(seeds) - 2))
