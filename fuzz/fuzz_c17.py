"""atheris target for C17: bytes -> unicode lines -> the oracle of vp.props.c17 (evaluate / check_case).

Stand-alone:
    PYTHONPATH=/repo:/verif:/verif/.deps /venv/bin/python /verif/fuzz/fuzz_c17.py -runs=200000 CORPUS_DIR [/verif/fuzz/corpus_c17]
    (C17_FUZZ_RAISE=1 makes a violation a libFuzzer crash; the crash artifact can be turned into a replay case with
     `python fuzz_c17.py --to-case ARTIFACT > case.json` and replayed with ./check C17 --replay case.json)

Driven by the thorough tier of ./check C17 the target runs in *collect* mode: a violation does not stop the fuzzer
(libFuzzer would otherwise sit on the first shallow finding for the whole budget); the smallest case per signature is
written to $C17_FUZZ_OUT/viol-<sig>.json and $C17_FUZZ_OUT/stats.json is rewritten every 500 executions (libFuzzer
leaves through exit(), Python atexit handlers do not run).  The parent re-judges every collected case with check_case.

Input layout: byte 0 bit0 = mode (0: one string, lines by str.splitlines; 1: explicit lines, split on '\n' only, so
'\r', '\x0b', U+2028 ... stay inside a line), bit1 = uod command names present, bit2 = fold everything outside printable ASCII / newline to a
space; rest = UTF-8 (invalid sequences replaced, so no lone surrogates).
"""
from __future__ import annotations

import json
import logging
import os
import re
import sys


def bytes_to_case(data: bytes):
    flags = data[0] if data else 0
    text = data[1:].decode("utf-8", "replace")
    if flags & 4:   # "structured" view: everything outside printable ASCII / newline becomes a space (more indentation, more judged cases)
        text = "".join(ch if (" " <= ch <= "~" or ch == "\n") else " " for ch in text)
    uod = ["Foo", "Bar baz", "Reset"] if flags & 2 else []
    if flags & 1:
        lines = text.split("\n")
        return {"mode": "lines", "lines": lines, "ids": ["id_%d" % (i + 1) for i in range(len(lines))], "uod": uod}
    return {"mode": "text", "text": text, "uod": uod}


def main():
    if len(sys.argv) == 3 and sys.argv[1] == "--to-case":
        with open(sys.argv[2], "rb") as f:
            json.dump(bytes_to_case(f.read()), sys.stdout, indent=1)
        return
    logging.disable(logging.CRITICAL)
    import atheris
    with atheris.instrument_imports(include=["openpectus.lang.model"]):
        import openpectus.lang.model.ast  # noqa: F401
        import openpectus.lang.model.parser  # noqa: F401
    from vp.props import c17

    outdir = os.environ.get("C17_FUZZ_OUT")
    do_raise = os.environ.get("C17_FUZZ_RAISE") == "1"
    stats = {"execs": 0, "nontrivial": 0, "structured": 0, "violating_execs": 0}
    best: dict[str, int] = {}

    def write_stats():
        if outdir:
            tmp = os.path.join(outdir, "stats.json.tmp")
            with open(tmp, "w") as f:
                json.dump(stats, f)
            os.replace(tmp, os.path.join(outdir, "stats.json"))

    def one(data: bytes):
        case = bytes_to_case(data)
        vs, classes, nontrivial = c17.evaluate(case)
        stats["execs"] += 1
        if stats["execs"] % 500 == 0:
            write_stats()
        stats["nontrivial"] += bool(nontrivial)
        stats["structured"] += any(c.startswith("tier:correct") or c == "tier:incorrect" for c in classes)
        if vs:
            stats["violating_execs"] += 1
            if outdir:
                for v in vs:
                    if v.sig not in best or len(data) < best[v.sig]:
                        best[v.sig] = len(data)
                        with open(os.path.join(outdir, "viol-%s.json" % re.sub(r"[^A-Za-z0-9_.-]+", "_", v.sig)[:80]), "w") as f:
                            json.dump(case, f)
            if do_raise:
                raise AssertionError("C17 violation %s :: %s" % (vs[0].sig, vs[0].msg))

    atheris.Setup(sys.argv, one)
    atheris.Fuzz()


if __name__ == "__main__":
    main()
