"""atheris target for C26: malformed protocol envelopes -> openpectus.protocol.serialization.deserialize.

Property judged (same oracle as vp.props.c26.check_malformed): whatever JSON value arrives,
  * deserialize returns a MessageBase instance or raises ProtocolDeserializationException -- nothing else;
  * an envelope that does not name a message class of a protocol namespace (missing _type/_ns, unknown namespace,
    unknown or non-message type name) must be rejected.

Stand-alone:
    PYTHONPATH=/repo:/verif:/verif/.deps /venv/bin/python /verif/fuzz/fuzz_c26.py -max_total_time=60 CORPUS_DIR /verif/fuzz/corpus_c26
    (C26_FUZZ_RAISE=1 turns a violation into a libFuzzer crash; `python fuzz_c26.py --to-case ARTIFACT > case.json` converts an
     artifact into a replay case for `./check C26 --replay case.json`)

Driven by the thorough tier of ./check C26 the target runs in *collect* mode: a violation does not stop the fuzzer; the smallest
input per signature is written to $C26_FUZZ_OUT/viol-<n>.json and $C26_FUZZ_OUT/stats.json is rewritten every 1000 executions
(libFuzzer leaves through exit(), atexit handlers do not run).  The parent re-judges every collected case with check_case.

Input layout: byte 0 bit0 = mode.
  mode 0 (raw)        rest = UTF-8 text (invalid sequences replaced), parsed with json.loads exactly like the receiving socket does;
                      unparsable text is not an input of deserialize and is skipped.
  mode 1 (addressed)  byte 1 picks _ns, byte 2 picks _type from tables built by reflection (valid names, non-message attributes,
                      dunders, junk), rest = JSON object text whose members become the fields (skipped when not an object).
"""
from __future__ import annotations

import json
import logging
import os
import sys


def _tables():
    from vp.props import c26
    ns_table = list(c26.NS_NAMES) + ["openpectus.protocol.models", "openpectus.protocol", "os", "builtins", "", "openpectus.protocol.serialization"]
    type_table = []
    for ns in c26.NAMESPACES:
        type_table.extend(sorted(dir(ns)))
    type_table = sorted(set(type_table)) + ["", "object", "dict", "X"]
    return ns_table, type_table


_TABLES = None


def bytes_to_case(data: bytes):
    """-> replay case for vp.props.c26 or None when the bytes are not an input of deserialize (unparsable JSON)."""
    global _TABLES
    if _TABLES is None:
        _TABLES = _tables()
    ns_table, type_table = _TABLES
    flags = data[0] if data else 0
    try:
        if flags & 1 and len(data) >= 3:
            fields = json.loads(data[3:].decode("utf-8", "replace") or "{}")
            if not isinstance(fields, dict):
                return None
            env = dict(fields)
            env["_ns"] = ns_table[data[1] % len(ns_table)]
            env["_type"] = type_table[data[2] % len(type_table)]
        else:
            env = json.loads(data[1:].decode("utf-8", "replace"))
    except (ValueError, RecursionError):
        return None
    return {"kind": "malformed", "mut": "atheris", "env": env}


def case_to_bytes(case) -> bytes:
    return b"\x00" + json.dumps(case["env"]).encode("utf-8")


def main():
    if len(sys.argv) == 3 and sys.argv[1] == "--to-case":
        with open(sys.argv[2], "rb") as f:
            json.dump(bytes_to_case(f.read()), sys.stdout, indent=1)
        return
    logging.disable(logging.CRITICAL)
    import atheris
    with atheris.instrument_imports(include=["openpectus.protocol"]):
        import openpectus.protocol.serialization  # noqa: F401
    from vp.props import c26

    outdir = os.environ.get("C26_FUZZ_OUT")
    do_raise = os.environ.get("C26_FUZZ_RAISE") == "1"
    stats = {"execs": 0, "judged": 0, "dict_envelopes": 0, "must_reject": 0, "violating_execs": 0}
    best: dict[str, int] = {}
    sig_no: dict[str, int] = {}

    def write_stats():
        if outdir:
            tmp = os.path.join(outdir, "stats.json.tmp")
            with open(tmp, "w") as f:
                json.dump(stats, f)
            os.replace(tmp, os.path.join(outdir, "stats.json"))

    def one(data: bytes):
        stats["execs"] += 1
        if stats["execs"] % 1000 == 0:
            write_stats()
        case = bytes_to_case(data)
        if case is None or not c26._jsonable(case["env"]):
            return
        stats["judged"] += 1
        env = case["env"]
        if isinstance(env, dict):
            stats["dict_envelopes"] += 1
            if c26._must_reject_reason(env) is not None:
                stats["must_reject"] += 1
        vs = c26.check_malformed(case)
        if not vs:
            return
        stats["violating_execs"] += 1
        if outdir:
            for v in vs:
                if v.sig not in best or len(data) < best[v.sig]:
                    best[v.sig] = len(data)
                    n = sig_no.setdefault(v.sig, len(sig_no))
                    with open(os.path.join(outdir, "viol-%d.json" % n), "w") as f:
                        json.dump(case, f)
        if do_raise:
            raise AssertionError("C26 violation: %s :: %s" % (vs[0].sig, vs[0].msg))

    write_stats()
    atheris.Setup(sys.argv, one)
    try:
        atheris.Fuzz()
    finally:
        write_stats()


if __name__ == "__main__":
    main()
