"""atheris target for C13: bytes -> (Hypothesis fuzz_one_input) -> campaign case of vp.harness.dialects_h -> oracle of vp.props.c13.

The byte string is interpreted by Hypothesis as the choice sequence of the strategy `dialects_h.campaign()`, so libFuzzer's
coverage feedback (openpectus interpreter / engine / command manager / parser are instrumented) steers the *same* case space the
Hypothesis tiers draw from, and every input is a valid campaign (construction, not rejection).

Stand-alone:
    PYTHONPATH=/repo:/verif:/verif/.deps PYTHONHASHSEED=0 /venv/bin/python /verif/fuzz/fuzz_c13.py -runs=20000 -max_len=4096 CORPUS_DIR
    C13_FUZZ_RAISE=1 makes a violation a libFuzzer crash; `python fuzz_c13.py --to-case ARTIFACT > case.json` turns an artifact
    into a replay case (./check C13 --replay case.json).
Collect mode (used by the thorough tier of ./check C13): violations do not stop the fuzzer; the smallest case per signature goes
to $C13_FUZZ_OUT/viol-<sig>.json, $C13_FUZZ_OUT/stats.json is rewritten every 100 executions.
"""
from __future__ import annotations

import json
import logging
import os
import re
import sys


def _build():
    from hypothesis import HealthCheck, given, settings
    from vp.harness import dialects_h as D
    from vp.props import c13
    sink = {"case": None, "result": None}

    @settings(database=None, deadline=None, suppress_health_check=list(HealthCheck))
    @given(D.campaign())
    def t(case):
        sink["case"] = case
        sink["result"] = c13.run_case(case)[:2]

    return t.hypothesis.fuzz_one_input, sink


def main():
    logging.disable(logging.CRITICAL)
    if len(sys.argv) == 3 and sys.argv[1] == "--to-case":
        fuzz, sink = _build()
        with open(sys.argv[2], "rb") as f:
            fuzz(f.read())
        json.dump(sink["case"], sys.stdout, indent=1)
        return
    import atheris
    with atheris.instrument_imports(include=["openpectus.lang.exec.pinterpreter", "openpectus.engine.engine", "openpectus.engine.command_manager",
                                             "openpectus.engine.method_manager", "openpectus.lang.exec.tracking", "openpectus.lang.model.parser",
                                             "openpectus.engine.internal_commands_impl", "openpectus.lang.exec.hotswap"]):
        import openpectus.engine.engine  # noqa: F401
        import openpectus.lang.exec.hotswap  # noqa: F401
    fuzz, sink = _build()
    outdir = os.environ.get("C13_FUZZ_OUT")
    do_raise = os.environ.get("C13_FUZZ_RAISE") == "1"
    stats = {"execs": 0, "valid": 0, "nontrivial": 0, "violating_execs": 0}
    best: dict[str, int] = {}

    def write_stats():
        if outdir:
            tmp = os.path.join(outdir, "stats.json.tmp")
            with open(tmp, "w") as f:
                json.dump(stats, f)
            os.replace(tmp, os.path.join(outdir, "stats.json"))

    def one(data: bytes):
        sink["case"], sink["result"] = None, None
        fuzz(data)
        stats["execs"] += 1
        if stats["execs"] % 100 == 0:
            write_stats()
        if sink["result"] is None:      # the bytes did not decode into a complete case
            return
        vs, info = sink["result"]
        stats["valid"] += 1
        stats["nontrivial"] += bool(info.get("errors"))
        if vs:
            stats["violating_execs"] += 1
            if outdir:
                for v in vs:
                    if v.sig not in best or len(data) < best[v.sig]:
                        best[v.sig] = len(data)
                        with open(os.path.join(outdir, "viol-%s.json" % re.sub(r"[^A-Za-z0-9_.-]+", "_", v.sig)[:80]), "w") as f:
                            json.dump(sink["case"], f)
            if do_raise:
                raise AssertionError("C13 violation %s :: %s" % (vs[0].sig, vs[0].msg))

    write_stats()
    atheris.Setup(sys.argv, one)
    atheris.Fuzz()


if __name__ == "__main__":
    main()
