"""Bounded, generic delta-debugger over JSON case structures.

minimize(case, pred, budget_s) returns a case for which pred is still true, obtained by greedy
passes: drop list elements (chunks, then single), recurse into containers, shrink numbers towards
0/1, shorten strings.  pred must be deterministic.  Property modules may add `hints(case)`
yielding whole-case candidates (e.g. "drop a method line together with its children").
"""
from __future__ import annotations

import copy
import json
import time
from typing import Any, Callable, Iterable


def _size(c) -> int:
    return len(json.dumps(c, default=str))


def _paths(c, prefix=()):
    yield prefix
    if isinstance(c, dict):
        for k in c:
            yield from _paths(c[k], prefix + (k,))
    elif isinstance(c, list):
        for i, x in enumerate(c):
            yield from _paths(x, prefix + (i,))


def _get(c, path):
    for p in path:
        c = c[p]
    return c


def _set(c, path, val):
    if not path:
        return val
    c = copy.deepcopy(c)
    cur = c
    for p in path[:-1]:
        cur = cur[p]
    cur[path[-1]] = val
    return c


def _candidates_at(c, path):
    v = _get(c, path)
    if isinstance(v, list):
        n = len(v)
        chunk = n // 2
        while chunk >= 1:
            for i in range(0, n, chunk):
                yield _set(c, path, v[:i] + v[i + chunk:])
            chunk //= 2
    elif isinstance(v, bool):
        if v:
            yield _set(c, path, False)
    elif isinstance(v, int):
        for t in (0, 1, v // 2, v - 1):
            if abs(t) < abs(v) or (t >= 0 > v):
                yield _set(c, path, t)
    elif isinstance(v, float):
        for t in (0.0, 1.0, float(int(v)), round(v, 1), round(v, 3)):
            if t != v and (abs(t) < abs(v) or len(repr(t)) < len(repr(v))):
                yield _set(c, path, t)
    elif isinstance(v, str):
        if len(v) > 0:
            for t in ("", v[: len(v) // 2], v[1:], v[:-1]):
                if t != v:
                    yield _set(c, path, t)


def minimize(case: Any, pred: Callable[[Any], bool], budget_s: float,
             hints: Callable[[Any], Iterable[Any]] | None = None) -> Any:
    t_end = time.monotonic() + budget_s
    best = case

    def ok(c) -> bool:
        try:
            return bool(pred(c))
        except Exception:
            return False

    improved = True
    while improved and time.monotonic() < t_end:
        improved = False
        if hints is not None:
            try:
                for cand in hints(best):
                    if time.monotonic() > t_end:
                        break
                    if _size(cand) < _size(best) and ok(cand):
                        best = cand
                        improved = True
                        break
            except Exception:
                pass
            if improved:
                continue
        for path in list(_paths(best)):
            if time.monotonic() > t_end:
                break
            try:
                _get(best, path)
            except (KeyError, IndexError, TypeError):
                continue
            for cand in _candidates_at(best, path):
                if time.monotonic() > t_end:
                    break
                if _size(cand) <= _size(best) and cand != best and ok(cand):
                    best = cand
                    improved = True
                    break
            if improved:
                break
    return best
