"""Core of the verification framework: collectors, sharding, findings, evidence, verdict lines.

A property module (vp/props/cNN.py) exposes

    ID, LEVEL, RULE, ASSUMPTIONS, TIERS = {"quick": {...}, "thorough": {...}}
    run_shard(col, cfg)      -- generate cases (Hypothesis / enumeration), feed them to col
    check_case(case)         -- the oracle on ONE json case -> list[Violation]   (replay + shrink)
    optional: shrink_hints(case) -> iterable of smaller candidate cases (property specific)
    optional: NSHARDS, DESIGN_REF, TECHNIQUE

Property bodies never raise on a violation; they return Violation objects.  An exception that
escapes a property body is a harness error (exit 2), never a verdict.
"""
from __future__ import annotations

import collections
import dataclasses
import hashlib
import json
import multiprocessing
import os
import re
import sys
import time
import traceback
from typing import Any, Callable, Iterable

VERIF = os.path.dirname(os.path.dirname(os.path.dirname(os.path.abspath(__file__))))
REPO = os.environ.get("VERIF_REPO", "/repo")
# VERIF_OUT: development aid (mutant runs write their evidence/replays elsewhere); registered commands never set it.
OUT = os.environ.get("VERIF_OUT", VERIF)


@dataclasses.dataclass
class Violation:
    sig: str
    msg: str
    case: Any = None

    def to_json(self):
        return {"sig": self.sig, "msg": self.msg, "case": self.case}


def case_hash(case: Any) -> str:
    return hashlib.sha1(json.dumps(case, sort_keys=True, default=str).encode()).hexdigest()[:16]


class Collector:
    """Per-shard accumulator.  Everything in it is picklable."""

    MAX_SAMPLES = 4
    MAX_VIOL_PER_SIG = 3

    MIN_EVALS_BEFORE_EXPIRY = 8

    def __init__(self, seed: int, shard: int, nshards: int, tier: str, deadline: float, hard_deadline: float | None = None):
        self.seed, self.shard, self.nshards, self.tier = seed, shard, nshards, tier
        self.deadline = deadline
        # on a starved machine the first case alone (imports, set-up) can outlast the budget: a shard keeps going until
        # it has evaluated a handful of cases, but never beyond the hard deadline
        self.hard_deadline = deadline if hard_deadline is None else hard_deadline
        self.evaluations = 0
        self.nontrivial: set[str] = set()
        self.classes: collections.Counter = collections.Counter()
        self.samples: list = []
        self.violations: dict[str, list] = {}
        self.viol_counts: collections.Counter = collections.Counter()
        self.extra: dict = {}
        self.budget_exhausted = False

    # -- budget -------------------------------------------------------------------------------
    def expired(self) -> bool:
        now = time.monotonic()
        if now > self.deadline:
            self.budget_exhausted = True
            return self.evaluations >= self.MIN_EVALS_BEFORE_EXPIRY or now > self.hard_deadline
        return False

    # -- recording ----------------------------------------------------------------------------
    def record(self, case: Any, nontrivial: bool, classes: Iterable[str] = (),
               violations: Iterable[Violation] = (), sample: Any = None, key: str | None = None):
        self.evaluations += 1
        for c in classes:
            self.classes[c] += 1
        if nontrivial:
            h = key or case_hash(case)
            if h not in self.nontrivial:
                self.nontrivial.add(h)
                if len(self.samples) < self.MAX_SAMPLES and (self.evaluations % 7 == 1 or len(self.nontrivial) > 50):
                    self.samples.append(sample if sample is not None else case)
        for v in violations:
            self.viol_counts[v.sig] += 1
            lst = self.violations.setdefault(v.sig, [])
            if v.case is None:
                v.case = case
            if len(lst) < self.MAX_VIOL_PER_SIG:
                lst.append(v.to_json())
            else:
                # keep the smallest representatives
                size = len(json.dumps(v.case, default=str))
                worst = max(range(len(lst)), key=lambda i: len(json.dumps(lst[i]["case"], default=str)))
                if size < len(json.dumps(lst[worst]["case"], default=str)):
                    lst[worst] = v.to_json()

    def count(self, name: str, n: int = 1):
        self.classes[name] += n

    def result(self) -> dict:
        return {
            "evaluations": self.evaluations,
            "nontrivial": self.nontrivial,
            "classes": dict(self.classes),
            "samples": self.samples,
            "violations": self.violations,
            "viol_counts": dict(self.viol_counts),
            "extra": self.extra,
            "budget_exhausted": self.budget_exhausted,
        }


# ------------------------------------------------------------------------------------------------
# Hypothesis driver: spend the whole budget, never stop at the first failure
# ------------------------------------------------------------------------------------------------

def hyp_run(strategy, body: Callable[[Any], None], max_examples: int, seed_int: int, col: Collector | None = None):
    import hypothesis
    from hypothesis import HealthCheck, Phase, given, settings

    class _BudgetExpired(BaseException):
        """leaves the Hypothesis run at once (not an Exception, so it is not a test failure): generating the remaining
        examples only to skip them cost more than the budget itself for the large program generators"""

    @hypothesis.seed(seed_int)
    @settings(max_examples=max_examples, phases=[Phase.generate], database=None, deadline=None,
              derandomize=False, report_multiple_bugs=False,
              suppress_health_check=list(HealthCheck))
    @given(strategy)
    def _t(x):
        if col is not None and col.expired():
            raise _BudgetExpired()
        body(x)

    try:
        _t()
    except _BudgetExpired:
        pass


def shard_seed(seed: int, shard: int) -> int:
    return seed * 1000 + shard


# ------------------------------------------------------------------------------------------------
# known findings
# ------------------------------------------------------------------------------------------------

def load_known() -> list[dict]:
    p = os.path.join(VERIF, "known_findings.json")
    if not os.path.exists(p):
        return []
    with open(p) as f:
        return json.load(f)["findings"]


def known_status(known: list[dict], prop: str, sig: str) -> dict | None:
    for e in known:
        if e["property"] == prop and e["signature"] == sig:
            return e
    return None


def slug(s: str) -> str:
    return re.sub(r"[^A-Za-z0-9_.-]+", "_", s)[:80]


# ------------------------------------------------------------------------------------------------
# shard worker
# ------------------------------------------------------------------------------------------------

def _worker(args):
    modname, cfg, seed, shard, nshards, tier, deadline, hard_deadline = args
    import importlib
    import logging
    logging.disable(logging.CRITICAL)
    mod = importlib.import_module(modname)
    col = Collector(seed, shard, nshards, tier, deadline, hard_deadline)
    try:
        mod.run_shard(col, cfg)
    except Exception:
        return {"error": traceback.format_exc(), "shard": shard}
    return col.result()


def run_property(mod, tier: str, seed: int) -> int:
    from . import shrink as shrinker
    t0 = time.monotonic()
    pid = mod.ID
    cfg = dict(mod.TIERS[tier])
    nshards = int(cfg.get("shards", getattr(mod, "NSHARDS", 16)))
    budget = float(cfg.get("budget_s", 120 if tier == "quick" else 1500))
    budget *= float(os.environ.get("VERIF_BUDGET_SCALE", "1"))   # development aid for a loaded machine; never set by registered commands
    known = load_known()
    out_lines: list[str] = []
    exit_code = 0

    # ---- replay tier: every committed reproducer first ----------------------------------------
    replay_dir = os.path.join(VERIF, "replays", pid)
    stale_known, replayed = [], 0
    seen_known: dict[str, str] = {}
    new_violation_sigs: dict[str, dict] = {}
    if os.path.isdir(replay_dir):
        for fn in sorted(os.listdir(replay_dir)):
            if not fn.endswith(".json"):
                continue
            with open(os.path.join(replay_dir, fn)) as f:
                rp = json.load(f)
            replayed += 1
            vs = mod.check_case(rp["case"])
            sigs = {v.sig for v in vs}
            entry = known_status(known, pid, rp["signature"])
            if rp["signature"] in sigs:
                if entry and entry["status"] == "known":
                    seen_known[rp["signature"]] = entry["what"]
                else:
                    new_violation_sigs.setdefault(rp["signature"], {"path": os.path.join(replay_dir, fn), "count": 1,
                                                                     "msg": [v.msg for v in vs if v.sig == rp["signature"]][0]})
            else:
                if entry and entry["status"] == "known":
                    stale_known.append(rp["signature"])
            for v in vs:  # other signatures surfacing in a replay are handled like generated ones
                if v.sig != rp["signature"]:
                    e2 = known_status(known, pid, v.sig)
                    if e2 and e2["status"] == "known":
                        seen_known[v.sig] = e2["what"]

    # ---- generation -------------------------------------------------------------------------
    deadline = time.monotonic() + budget   # the budget covers generation only; the replay tier above is not charged to it
    hard_deadline = deadline + max(2 * budget, 120.0)
    jobs = [(mod.__name__, cfg, seed, i, nshards, tier, deadline, hard_deadline) for i in range(nshards)]
    procs = min(nshards, int(os.environ.get("VERIF_PROCS", "16")))
    if procs <= 1:
        results = [_worker(j) for j in jobs]
    else:
        ctx = multiprocessing.get_context("fork")
        with ctx.Pool(procs) as pool:
            results = pool.map(_worker, jobs, chunksize=1)
    errors = [r for r in results if "error" in r]
    if errors:
        sys.stderr.write("HARNESS-ERROR property=%s shard=%s\n%s\n" % (pid, errors[0]["shard"], errors[0]["error"]))
        return 2

    evaluations = sum(r["evaluations"] for r in results)
    nontrivial: set[str] = set()
    classes: collections.Counter = collections.Counter()
    samples: list = []
    viols: dict[str, list] = {}
    viol_counts: collections.Counter = collections.Counter()
    extra: dict = {}
    budget_exhausted = False
    for r in results:
        nontrivial |= r["nontrivial"]
        classes.update(r["classes"])
        for s in r["samples"]:
            if len(samples) < 6:
                samples.append(s)
        for sig, lst in r["violations"].items():
            viols.setdefault(sig, []).extend(lst)
        viol_counts.update(r["viol_counts"])
        for k, v in r["extra"].items():
            if isinstance(v, (int, float)) and not isinstance(v, bool):
                extra[k] = extra.get(k, 0) + v
            elif isinstance(v, list):
                extra.setdefault(k, [])
                if len(extra[k]) < 20:
                    extra[k].extend(v[: 20 - len(extra[k])])
            else:
                extra[k] = v
        budget_exhausted |= r["budget_exhausted"]

    # ---- triage of generated violations -------------------------------------------------------
    shrink_total_end = time.monotonic() + float(cfg.get("shrink_total_s", 60 if tier == "quick" else 300))
    for sig in sorted(viols):
        entry = known_status(known, pid, sig)
        if entry and entry["status"] == "known":
            seen_known[sig] = entry["what"]
            continue
        if sig in new_violation_sigs:
            new_violation_sigs[sig]["count"] += viol_counts[sig]
            continue
        reps = sorted(viols[sig], key=lambda v: len(json.dumps(v["case"], default=str)))
        rep = reps[0]
        case = rep["case"]
        msg = rep["msg"]
        # re-validate outside hypothesis (plain regression path); a non-reproducing violation is a harness problem
        again = [v for v in mod.check_case(case) if v.sig == sig]
        reproducible = bool(again)
        if reproducible:
            shrink_budget = min(float(cfg.get("shrink_s", 20 if tier == "quick" else 90)),
                                max(0.0, shrink_total_end - time.monotonic()))
            case = shrinker.minimize(case, lambda c: any(v.sig == sig for v in mod.check_case(c)),
                                     shrink_budget, hints=getattr(mod, "shrink_hints", None))
            again = [v for v in mod.check_case(case) if v.sig == sig]
            msg = again[0].msg if again else msg
        out_replay_dir = os.path.join(OUT, "replays", pid)
        os.makedirs(out_replay_dir, exist_ok=True)
        path = os.path.join(out_replay_dir, "%s-%s.json" % (slug(sig), case_hash(case)[:8]))
        with open(path, "w") as f:
            json.dump({"property": pid, "signature": sig, "message": msg, "reproducible": reproducible,
                       "seed": seed, "tier": tier, "case": case}, f, indent=1, sort_keys=True, default=str)
        new_violation_sigs[sig] = {"path": path, "count": viol_counts[sig], "msg": msg}

    for sig, what in sorted(seen_known.items()):
        out_lines.append("KNOWN-FINDING: property=%s %s [%s]" % (pid, what, sig))
    for sig, info in sorted(new_violation_sigs.items()):
        out_lines.append("VIOLATION property=%s replay=%s signature=%s count=%d :: %s"
                         % (pid, info["path"], sig, info["count"], info["msg"][:300]))
        exit_code = 1

    wall = time.monotonic() - t0
    coverage = {
        "evaluations": int(evaluations),
        "distinct_nontrivial": len(nontrivial),
        "rule": mod.RULE,
        "samples": samples,
        "classes": dict(sorted(classes.items())),
        "exhaustive": bool(cfg.get("exhaustive", False)),
        "replays_run": replayed,
        "known_findings_seen": sorted(seen_known),
        "stale_known": stale_known,
        "violation_signatures": {s: i["count"] for s, i in new_violation_sigs.items()},
        "budget_exhausted": budget_exhausted,
        "tier_config": {k: v for k, v in cfg.items()},
        "shards": nshards,
    }
    coverage.update(extra)
    ev = {
        "property_id": pid,
        "tier": tier,
        "seed": seed,
        "level": mod.LEVEL,
        "coverage": coverage,
        "assumptions": list(getattr(mod, "ASSUMPTIONS", [])),
        "wall_s": round(wall, 2),
        "violations": len(new_violation_sigs),
    }
    os.makedirs(os.path.join(OUT, "evidence"), exist_ok=True)
    with open(os.path.join(OUT, "evidence", pid + ".json"), "w") as f:
        json.dump(ev, f, indent=1, default=str)
        f.write("\n")
    for l in out_lines:
        print(l)
    print("SUMMARY property=%s tier=%s seed=%d evaluations=%d distinct_nontrivial=%d violations=%d known=%d wall=%.1fs%s"
          % (pid, tier, seed, evaluations, len(nontrivial), len(new_violation_sigs), len(seen_known), wall,
             " budget_exhausted" if budget_exhausted else ""))
    if evaluations < 1 or len(nontrivial) < 2:
        sys.stderr.write("HARNESS-ERROR property=%s: vacuous run (evaluations=%d nontrivial=%d)\n" % (pid, evaluations, len(nontrivial)))
        return 2 if exit_code == 0 else exit_code
    return exit_code


def replay_file(mod, path: str) -> int:
    with open(path) as f:
        rp = json.load(f)
    case = rp["case"] if isinstance(rp, dict) and "case" in rp else rp
    vs = mod.check_case(case)
    if not vs:
        print("REPLAY property=%s file=%s: no violation" % (mod.ID, path))
        return 0
    for v in vs:
        print("VIOLATION property=%s replay=%s signature=%s :: %s" % (mod.ID, path, v.sig, v.msg[:400]))
    return 1
