"""C26 — protocol messages round-trip through JSON.

Subject : openpectus.protocol.serialization.serialize / deserialize, exercised through the JSON path of the REAL transport:
            rpc_request   d = serialize(msg); fastapi_websocket_rpc: RpcMessage(request=RpcRequest(arguments={"message_json": d}))
                          -> JsonSerializingWebSocket._serialize (pydantic model_dump_json) -> text frame ->
                          JsonSerializingWebSocket._deserialize (json.loads) -> pydantic_parse(RpcMessage) ->
                          request.arguments["message_json"] -> deserialize          (EngineDispatcher.send_async,
                          AggregatorDispatcher.rpc_call)
            rpc_reply     s = json.dumps(serialize(msg)) -> RpcResponse[str](result=s) -> same socket functions ->
                          json.loads(response.result) -> deserialize                (both dispatch_message_async handlers)
            rest_request  httpx.Request("POST", json=serialize(msg)).content -> json.loads -> deserialize
                          (EngineDispatcher.send_registration_msg_async -> AggregatorDispatcher post route)
            rest_response fastapi jsonable_encoder(serialize(msg)) -> JSONResponse body -> httpx.Response.json()
                          -> deserialize                                               (post route reply)
          Every message class travels on the path(s) its real senders use (see _paths_for).
Domain  : every MessageBase subclass found by reflection in the three protocol namespaces (new classes are picked up
          automatically; an unknown field type is a harness error so it cannot be skipped silently).  Field values are
          built from the pydantic field annotations: st.from_type for int/str/bool leaves, hand-written strategies for
          floats, unions, lists, sets, dicts (incl. numeric keys), Literals, enums, constrained ints and nested models.
          Non-finite floats (nan, +-inf) are generated only in a separate class of cases (flag "nonfinite") and judged
          under their own signatures.
          Second kind of case: malformed envelopes (missing _type/_ns, unknown namespace, unknown / non-message type
          names, wrong JSON types, non-dict envelopes, wrong field types).
Oracle  : round trip: deserialize(transport(serialize(m))) == m and type(result) is type(m); the difference is located
          by a field-by-field structural diff of the two model objects (NaN-aware, leaf types strict).  Malformed: envelopes that do not name a message class
          of a protocol namespace MUST raise ProtocolDeserializationException; for every other malformed input nothing
          but ProtocolDeserializationException may be raised (acceptance by lax coercion is only counted).
"""
from __future__ import annotations

import enum
import inspect
import json
import math
import types
import typing

from hypothesis import strategies as st

from vp.core.framework import Violation, hyp_run, shard_seed

# imported at module level on purpose (once in the parent, before the shard workers are forked)
import annotated_types
import httpx
from fastapi.encoders import jsonable_encoder
from fastapi.responses import JSONResponse
from fastapi_websocket_rpc.schemas import RpcMessage, RpcRequest, RpcResponse
from fastapi_websocket_rpc.simplewebsocket import JsonSerializingWebSocket
from fastapi_websocket_rpc.utils import pydantic_parse
from pydantic import BaseModel, ValidationError

import openpectus.protocol.serialization as S
from openpectus.protocol.exceptions import ProtocolDeserializationException

AM, EM, M = S.AM, S.EM, S.M
NAMESPACES = list(S._message_namespaces)
NS_NAMES = [ns.__name__ for ns in NAMESPACES]

ID = "C26"
LEVEL = "exploration"
ENGINE = "pure"
DESIGN_REF = "DESIGN.md §3 C26"
TECHNIQUE = ("reflection over all MessageBase subclasses, annotation-driven Hypothesis strategies, round trip through the real "
             "transport's JSON functions (fastapi_websocket_rpc socket serializer, httpx, FastAPI encoder) with structural diff; "
             "malformed-envelope generator + atheris fuzz target")
RULE = ("round-trip case = (message class, generated field tree, transport path); non-trivial = the built message contains >= 1 "
        "nested model instance and >= 1 field that has a default holds a non-default value. Malformed case = a valid wire "
        "envelope with one mutation (dropped/renamed/retyped _type/_ns, wrong field type, dropped field, non-dict); non-trivial "
        "= the envelope is a dict that must be rejected. Distinct = distinct case JSON.")
ASSUMPTIONS = [
    "the JSON path is rebuilt from the real library functions (JsonSerializingWebSocket._serialize/_deserialize, pydantic_parse(RpcMessage), "
    "httpx.Request/Response, fastapi jsonable_encoder + JSONResponse) without opening sockets; framing/UTF-8 transfer is assumed lossless",
    "strings contain no lone surrogates (they cannot be sent in a websocket text frame at all)",
    "each message class is sent on the path its real senders use: EngineMessage subclasses and AggregatorMessage subclasses as RPC "
    "request, RegisterEngineMsg as REST request, RegisterEngineReplyMsg as REST response, the status messages of protocol.messages "
    "as RPC reply and REST response; classes of unknown lineage on both RPC paths",
    "non-finite floats (nan/inf) are valid values of the declared type float (pydantic accepts them) but are kept in a separate case "
    "class with their own signatures (nonfinite:*), so that the finite domain is judged on its own",
    "equality is pydantic model equality plus a leaf-type-strict structural diff (an int coming back as float would be reported "
    "under its own 'leaf-type' signature)",
    "for malformed envelopes 'must reject' = _type/_ns missing, _ns not one of the three protocol namespaces, or _type not the name of a "
    "MessageBase subclass reachable as attribute of that namespace; all other malformed inputs may be accepted or rejected but must "
    "not raise anything but ProtocolDeserializationException",
]
TIERS = {
    "quick": {"examples": 1250, "budget_s": 150, "fuzz_s": 0},
    "thorough": {"examples": 31250, "budget_s": 800, "fuzz_s": 180},
}


class HarnessError(Exception):
    pass


# ---- reflection -----------------------------------------------------------------------------------------

def message_classes() -> list[type]:
    out = []
    for ns in NAMESPACES:
        for name, c in sorted(vars(ns).items()):
            if inspect.isclass(c) and issubclass(c, M.MessageBase) and c.__module__ == ns.__name__ and c.__qualname__ == name:
                out.append(c)
    return out


def _find_class(ns_name: str, cls_name: str):
    if ns_name not in NS_NAMES or not isinstance(cls_name, str):
        return None
    ns = NAMESPACES[NS_NAMES.index(ns_name)]
    c = vars(ns).get(cls_name)
    if inspect.isclass(c) and issubclass(c, M.MessageBase) and c.__module__ == ns_name:
        return c
    return None


def _paths_for(cls) -> list[str]:
    """transport paths a message class travels on, plus "json_text": the plain JSON text form of serialize()'s dict
    (json.dumps / json.loads - what the reply path, the buffered-message store and the repository's own tests use)."""
    return _real_paths_for(cls) + ["json_text"]


def _real_paths_for(cls) -> list[str]:
    if cls is getattr(EM, "RegisterEngineMsg", None):
        return ["rest_request"]
    if issubclass(cls, EM.EngineMessage):
        return ["rpc_request"]
    if cls is getattr(AM, "RegisterEngineReplyMsg", None):
        return ["rest_response"]
    if issubclass(cls, AM.AggregatorMessage):
        return ["rpc_request"]
    if cls.__module__ == M.__name__:
        return ["rpc_reply", "rest_response"]
    return ["rpc_request", "rpc_reply"]


ALL_PATHS = ["rpc_request", "rpc_reply", "rest_request", "rest_response", "json_text"]


class NotJudged(Exception):
    """the path does not apply to this value (counted, never a verdict)"""


# ---- the real transport's JSON path -----------------------------------------------------------------------

_SOCK = JsonSerializingWebSocket(None)  # type: ignore[arg-type]   # only its pure _serialize/_deserialize are used


def transport(path: str, d: dict):
    """wire form of the dict produced by serialize(), as the receiving side's deserialize() sees it."""
    if path == "rpc_request":
        frame = _SOCK._serialize(RpcMessage(request=RpcRequest(method="dispatch_message_async", arguments={"message_json": d}, call_id="c")))
        frame = frame.encode("utf-8").decode("utf-8")
        msg = pydantic_parse(RpcMessage, _SOCK._deserialize(frame))
        return msg.request.arguments["message_json"]
    if path == "rpc_reply":
        s = json.dumps(d)
        frame = _SOCK._serialize(RpcMessage(response=RpcResponse[str](call_id="c", result=s, result_type="str")))
        frame = frame.encode("utf-8").decode("utf-8")
        msg = pydantic_parse(RpcMessage, _SOCK._deserialize(frame))
        return json.loads(msg.response.result)
    if path == "rest_request":
        body = httpx.Request("POST", "http://aggregator/engine-rest", json=d).content
        return json.loads(body)
    if path == "rest_response":
        body = JSONResponse(jsonable_encoder(d)).body
        return httpx.Response(200, content=body).json()
    if path == "json_text":
        try:
            text = json.dumps(d)
        except TypeError as ex:
            # serialize() may return values only pydantic's encoder handles (sets); the real transports cope, plain JSON text
            # does not apply to such a message
            raise NotJudged(str(ex))
        return json.loads(text)
    raise HarnessError("unknown path %r" % path)


# ---- tagged JSON encoding of field trees --------------------------------------------------------------------
#   model            -> JSON object {field: tree}  (fields left out take their default)
#   dict (non-model) -> {"$map": [[key, value], ...]}      (keys may be int/float/str)
#   non-finite float -> {"$f": "nan" | "inf" | "-inf"}
#   set              -> JSON list (pydantic converts);  enum -> its value

def _enc_float(x: float):
    if x != x:
        return {"$f": "nan"}
    if x in (math.inf, -math.inf):
        return {"$f": "inf" if x > 0 else "-inf"}
    return x


def decode(t):
    if isinstance(t, dict):
        if set(t) == {"$map"}:
            out = {}
            for kv in t["$map"]:
                if not (isinstance(kv, list) and len(kv) == 2):
                    raise ValueError("bad $map")
                k = decode(kv[0])
                if isinstance(k, (dict, list)) or k is None:
                    raise ValueError("bad $map key")
                out[k] = decode(kv[1])
            return out
        if set(t) == {"$f"}:
            if t["$f"] not in ("nan", "inf", "-inf"):
                raise ValueError("bad $f")
            return float(t["$f"])
        if any(isinstance(k, str) and k.startswith("$") for k in t):
            raise ValueError("bad tag")
        return {k: decode(v) for k, v in t.items()}
    if isinstance(t, list):
        return [decode(x) for x in t]
    return t


def _has_nonfinite(t) -> bool:
    if isinstance(t, dict):
        return "$f" in t or any(_has_nonfinite(v) for v in t.values())
    if isinstance(t, list):
        return any(_has_nonfinite(x) for x in t)
    return False


def _has_surrogate(t) -> bool:
    if isinstance(t, str):
        return any(0xD800 <= ord(ch) <= 0xDFFF for ch in t)
    if isinstance(t, dict):
        return any(_has_surrogate(k) or _has_surrogate(v) for k, v in t.items())
    if isinstance(t, list):
        return any(_has_surrogate(x) for x in t)
    return False


# ---- annotation driven strategies ---------------------------------------------------------------------------

_TEXT = st.one_of(st.sampled_from(["", "a", "Run", "id_1", "L/h", "°C", "x y", "1", "1.5", "None", "null", "true"]), st.from_type(str))
_INT = st.one_of(st.integers(-3, 3), st.integers(-3, 3), st.integers(-2 ** 53, 2 ** 53), st.from_type(int))
_FLOAT_FINITE = st.one_of(st.sampled_from([0.0, 1.0, -1.0, 0.1, 1700000000.123, 1e-7, 1e22, -0.0, 5e-324, 1.7976931348623157e308]),
                          st.floats(allow_nan=False, allow_infinity=False))
_FLOAT_NONFINITE = st.sampled_from([math.nan, math.inf, -math.inf])


def _bounds(meta):
    lo = hi = None
    for m in meta:
        if isinstance(m, annotated_types.Ge):
            lo = m.ge
        elif isinstance(m, annotated_types.Gt):
            lo = m.gt + 1
        elif isinstance(m, annotated_types.Le):
            hi = m.le
        elif isinstance(m, annotated_types.Lt):
            hi = m.lt - 1
        elif isinstance(m, (annotated_types.Interval,)):
            raise HarnessError("unsupported constraint %r" % (m,))
        else:
            raise HarnessError("unsupported field constraint %r (extend vp/props/c26.py)" % (m,))
    return lo, hi


def strategy_for(tp, nonfinite: bool, meta=()):
    """strategy of *tagged trees* for values of annotation tp."""
    origin = typing.get_origin(tp)
    if origin is typing.Annotated:
        base, *m = typing.get_args(tp)
        return strategy_for(base, nonfinite, tuple(meta) + tuple(m))
    if meta:
        if tp is int:
            lo, hi = _bounds(meta)
            return st.one_of(st.integers(lo if lo is not None else -3, hi if hi is not None else (lo or 0) + 5),
                             st.integers(min_value=lo, max_value=hi))
        raise HarnessError("constraints %r on type %r are not supported (extend vp/props/c26.py)" % (meta, tp))
    if tp is int:
        return _INT
    if tp is str:
        return _TEXT
    if tp is bool:
        return st.from_type(bool)
    if tp is float:
        if nonfinite:
            return st.one_of(_FLOAT_FINITE, _FLOAT_NONFINITE, _FLOAT_NONFINITE).map(_enc_float)
        return _FLOAT_FINITE
    if tp is type(None):
        return st.none()
    if tp is typing.Any:
        raise HarnessError("field of type Any")
    if origin in (typing.Union, types.UnionType):
        return st.one_of([strategy_for(a, nonfinite) for a in typing.get_args(tp)])
    if origin is typing.Literal:
        return st.sampled_from(list(typing.get_args(tp)))
    if origin in (list, typing.Sequence) or (origin is not None and origin.__name__ in ("list", "Sequence")):
        (a,) = typing.get_args(tp)
        return st.lists(strategy_for(a, nonfinite), max_size=3)
    if origin in (set, frozenset):
        (a,) = typing.get_args(tp)
        if a not in (str, int):
            raise HarnessError("set of %r not supported" % (a,))
        return st.lists(strategy_for(a, nonfinite), max_size=3, unique=True)
    if origin is dict:
        ka, va = typing.get_args(tp)
        ks, vs = strategy_for(ka, nonfinite), strategy_for(va, nonfinite)

        def _key_id(kv):
            k = kv[0]
            return ("nan" if isinstance(k, dict) else (type(k) is str, k))   # 1 / 1.0 collide as python keys; "1" and 1 do not
        return st.lists(st.tuples(ks, vs).map(list), max_size=3, unique_by=_key_id).map(lambda kvs: {"$map": kvs})
    if inspect.isclass(tp) and issubclass(tp, enum.Enum):
        return st.sampled_from([e.value for e in tp])
    if inspect.isclass(tp) and issubclass(tp, BaseModel):
        return model_strategy(tp, nonfinite)
    raise HarnessError("no strategy for field type %r (extend vp/props/c26.py so that new message fields are not skipped)" % (tp,))


def model_strategy(cls, nonfinite: bool):
    required, optional = {}, {}
    for name, f in cls.model_fields.items():
        s = strategy_for(f.annotation, nonfinite, tuple(f.metadata))
        # fields with a default_factory (e.g. a wall-clock timestamp) are always given explicitly: cases stay deterministic
        if f.is_required() or f.default_factory is not None:
            required[name] = s
        else:
            optional[name] = s
    return st.fixed_dictionaries(required, optional=optional)


_STRATEGY_CACHE: dict = {}


def class_strategy(cls, nonfinite: bool):
    key = (cls, nonfinite)
    if key not in _STRATEGY_CACHE:
        _STRATEGY_CACHE[key] = model_strategy(cls, nonfinite)
    return _STRATEGY_CACHE[key]


# ---- building and measuring a message -------------------------------------------------------------------------

def build(case):
    """-> message instance, or None if the case is outside the domain (shrinker by-products)."""
    if not isinstance(case, dict) or case.get("kind") != "roundtrip":
        return None
    cls = _find_class(case.get("ns"), case.get("cls"))
    if cls is None or case.get("path") not in _paths_for(cls) or not isinstance(case.get("fields"), dict):
        return None   # (a path the class is never sent on is outside the domain)
    if _has_surrogate(case["fields"]):
        return None
    try:
        kwargs = decode(case["fields"])
        return cls(**kwargs)
    except (ValidationError, ValueError, TypeError):
        return None


def _nested_and_nondefault(msg) -> tuple[bool, bool]:
    nested = nondefault = False

    def walk(m, top):
        nonlocal nested, nondefault
        if not top:
            nested = True
        for name, f in type(m).model_fields.items():
            v = getattr(m, name)
            if not f.is_required() and f.default_factory is None and not _eq(v, f.default):
                nondefault = True
            stack = [v]
            while stack:
                x = stack.pop()
                if isinstance(x, BaseModel):
                    walk(x, False)
                elif isinstance(x, (list, tuple, set, frozenset)):
                    stack.extend(x)
                elif isinstance(x, dict):
                    stack.extend(x.values())
    walk(msg, True)
    return nested, nondefault


# ---- structural diff --------------------------------------------------------------------------------------------

def _eq(a, b) -> bool:
    if isinstance(a, float) and isinstance(b, float) and a != a and b != b:
        return True
    return type(a) is type(b) and a == b


def _tname(x) -> str:
    if isinstance(x, float) and (x != x or x in (math.inf, -math.inf)):
        return "nonfinite"
    return type(x).__name__


def _is_nf(x) -> bool:
    return isinstance(x, float) and (x != x or x in (math.inf, -math.inf))


def diff(a, b, path=""):
    """yield (field path, detail, nonfinite_involved) for every difference between two values (models are walked by field)."""
    if isinstance(a, BaseModel) and isinstance(b, BaseModel):
        if type(a) is not type(b):
            yield path, "model:%s->%s" % (type(a).__name__, type(b).__name__), False
            return
        for name in type(a).model_fields:
            yield from diff(getattr(a, name), getattr(b, name), path + ("." if path else "") + name)
        return
    if isinstance(a, dict) and isinstance(b, dict):
        if {(type(k), repr(k)) for k in a} != {(type(k), repr(k)) for k in b}:
            # (a non-finite float key shares the root cause of every other numeric key, so it is not put in the nonfinite class)
            if any(not isinstance(k, str) for k in a) and all(isinstance(k, str) for k in b):
                yield path, "keys:non-str->str", False
            else:
                yield path, "keys", False
            return
        bk = {(type(k), repr(k)): k for k in b}
        for k in sorted(a, key=lambda k: (type(k).__name__, repr(k))):
            yield from diff(a[k], b[bk[(type(k), repr(k))]], path + "{}")
        return
    if isinstance(a, (list, tuple)) and isinstance(b, (list, tuple)):
        if len(a) != len(b):
            yield path + "[]", "len", False
            return
        for x, y in zip(a, b):
            yield from diff(x, y, path + "[]")
        return
    if isinstance(a, (set, frozenset)) and isinstance(b, (set, frozenset)):
        if a != b:
            yield path, "set", False
        return
    if not _eq(a, b):
        nf = _is_nf(a)
        if type(a) is type(b):
            yield path, "value", nf
        elif isinstance(a, (int, float)) and isinstance(b, (int, float)) and not isinstance(a, bool) and not isinstance(b, bool) and a == b:
            yield path, "leaf-type:%s->%s" % (_tname(a), _tname(b)), nf
        else:
            yield path, "%s->%s" % (_tname(a), _tname(b)), nf


def _resolve_loc(tree, loc):
    """follow a pydantic error location through a model_dump() tree; parts that are not keys/indices (union member tags) are
    skipped.  -> (field path string, value found)"""
    cur, out = tree, ""
    for p in loc:
        if isinstance(cur, dict) and p in cur:
            cur = cur[p]
            out += ("." if out else "") + str(p)
        elif isinstance(cur, (list, tuple)) and isinstance(p, int) and 0 <= p < len(cur):
            cur = cur[p]
            out += "[]"
        elif isinstance(cur, dict) and isinstance(p, str) and not out.endswith("}") and any(str(k) == p for k in cur):
            cur = [v for k, v in cur.items() if str(k) == p][0]   # dict key that was stringified by JSON
            out += "{}"
    return out, cur


# ---- oracle: round trip ------------------------------------------------------------------------------------------

def check_roundtrip(case, msg) -> list[Violation]:
    cls = type(msg)
    cname, path = cls.__name__, case["path"]
    try:
        d = S.serialize(msg)
    except Exception as ex:
        return [Violation("serialize-raises:%s:%s" % (cname, type(ex).__name__), "serialize(%s) raised %s: %s" % (cname, type(ex).__name__, ex), case)]
    orig_tree = msg.model_dump()
    has_nf = _has_nonfinite(case["fields"])
    try:
        wire = transport(path, d)
    except HarnessError:
        raise
    except NotJudged:
        return []
    except (ValueError, TypeError) as ex:
        # the library's encoder refused the dict produced by serialize(): the message cannot be sent at all
        if has_nf and "JSON compliant" in str(ex):
            return [Violation("nonfinite:%s:encode-raises" % path, "%s with a non-finite float cannot be encoded on path %s: %s" % (cname, path, ex), case)]
        return [Violation("encode-raises:%s:%s:%s" % (cname, path, type(ex).__name__),
                          "transport encoding of serialize(%s) raised %s: %s" % (cname, type(ex).__name__, str(ex)[:200]), case)]
    try:
        back = S.deserialize(wire)
    except ProtocolDeserializationException as ex:
        # locate the offending field with pydantic's own error report
        where, etype, nf = "?", "?", False
        try:
            cls(**wire)
        except ValidationError as ve:
            e0 = ve.errors()[0]
            where, ov = _resolve_loc(orig_tree, e0["loc"])
            etype = e0["type"]
            nf = _is_nf(ov)
        except Exception:
            pass
        if nf:
            return [Violation("nonfinite:%s:rejected" % path, "%s.%s held a non-finite float; the wire form is rejected: %s" % (cname, where, str(ex)[:300]), case)]
        return [Violation("rejected:%s:%s:%s" % (cname, where, etype), "a valid %s is rejected after the %s round trip (%s): %s" % (cname, path, where, str(ex)[:300]), case)]
    except Exception as ex:
        return [Violation("deserialize-raises:%s:%s" % (cname, type(ex).__name__), "deserialize raised %s instead of ProtocolDeserializationException: %s"
                          % (type(ex).__name__, str(ex)[:300]), case)]
    out: list[Violation] = []
    if type(back) is not cls:
        out.append(Violation("type:%s.%s->%s.%s" % (cls.__module__.rsplit(".", 1)[-1], cname, type(back).__module__.rsplit(".", 1)[-1], type(back).__name__),
                             "%s.%s came back as %s.%s" % (cls.__module__, cname, type(back).__module__, type(back).__name__), case))
        return out
    diffs = list(diff(msg, back))
    seen = set()
    for p, detail, nf in diffs:
        if nf:
            sig = "nonfinite:%s:%s" % (path, "became-None" if detail.endswith("->NoneType") else "changed:" + detail)
        else:
            sig = "changed:%s:%s:%s" % (cname, p, detail)
        if sig in seen:
            continue
        seen.add(sig)
        out.append(Violation(sig, "%s.%s differs after the %s round trip (%s): sent %r, received %r"
                             % (cname, p, path, detail, _short(orig_tree, p), _short(back.model_dump(), p)), case))
    if not diffs and not has_nf and back != msg:
        out.append(Violation("changed:%s:unlocated" % cname, "result != original although the dumped trees are equal", case))
    return out


def _short(tree, p: str):
    cur = tree
    for part in [x for x in p.replace("[]", ".[]").split(".") if x]:
        if part == "[]":
            if isinstance(cur, (list, tuple)) and cur:
                cur = cur[0]
            else:
                break
        elif part == "{}":
            break
        elif isinstance(cur, dict) and part in cur:
            cur = cur[part]
        else:
            break
    r = repr(cur)
    return r if len(r) < 160 else r[:157] + "..."


# ---- oracle: malformed envelopes ------------------------------------------------------------------------------------

def _must_reject_reason(env):
    """reason string if the statement demands rejection, None if it is silent."""
    if not isinstance(env, dict):
        return None
    if "_type" not in env and "_ns" not in env:
        return "missing-_type-and-_ns"
    if "_type" not in env:
        return "missing-_type"
    if "_ns" not in env:
        return "missing-_ns"
    ns_name, t = env["_ns"], env["_type"]
    if not isinstance(ns_name, str):
        return "_ns-not-a-string"
    if ns_name not in NS_NAMES:
        return "unknown-namespace"
    if not isinstance(t, str):
        return "_type-not-a-string"
    target = getattr(NAMESPACES[NS_NAMES.index(ns_name)], t, None)
    if target is None:
        return "unknown-type-name"
    if not (inspect.isclass(target) and issubclass(target, M.MessageBase)):
        return "type-name-is-not-a-message-class"
    return None


def _jsonable(x, depth=0) -> bool:
    if depth > 100:
        return False
    if x is None or isinstance(x, (bool, int, str)):
        return not (isinstance(x, str) and _has_surrogate(x))
    if isinstance(x, float):
        return True     # json.loads (the receiving socket) accepts the NaN / Infinity literals too
    if isinstance(x, list):
        return all(_jsonable(v, depth + 1) for v in x)
    if isinstance(x, dict):
        return all(isinstance(k, str) and not _has_surrogate(k) and _jsonable(v, depth + 1) for k, v in x.items())
    return False


def check_malformed(case) -> list[Violation]:
    env = case["env"]
    reason = _must_reject_reason(env)
    kind = reason or ("non-dict-envelope" if not isinstance(env, dict) else "well-addressed")
    try:
        res = S.deserialize(env)
    except ProtocolDeserializationException:
        return []
    except BaseException as ex:  # noqa: B036 -- anything else, including SystemExit & co, is exactly what the property forbids
        if isinstance(ex, (KeyboardInterrupt, MemoryError)):
            raise
        return [Violation("malformed-raises:%s:%s" % (kind, type(ex).__name__),
                          "deserialize raised %s (%s) instead of ProtocolDeserializationException for a %s envelope" % (type(ex).__name__, str(ex)[:200], kind), case)]
    if reason is not None:
        return [Violation("malformed-accepted:%s" % reason, "envelope (%s) was accepted and produced %s.%s"
                          % (reason, type(res).__module__, type(res).__name__), case)]
    if not isinstance(res, M.MessageBase):
        return [Violation("malformed-accepted:result-not-a-message", "deserialize returned %r" % (type(res),), case)]
    return []


def check_case(case) -> list[Violation]:
    if not isinstance(case, dict):
        return []
    if case.get("kind") == "malformed":
        if "env" not in case or not _jsonable(case["env"]):
            return []
        return check_malformed(case)
    msg = build(case)
    if msg is None:
        return []
    return check_roundtrip(case, msg)


# ---- generators -----------------------------------------------------------------------------------------------------

def _weighted_classes():
    out = []
    for c in message_classes():
        has_nested = any(_annotation_has_model(f.annotation) for f in c.model_fields.values())
        out.extend([c] * (4 if has_nested else (2 if len(c.model_fields) >= 4 else 1)))
    return out


def _annotation_has_model(tp) -> bool:
    if inspect.isclass(tp) and issubclass(tp, BaseModel):
        return True
    return any(_annotation_has_model(a) for a in typing.get_args(tp))


@st.composite
def roundtrip_cases(draw, classes):
    cls = draw(st.sampled_from(classes))
    nonfinite = draw(st.integers(0, 4)) == 0
    fields = draw(class_strategy(cls, nonfinite))
    path = draw(st.sampled_from(_paths_for(cls)))
    return {"kind": "roundtrip", "ns": cls.__module__, "cls": cls.__name__, "path": path, "fields": fields}


_JSON_LEAF = st.one_of(st.none(), st.booleans(), st.integers(-5, 5), st.sampled_from([0.5, 1e300]), st.sampled_from(["", "x", "1", "PingMsg"]),
                       st.text(max_size=5))
_JSON_ANY = st.recursive(_JSON_LEAF, lambda ch: st.one_of(st.lists(ch, max_size=3), st.dictionaries(st.text(max_size=4), ch, max_size=3)), max_leaves=6)


def _ns_attr_names():
    """per namespace: attribute names that are NOT message classes (imports, functions, aliases of unions, dunders)."""
    out = {}
    for ns in NAMESPACES:
        out[ns.__name__] = sorted(n for n in dir(ns)
                                  if not (inspect.isclass(getattr(ns, n)) and issubclass(getattr(ns, n), M.MessageBase)))
    return out


@st.composite
def malformed_cases(draw, classes, attr_names):
    cls = draw(st.sampled_from(classes))
    fields = draw(class_strategy(cls, False))
    msg = cls(**decode(fields))
    env = transport("rpc_request", S.serialize(msg))
    mut = draw(st.sampled_from(["drop-_type", "drop-_ns", "drop-both", "ns-unknown", "ns-unknown", "type-unknown", "type-unknown",
                                "type-attr", "type-attr", "type-attr", "type-nonmessage-model", "type-other-ns", "ns-wrong-json-type",
                                "type-wrong-json-type", "field-wrong-type", "field-dropped", "non-dict", "extra-field"]))
    field_keys = sorted(k for k in env if not k.startswith("_"))
    if mut in ("field-wrong-type", "field-dropped") and not field_keys:
        mut = "extra-field"
    if mut == "type-nonmessage-model":
        # a pydantic model that is reachable in a protocol namespace but is not a message (e.g. an imported payload model),
        # with a field tree that model accepts: only the "is it a message" check can reject it
        cands = []
        for nsn in NS_NAMES:
            ns = NAMESPACES[NS_NAMES.index(nsn)]
            for n in attr_names[nsn]:
                c = getattr(ns, n)
                if inspect.isclass(c) and issubclass(c, BaseModel) and c is not BaseModel:
                    cands.append((nsn, n))
        if not cands:
            mut = "type-attr"
        else:
            nsn, n = draw(st.sampled_from(cands))
            model = getattr(NAMESPACES[NS_NAMES.index(nsn)], n)
            inst = model(**decode(draw(class_strategy(model, False))))
            env = json.loads(inst.model_dump_json())
            env["_type"], env["_ns"] = n, nsn
    if mut == "type-nonmessage-model":
        pass
    elif mut == "drop-_type":
        del env["_type"]
    elif mut == "drop-_ns":
        del env["_ns"]
    elif mut == "drop-both":
        del env["_type"], env["_ns"]
    elif mut == "ns-unknown":
        env["_ns"] = draw(st.one_of(st.sampled_from(["openpectus.protocol.models", "openpectus.protocol", "openpectus.aggregator.models", "os", "builtins", "",
                                                      env["_ns"].upper(), env["_ns"] + " ", env["_ns"].rsplit(".", 1)[-1], "EM", "AM", "M"]), st.text(max_size=8)))
    elif mut == "type-unknown":
        env["_type"] = draw(st.one_of(st.sampled_from(["", cls.__name__.lower(), cls.__name__ + " ", "Msg." + cls.__name__, cls.__name__ + "X", "object", "dict"]),
                                      st.text(max_size=8)))
    elif mut == "type-attr":
        names = attr_names[env["_ns"]]
        plain = [n for n in names if not n.startswith("__")]
        env["_type"] = draw(st.one_of(st.sampled_from(plain), st.sampled_from(names)))
    elif mut == "type-other-ns":
        other = draw(st.sampled_from(classes))
        env["_type"] = other.__name__
        env["_ns"] = draw(st.sampled_from(NS_NAMES))
    elif mut == "ns-wrong-json-type":
        env["_ns"] = draw(_JSON_ANY.filter(lambda x: not isinstance(x, str)))
    elif mut == "type-wrong-json-type":
        env["_type"] = draw(_JSON_ANY.filter(lambda x: not isinstance(x, str)))
    elif mut == "field-wrong-type":
        env[draw(st.sampled_from(field_keys))] = draw(_JSON_ANY)
    elif mut == "field-dropped":
        del env[draw(st.sampled_from(field_keys))]
    elif mut == "non-dict":
        env = draw(st.one_of(st.none(), st.integers(-2, 2), st.text(max_size=5), st.lists(_JSON_ANY, max_size=2), st.just([env]), st.booleans(),
                             st.just(json.dumps(env))))
    elif mut == "extra-field":
        env[draw(st.sampled_from(["__class__", "model_config", "_x", "self", "cls"]))] = draw(_JSON_ANY)
    env = json.loads(json.dumps(env))   # exactly what a JSON receiver can see
    return {"kind": "malformed", "mut": mut, "env": env}


def run_shard(col, cfg):
    classes = _weighted_classes()
    plain = message_classes()
    attr_names = _ns_attr_names()
    col.extra["message_classes_discovered"] = len(plain) if col.shard == 0 else 0
    if col.shard == 0:
        col.extra["message_class_names"] = ["%s.%s" % (c.__module__.rsplit(".", 1)[-1], c.__name__) for c in plain]

    def body_rt(case):
        msg = build(case)
        if msg is None:
            raise HarnessError("generator produced a message the class rejects: %r" % (case,))
        json.dumps(case)   # cases must be JSON-serialisable for replay
        vs = check_roundtrip(case, msg)
        nested, nondefault = _nested_and_nondefault(msg)
        nf = _has_nonfinite(case["fields"])
        cl = ["roundtrip", "cls:" + case["ns"].rsplit(".", 1)[-1] + "." + case["cls"], "path:" + case["path"],
              "nonfinite-floats" if nf else "finite"]
        if nested:
            cl.append("has-nested-model-instance")
        if nondefault:
            cl.append("has-non-default-field")
        if '"$map"' in json.dumps(case["fields"]):
            cl.append("has-dict-field")
        col.record(case, nested and nondefault, classes=cl, violations=vs)

    def body_mf(case):
        vs = check_malformed(case)
        reason = _must_reject_reason(case["env"])
        col.record(case, reason is not None, classes=["malformed", "mut:" + case["mut"], "must-reject:" + reason if reason else "statement-silent"], violations=vs)

    seed = shard_seed(col.seed, col.shard)
    n = cfg["examples"]
    hyp_run(roundtrip_cases(classes), body_rt, int(n * 0.7), seed, col)
    hyp_run(malformed_cases(plain, attr_names), body_mf, n - int(n * 0.7), seed + 500, col)
    if cfg.get("fuzz_s") and col.shard == 0:
        _run_fuzz(col, cfg["fuzz_s"])


# ---- optional atheris stage (thorough tier, shard 0 only) ---------------------------------------------------------------

def _run_fuzz(col, seconds: int):
    """coverage-guided stage: atheris in a subprocess on /verif/fuzz/fuzz_c26.py (collect mode, same oracle).  Fuzz-found
    cases are re-judged here with check_case and kept out of `evaluations` (which must not depend on fuzzer speed)."""
    import os
    import shutil
    import subprocess
    import sys
    import tempfile
    import time
    from vp.core.framework import REPO, VERIF
    target = os.path.join(VERIF, "fuzz", "fuzz_c26.py")
    deps = os.path.join(VERIF, ".deps")
    if not os.path.isdir(os.path.join(deps, "atheris")) and os.path.isdir("/verif/.deps/atheris"):
        deps = "/verif/.deps"      # snapshot runs (vp run) share the installed copy
    if not (os.path.exists(target) and os.path.isdir(os.path.join(deps, "atheris"))):
        col.extra["fuzz"] = "skipped: atheris or fuzz target not installed"
        return
    cap = int(min(float(seconds), col.deadline - time.monotonic()))
    if cap < 10:
        col.extra["fuzz"] = "skipped: no budget left"
        return
    tmp = tempfile.mkdtemp(prefix="c26fuzz")
    try:
        corpus, outdir, art = os.path.join(tmp, "corpus"), os.path.join(tmp, "out"), os.path.join(tmp, "artifacts")
        for d in (corpus, outdir, art):
            os.makedirs(d)
        env = dict(os.environ)
        env["PYTHONPATH"] = os.pathsep.join([REPO, VERIF, deps])
        env["PYTHONHASHSEED"] = "0"
        env["C26_FUZZ_OUT"] = outdir
        env.pop("C26_FUZZ_RAISE", None)
        cmd = [sys.executable, target, "-max_total_time=%d" % cap, "-seed=%d" % (col.seed + 1), "-artifact_prefix=" + art + os.sep,
               "-max_len=2048", "-timeout=60", "-print_final_stats=0", "-dict=" + os.path.join(VERIF, "fuzz", "c26.dict"), corpus]
        seeds = os.path.join(VERIF, "fuzz", "corpus_c26")
        if os.path.isdir(seeds):
            cmd.append(seeds)
        proc = subprocess.run(cmd, env=env, cwd=tmp, stdout=subprocess.DEVNULL, stderr=subprocess.PIPE, text=True, errors="replace")
        stats_p = os.path.join(outdir, "stats.json")
        if not os.path.exists(stats_p):
            raise HarnessError("atheris stage produced no stats (rc=%s): %s" % (proc.returncode, proc.stderr[-2000:]))
        with open(stats_p) as f:
            stats = json.load(f)
        col.extra["fuzz_seconds"] = cap
        for k, v in stats.items():
            col.extra["fuzz_" + k] = v

        def add(case, label):
            vs = check_case(case) if case is not None else []
            col.count("fuzz:" + label)
            for v in vs:
                col.viol_counts[v.sig] += 1
                lst = col.violations.setdefault(v.sig, [])
                if len(lst) < col.MAX_VIOL_PER_SIG:
                    lst.append(v.to_json())
            return vs

        for fn in sorted(os.listdir(outdir)):
            if fn.startswith("viol-") and fn.endswith(".json"):
                with open(os.path.join(outdir, fn)) as f:
                    add(json.load(f), "collected-violation")
        sys.path.insert(0, os.path.dirname(target))
        try:
            import fuzz_c26
        finally:
            sys.path.pop(0)
        for fn in sorted(os.listdir(art)):
            with open(os.path.join(art, fn), "rb") as f:
                case = fuzz_c26.bytes_to_case(f.read())
            vs = add(case, "artifact:" + fn.split("-")[0])
            if not vs:
                v = Violation("fuzz:%s" % fn.split("-")[0], "libFuzzer left the artifact %s (crash/timeout/oom of the target) that check_case does not reproduce: %s"
                              % (fn, proc.stderr[-600:]), case)
                col.viol_counts[v.sig] += 1
                col.violations.setdefault(v.sig, []).append(v.to_json())
    finally:
        shutil.rmtree(tmp, ignore_errors=True)


def shrink_hints(case):
    if case.get("kind") == "roundtrip":
        f = case["fields"]
        for k in list(f):
            c = dict(case)
            c["fields"] = {kk: v for kk, v in f.items() if kk != k}
            yield c
    elif case.get("kind") == "malformed" and isinstance(case.get("env"), dict):
        e = case["env"]
        for k in list(e):
            yield dict(case, env={kk: v for kk, v in e.items() if kk != k})
