"""C08 — outputs with a safe value are safe whenever no run is progressing.

Domain : generated output-driving methods (Set/Slow/OvA/OvB/Flow, waits, timed Pause/Hold, blocks) x control
         schedules (user Start/Stop/Pause/Unpause/Hold/Unhold/Restart, user output commands Open1/Open2 and the multi-tick Keep1/Keep2) x
         non-safe initial hardware content.
Observed only at the recording hardware: register memory after every tick and every physical write.
Oracle (history invariants, one signature per phase):
  unsafe:before-first-run   memory == safe value from engine.run() until the first Start executes
  unsafe:after-stop         memory == safe value at the end of every tick that ends Stopped after a run
                            (the one-tick Stopped phase inside a Restart is not judged)
  unsafe:paused:<source>    memory == safe value at the end of every tick that begins and ends Paused, unless the user
                            commanded that output during this pause; <source> = error-pause | command-running | other
  write-while-stopped       while no run is active every physical write to such a register carries the safe value
"""
from __future__ import annotations

from vp.core.framework import Violation, hyp_run, shard_seed
from vp.harness import ctrl_scen as S

ID = "C08"
LEVEL = "exploration"
ENGINE = "engine_harness"
TECHNIQUE = "Hypothesis-generated methods x control schedules; phase invariants on the recorded hardware write boundary"
RULE = ("Hypothesis draws an output-driving method, a control schedule (4-14 phases of 0-2 user requests + 1-6 ticks) and a "
        "non-safe initial hardware content. Non-trivial = a non-safe value was on the hardware at some tick AND the run was "
        "paused or stopped afterwards. Distinct = distinct (method, schedule, initial content).")
ASSUMPTIONS = [
    "the pause is judged from the tick after the one in which Pause executed (the tick that begins Paused)",
    "the Stopped tick in the middle of a Restart is not a Stop: the statement lists engine start, Stop and Pause only",
    "user output commands are the argument-less UOD commands Open1/Open2 (one tick) and Keep1/Keep2 (write in each of 4/3 ticks) issued through execute_control_command_from_user",
]
TIERS = {"quick": {"examples": 6400, "budget_s": 100}, "thorough": {"examples": 50000, "budget_s": 1500}}
KNOWN_EXCLUDED = {}


def oracle(case, recs) -> tuple[list[Violation], dict]:
    from vp.harness.engine_h import OUT_SAFE
    out: list[Violation] = []
    info = {"nonsafe_seen": False, "paused_ticks": 0, "stopped_after_run": 0, "exempt_used": 0, "error_pause": 0}

    def viol(sig, msg):
        if not any(v.sig == sig for v in out):
            out.append(Violation(sig, msg, case))

    first_run_started = False
    exempt: set = set()
    cmd_set_in_pause: set = set()
    for r in recs:
        started_now = any(e[1] == "start" for e in r.events)
        for reg, safe in OUT_SAFE.items():
            if r.mem.get(reg) != safe and r.no >= 0 and first_run_started:
                info["nonsafe_seen"] = True
        if not first_run_started:
            if started_now:
                first_run_started = True
            else:
                for reg, safe in OUT_SAFE.items():
                    if r.mem.get(reg) != safe:
                        viol("unsafe:before-first-run", "tick %d (no run started yet): hardware %s=%r, safe value is %r"
                             % (r.no, reg, r.mem.get(reg), safe))
        # (d) writes while no run is active
        if r.prev_state == "Stopped" and r.state == "Stopped" and not r.restart_in_progress and not started_now:
            for e in r.events:
                if e[1] == "hw_write" and e[2] in OUT_SAFE and e[3] != OUT_SAFE[e[2]]:
                    viol("write-while-stopped", "tick %d: no run active but %s was written with %r" % (r.no, e[2], e[3]))
        # (b) after stop
        if first_run_started and r.state == "Stopped" and not r.restart_in_progress and r.no >= 0 and not started_now:
            info["stopped_after_run"] += 1
            for reg, safe in OUT_SAFE.items():
                if r.mem.get(reg) != safe:
                    viol("unsafe:after-stop", "tick %d: state Stopped but hardware %s=%r, safe value is %r" % (r.no, reg, r.mem.get(reg), safe))
        # (c) pause
        if r.state == "Paused" and r.prev_state == "Paused":
            info["paused_ticks"] += 1
            for op in r.user_ops:
                if op in ("Open1", "Keep1"):
                    exempt.add("Out1")
                elif op in ("Open2", "Keep2"):
                    exempt.add("Out2")
            for e in r.events:
                if e[1] == "out_set" and e[4] not in ("Open1", "Open2"):
                    cmd_set_in_pause.add(e[2])
            if r.status == "Error":
                info["error_pause"] += 1
            for reg, safe in OUT_SAFE.items():
                if reg in exempt:
                    info["exempt_used"] += 1
                    continue
                if r.mem.get(reg) != safe:
                    # mechanism first: a register a UOD command wrote during this pause is 'command-running' whatever the
                    # (sticky) Method Status says; 'error-pause' is an error pause in which no command touched the register
                    src = "command-running" if reg in cmd_set_in_pause else ("error-pause" if r.status == "Error" else "other")
                    viol("unsafe:paused:%s" % src, "tick %d: Paused but hardware %s=%r, safe value is %r (method status %s)"
                         % (r.no, reg, r.mem.get(reg), safe, r.status))
        elif r.state != "Paused":
            exempt = set()
            cmd_set_in_pause = set()
        else:
            # tick in which the pause began: commands of this tick may already count as 'during the pause'
            for op in r.user_ops:
                if op in ("Open1", "Open2", "Keep1", "Keep2"):
                    exempt.add("Out1" if op.endswith("1") else "Out2")
            for e in r.events:
                if e[1] == "out_set" and e[4] not in ("Open1", "Open2"):
                    cmd_set_in_pause.add(e[2])
        if r.raised is not None:
            viol("tick-raised:%s" % type(r.raised).__name__, repr(r.raised))
    return out, info


def check_case(case):
    if not S.valid(case):
        return []
    recs, _ = S.run(case)
    return oracle(case, recs)[0]


def run_shard(col, cfg):
    def body(case):
        recs, rinfo = S.run(case)
        vs, info = oracle(case, recs)
        nontrivial = info["nonsafe_seen"] and (info["paused_ticks"] > 0 or info["stopped_after_run"] > 0)
        classes = [k for k in ("paused_ticks", "stopped_after_run", "exempt_used", "error_pause", "nonsafe_seen") if info[k]]
        if case["hw_init"].get("Out1", 0.0) != 0.0 or case["hw_init"].get("Out2", 1.0) != 1.0:
            classes.append("nonsafe-initial-hw")
        col.record(case, nontrivial, classes=classes, violations=vs,
                   sample={"method": rinfo["lines"], "steps": case["steps"][:30], "hw_init": case["hw_init"]})
    hyp_run(S.cases(with_boom=True, templates=True, faults=True), body, max(1, cfg["examples"] // col.nshards), shard_seed(col.seed, col.shard), col)
