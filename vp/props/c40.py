"""C40 - requests from the aggregator apply atomically between ticks.

Harness : the real Engine (EngineHarness, virtual clock) + the real EngineMessageHandlers coroutines.  One *step* is
          "advance the clock, then run { engine.tick } concurrently with { one or two requests }".  The concurrent step
          runs in two real threads under the baton scheduler of vp/harness/sched.py: pre-emption points are the `line`
          events of openpectus/* frames, the schedule is a list of indices into that event stream, engine._lock and every
          other lock the code under test creates (Lock / RLock / threading are replaced in all openpectus modules) is a baton
          lock (a blocked acquire hands the baton back; lock cycles are reported as deadlock).  No wait is unbounded: a step
          that does not end within 60 s of real time, or a scenario within its limit, is abandoned (SchedulerHang), counted,
          and ends the shard as a harness error unless the shard has established violations.
Domain  : engine state reached by a generated prefix (method, input trajectory, Start, 0..N ticks, optional earlier
          requests)  x  1-2 requests (method edit, code injection, control command, cancel, force)  x  0-4 switch points
          (quick: sampled, stratified by tick phase; thorough: additionally ALL single-switch positions of the tick).
Oracle  : linearisability by differential.  The same scenario is executed serially (single thread, no tracing) in every
          order the requests can take around the tick (r1 r2 T | r1 T r2 | T r1 r2).  The interleaved execution must
          agree with ONE of them in everything observed: the handlers' responses, an exception escaping tick, the
          effect log of the step (Mark assignments, command callbacks, output sets, hardware writes, listener events),
          and, after the step and after each of N further ticks, all tag values, System State / Method Status, method
          state, method text + version, run-log items, pending/executing commands, interrupts and the consistency of the
          interpreter / tracking / command-manager references.  "Lost" = the outcome equals the scenario run WITHOUT the
          request while every serial order differs from it.  Ids generated after the prefix (uuid4) are compared up to
          renaming.
"""
from __future__ import annotations

import json
import os
import re
import time as _real_time
import types

from hypothesis import strategies as st

from vp.core.framework import Violation, case_hash, hyp_run, shard_seed
from vp.harness import pcode_gen as G
# imported here (not lazily) so that the parent process pays for the heavy imports (pint, pydantic/fastapi through sentry_sdk)
# once and the forked shard workers inherit them
from vp.harness import engine_h as H
from vp.harness.sched import Baton, BatonLock, SchedulerHang, patch_lock_factories, run_bounded
import openpectus
import openpectus.protocol.aggregator_messages as AM
import openpectus.protocol.models as Mdl
from openpectus.engine.engine import Engine
from openpectus.engine.engine_message_handlers import EngineMessageHandlers
import openpectus.lang.exec.events as _events_mod
import openpectus.lang.exec.uod as _uod_mod


class _NoStopwatch(types.ModuleType):
    """`time` as seen by openpectus.lang.exec.events / uod: these modules time every event handler / command callback with
    perf_counter and execute two more lines ("... is slow" warning, once) when the real duration exceeds 10 / 100 ms.  Real
    durations (machine load, or a pre-emption inside a handler) must not change the number of line events, or switch
    positions would not be reproducible.  perf_counter is frozen; everything else is the real module."""

    def __init__(self):
        super().__init__("time")

    def perf_counter(self):
        return 0.0

    def __getattr__(self, name):
        return getattr(_real_time, name)


_events_mod.time = _uod_mod.time = _NoStopwatch()
# every lock the code under test creates from now on (engine._lock, and any lock a change adds to a collaborator) is a
# baton lock: a real lock held by the parked thread would block the running thread for good
patch_lock_factories("openpectus")

ID = "C40"
LEVEL = "exploration"
ENGINE = "async_harness"
TECHNIQUE = ("deterministic two-thread baton scheduler (sys.settrace line events as pre-emption points, wrapped engine lock); "
             "linearisability by differential against all serial orders of the same step")
RULE = ("Hypothesis draws a scenario = (method with slow commands, waits, thresholds, watches/alarms, blocks; input "
        "trajectory; Start + 0..N prefix ticks with optional earlier requests; 1-2 requests of kind method edit / inject / "
        "control command / cancel / force, payload resolved against the prefix state - a cancel/force asking for an eligible run-log "
        "item extends the prefix by up to 12 ticks until one exists; N post ticks). A quarter of the scenarios are of the family "
        "'acceptance depends on the order': a state-dependent control command racing with a tick that changes the run state "
        "(completing tick of a Stop/Restart issued one tick earlier, or a second control command in the same step); half of "
        "the earlier requests are issued right before the last prefix tick. An eighth of the scenarios are of the family 'request "
        "changes several outputs on the request thread': Set1, Set2, Pause at the head of the method and a cancel of the running "
        "Pause from the run log (restores all pre-pause outputs at once); the hardware image written in every tick is part of "
        "the compared effect log, so an image mixing safe and restored values matches no serial order. Tick phases are labelled by the callee the ticking "
        "thread has entered (read_process_image, Tracking.tick, PInterpreter.tick, update_calculated_tags, CommandManager.tick, "
        "notify_tag_updates, write_process_image) and by ownership of engine._lock, not by the source text of Engine.tick; the "
        "code of tick before the lock is taken (phases pre, read) is a pre-emption region like the rest. Per scenario the tick "
        "is profiled once (event count and phase of every pre-emption point) and schedules of 0-4 switch positions are "
        "derived from drawn numbers (first switch stratified over the distinct source locations of the tick, over its phases, "
        "over the phase boundaries, or uniform); the thorough tier additionally enumerates every single-switch position of "
        "the tick (for ticks above 1500 events: the first and last occurrence of every source location). One evaluation = one (scenario, schedule). Non-trivial = the "
        "request thread was given the baton while the ticking thread was inside the locked execute phase of Engine.tick "
        "(it either ran request code there or blocked on engine._lock) AND the serial orders are observably different "
        "(the request matters for this state). Distinct = distinct (scenario, schedule) hashes.")
ASSUMPTIONS = [
    "pre-emption is possible at every source-line boundary of openpectus/* code in both threads (CPython switches threads "
    "between bytecodes; ticks perform hardware and logging I/O that release the GIL); races inside a single line or inside C "
    "code are out of reach",
    "in production the tick runs on the OneThreadTimer thread (Engine.run -> timer.start) and the handlers of "
    "EngineMessageHandlers run on the asyncio thread of the websocket RPC channel; the handlers contain no await, so a "
    "request is one uninterrupted call chain on that thread and two requests are handled one after the other",
    "'as if applied entirely between two ticks' is read as: the interleaved step is indistinguishable, in everything the "
    "harness observes during the step and the following N ticks, from one of the serial orders of the same requests and tick",
    "wall-clock reads during the step return the tick time in all orders (the request arrives 'at' the tick)",
    "a response/exception only counts as a rejection if some serial order produces the same response",
]
TIERS = {
    "quick": {"scenarios": 1280, "per_scenario": 20, "exhaustive_every": 0, "budget_s": 75, "shrink_s": 12, "shrink_total_s": 150,
              "max_top": 6, "max_depth": 2, "max_pre": 16, "post": [5, 9]},
    "thorough": {"scenarios": 2400, "per_scenario": 24, "exhaustive_every": 3, "exhaustive_max_events": 1500, "budget_s": 840,
                 "max_top": 10, "max_depth": 3, "max_pre": 30, "post": [6, 14], "shrink_s": 120},
}
NSHARDS = 16

CONTROL = ["Pause", "Unpause", "Hold", "Unhold", "Stop", "Restart", "Start"]
USER_UOD = ["Open1", "Open2"]
INJECT = ["Mark: j1", "Quick: j2", "Slow: 2.901", "Slow: 3.902", "Set1: 5.903", "Flow: 3.904 L/h", "Wait: 0.2s\nMark: j5",
          "Pause", "Pause: 0.2s", "Hold: 0.2s", "OvA: 2.906", "OvB: 2.907", "Info: j8", "Increment run counter",
          "Watch: In1 > 1 L/h\n    Mark: j9", "Stop", "Open1", "Bad", "Foo: 1", "Mark j10 no colon :::"]
EDIT_TEXT = ["Mark: e%d", "Quick: e%d", "Slow: 2.%03d", "Wait: 0.2s", "Set2: 4.%03d", "Pause: 0.2s", "# e%d", "", "Info: e%d",
             "0.3 Mark: e%d", "OvA: 2.%03d"]
CASE_LIMIT_S = 300       # real-time bound of one replayed case (serial orders + interleaved step); exceeded = SchedulerHang
MAX_HANGS = 3            # a shard gives up after this many schedules / scenarios that could not be realised
MAX_EXTRA = 12      # a cancel/force request for an eligible item may extend the prefix by up to this many ticks
UUID_RE = re.compile(r"[0-9a-f]{8}-[0-9a-f]{4}-[0-9a-f]{4}-[0-9a-f]{4}-[0-9a-f]{12}")


# ---------------------------------------------------------------------------------------------------------------------
# generation
# ---------------------------------------------------------------------------------------------------------------------

def _gencfg(cfg) -> G.GenCfg:
    return G.GenCfg(kinds={"mark": 4, "quick": 2, "slow": 5, "ova": 1, "ovb": 1, "set": 1, "wait": 4, "block": 2, "watch": 2,
                           "alarm": 1, "pause": 1, "hold": 1, "blank": 1, "comment": 1, "info": 1, "stop": 1, "restart": 1},
                    max_depth=cfg["max_depth"], max_top=cfg["max_top"], max_children=3, thresholds=True, base_first="s")


@st.composite
def request(draw):
    k = draw(st.sampled_from(["control"] * 3 + ["inject"] * 3 + ["method"] * 3 + ["cancel"] * 3 + ["force"] * 2))
    if k == "control":
        return {"k": k, "name": draw(st.sampled_from(CONTROL * 3 + USER_UOD))}
    if k == "inject":
        return {"k": k, "code": draw(st.sampled_from(INJECT))}
    if k == "method":
        ops = []
        for _ in range(draw(st.integers(1, 3))):
            op = draw(st.sampled_from(["append", "append", "insert", "insert", "delete", "replace"]))
            if op == "append":
                ops.append([op, draw(st.integers(0, len(EDIT_TEXT) - 1))])
            elif op == "delete":
                ops.append([op, draw(st.integers(0, 40))])
            else:
                ops.append([op, draw(st.integers(0, 40)), draw(st.integers(0, len(EDIT_TEXT) - 1))])
        return {"k": k, "ops": ops}
    pref = draw(st.sampled_from(["eligible"] * 6 + ["any", "any", "bogus"]))
    return {"k": k, "pick": draw(st.integers(0, 30)), "pref": pref}


@st.composite
def scenarios(draw, cfg):
    tree = draw(G.program(_gencfg(cfg)))
    pre = draw(st.integers(0, cfg["max_pre"]))
    post = draw(st.integers(cfg["post"][0], cfg["post"][1]))
    traj = draw(G.trajectory(pre + 1 + post, max_changes=4))
    pre_ops = []
    if pre > 0 and draw(st.integers(0, 1)) == 0:
        for _ in range(draw(st.integers(1, 2))):
            r = draw(st.one_of(request(), st.sampled_from(["Pause", "Hold", "Pause", "Hold", "Stop"]).map(lambda n: {"k": "control", "name": n})))
            if r["k"] != "method":
                # half of the earlier requests are issued right before the last prefix tick, so that a two-tick command (Stop,
                # Restart) or a queued Pause/Hold changes the run state in the very tick the request under test races with
                at = pre - 1 if draw(st.integers(0, 1)) == 0 else draw(st.integers(0, pre - 1))
                pre_ops.append([at, r])
        pre_ops.sort(key=lambda x: x[0])
    reqs = [draw(request())]
    if draw(st.integers(0, 9)) < 3:
        reqs.append(draw(request()))
    # family "validity flips across the tick" (a quarter of the scenarios): a control command whose acceptance depends on
    # the run state, racing with a tick that changes the run state - either the completing tick of a Stop/Restart issued one
    # tick earlier, or a second control command handled in the same step
    flip = draw(st.integers(0, 3)) == 0
    if flip:
        names = ["Pause", "Hold", "Stop", "Restart", "Start", "Unpause", "Unhold"]
        reqs = [{"k": "control", "name": draw(st.sampled_from(names))}]
        how = draw(st.integers(0, 2))
        if how == 0 and pre > 0:
            pre_ops = [p for p in pre_ops if p[0] < pre - 1] + [[pre - 1, {"k": "control", "name": draw(st.sampled_from(["Stop", "Stop", "Restart"]))}]]
        elif how == 1:
            reqs.insert(0, {"k": "control", "name": draw(st.sampled_from(names))})
        else:
            pre_ops = [p for p in pre_ops if p[0] < max(0, pre - 2)]
            if pre > 1:
                pre_ops.append([pre - 2, {"k": "control", "name": draw(st.sampled_from(["Pause", "Hold"]))}])
            reqs.insert(0, {"k": "control", "name": draw(st.sampled_from(["Unpause", "Unhold", "Stop", "Restart"]))})
    # family "request changes several outputs on the request thread" (an eighth of the scenarios): the method drives two
    # output registers away from their safe values and pauses (outputs safe); the request cancels the running Pause from the
    # run log, which restores all pre-pause outputs at once on the request thread.  A written hardware image that mixes safe
    # and restored values belongs to no serial order (the images written per tick are part of the effect log)
    if not flip and draw(st.integers(0, 7)) == 0:
        head = [{"k": "set", "t": None, "reg": 1, "v": draw(st.integers(2, 9))}, {"k": "set", "t": None, "reg": 2, "v": draw(st.integers(2, 9))},
                {"k": "pause", "t": None, "d": draw(st.sampled_from([1.0, 2.0, 3.0]))}]
        tree = dict(tree, body=head + tree["body"])
        pre = draw(st.integers(9, 17))
        pre_ops = []
        reqs = [{"k": "cancel", "pick": 0, "pref": "eligible"}] + reqs[1:]
    scen = {"tree": tree, "traj": traj, "pre": pre, "pre_ops": pre_ops, "reqs": reqs, "post": post}
    # numbers from which the schedules are derived once the step has been profiled
    picks = draw(st.lists(st.tuples(st.integers(0, 4), st.integers(0, 99), st.integers(0, 9999), st.integers(0, 9999),
                                    st.integers(0, 9999), st.integers(0, 9999)), min_size=cfg["per_scenario"], max_size=cfg["per_scenario"]))
    return scen, picks


# ---------------------------------------------------------------------------------------------------------------------
# phases of Engine.tick, labelled by the callee the ticking thread has entered (not by the source text of tick, so that
# a refactoring of tick - locals instead of self.x, reordered or extracted statements - leaves the labels intact)
# ---------------------------------------------------------------------------------------------------------------------

def _phase_codes() -> dict:
    from openpectus.engine.command_manager import CommandManager
    from openpectus.lang.exec.pinterpreter import PInterpreter
    from openpectus.lang.exec.tracking import Tracking
    out = {}
    for cls, name, label in [(Engine, "read_process_image", "read"), (Tracking, "tick", "tracking"),
                             (PInterpreter, "tick", "interpreter"), (Engine, "update_calculated_tags", "calc-tags"),
                             (CommandManager, "tick", "commands"), (Engine, "notify_tag_updates", "notify"),
                             (Engine, "write_process_image", "write")]:
        code = getattr(getattr(cls, name, None), "__code__", None)
        if code is not None:       # a renamed callee only loses its label (counted in the classes), never the run
            out[code] = label
    return out


_PHASE_CODES = _phase_codes()
UNLOCKED_PHASES = ("pre", "read")
LOCKED_PHASES = {"lock-held", "tracking", "interpreter", "calc-tags", "commands", "notify", "write"}


class _PhaseTracker:
    """phase of the tick = the latest of the phase callees the ticking thread has entered ("pre" before the first one);
    "lock-held" between taking the lock and the first locked callee; "<phase>(unlocked)" when a callee that belongs to the
    locked section runs while the ticking thread does not own engine._lock."""

    def __init__(self, lock):
        self.lock = lock
        self.phase = "pre"

    def on_call(self, frame):
        p = _PHASE_CODES.get(frame.f_code)
        if p is not None:
            self.phase = p

    def label(self, frame=None):
        p = self.phase
        owns = self.lock.owner == "T"
        if p in UNLOCKED_PHASES:
            return "lock-held" if owns else p
        return p if owns else p + "(unlocked)"


# ---------------------------------------------------------------------------------------------------------------------
# one execution of a scenario
# ---------------------------------------------------------------------------------------------------------------------

class _Dispatcher:
    def __init__(self):
        self.handlers = {}

    def set_rpc_handler(self, message_type, handler):
        self.handlers[message_type] = handler


def _jsonable(v):
    if v is None or isinstance(v, (bool, int, str)):
        return v
    if isinstance(v, float):
        return "nan" if v != v else v
    return str(v)


class _EvList(list):
    """the harness event log, remembering which side (tick 'T' / request 'R') appended each entry"""

    def __init__(self, *a):
        super().__init__(*a)
        self.who: list = [None] * len(self)
        self.role = lambda: "main"

    def append(self, x):
        list.append(self, x)
        self.who.append(self.role())


class Exec:
    """the scenario's engine after its prefix; then exactly one step (serial order or schedule) and the post ticks"""

    def __init__(self, scen):
        self.H = H
        self.scen = scen
        H._uuid_counter[0] = 0
        self.lines = G.render(scen["tree"])
        self.h = H.EngineHarness(G.as_method_lines(self.lines))
        self.h.events = _EvList(self.h.events)
        patch_lock_factories("openpectus")     # modules imported since (cheap when nothing was imported)
        self.lock = BatonLock()
        self.h.engine._lock = self.lock
        self.disp = _Dispatcher()
        self.handlers = EngineMessageHandlers(self.h.engine, self.disp)
        self.prefix_problem = None
        self.msgs = []

    # -- requests through the real handler coroutines ---------------------------------------------------------------
    def send(self, msg):
        coro = self.disp.handlers[type(msg)](msg)
        try:
            coro.send(None)
        except StopIteration as si:
            r = si.value
            return [type(r).__name__, getattr(r, "message", None), getattr(r, "exception_message", None),
                    getattr(r, "caller_error", None)]
        raise RuntimeError("C40 harness: a handler of EngineMessageHandlers awaited; the single-call model is wrong")

    def build_msg(self, req):
        e = self.h.engine
        k = req["k"]
        if k == "control":
            return AM.ExecuteControlCommandMsg(name=req["name"])
        if k == "inject":
            return AM.InjectCodeMsg(pcode=req["code"])
        if k == "method":
            cur = [[l.id, l.content] for l in e.method_manager._method.lines]
            n_new = 0
            for op in req["ops"]:
                n_new += 1
                if op[0] == "append":
                    cur.append(["e%d" % n_new, _edit_text(op[1], n_new, "")])
                elif not cur:
                    continue
                elif op[0] == "delete":
                    del cur[op[1] % len(cur)]
                else:
                    i = op[1] % len(cur)
                    indent = cur[i][1][: len(cur[i][1]) - len(cur[i][1].lstrip(" "))]
                    if op[0] == "insert":
                        cur.insert(i, ["e%d" % n_new, _edit_text(op[2], n_new, indent)])
                    else:
                        cur[i] = [cur[i][0], _edit_text(op[2], n_new, indent)]
            return AM.MethodMsg(method=Mdl.Method(lines=[Mdl.MethodLine(id=i, content=c) for i, c in cur],
                                                  version=e.method_manager._method.version + 1))
        elig = self._eligible_items(k)     # (sets prefix_problem when the run log of the prefix state cannot be produced)
        items = [] if self.prefix_problem else self._runlog_items()
        pool = elig if (req["pref"] == "eligible" and elig) else items
        if req["pref"] == "bogus" or not pool:
            exec_id = "00000000-0000-0000-0000-00000000dead"
        else:
            exec_id = pool[req["pick"] % len(pool)]["id"]
        return (AM.CancelMsg if k == "cancel" else AM.ForceMsg)(exec_id=exec_id)

    # -- prefix ------------------------------------------------------------------------------------------------------
    def prefix(self):
        s, h = self.scen, self.h
        h.set_inputs(**G.traj_at(s["traj"], 0))
        h.user("Start")
        o = h.tick()
        if o.raised is not None:
            self.prefix_problem = "tick-raised"
        self.k = 0                       # prefix ticks after the Start tick
        for k in range(s["pre"]):
            for at, req in s["pre_ops"]:
                if at == k:
                    self.send(self.build_msg(req))
            self._prefix_tick()
        # a cancel/force request that asks for an eligible run-log item: tick on (at most MAX_EXTRA ticks) until there is one
        want = [r["k"] for r in s["reqs"][:1] if r["k"] in ("cancel", "force") and r["pref"] == "eligible"]
        while want and self.k < s["pre"] + MAX_EXTRA and not self.prefix_problem and not self._eligible_items(want[0]):
            self._prefix_tick()
        self.msgs = [self.build_msg(r) for r in s["reqs"]]
        self.elig = [self._eligibility(r, m) for r, m in zip(s["reqs"], self.msgs)]
        return self

    def _prefix_tick(self):
        self.k += 1
        self.h.set_inputs(**G.traj_at(self.scen["traj"], self.k))
        if self.h.tick().raised is not None:
            self.prefix_problem = "tick-raised"

    def _eligible_items(self, kind):
        try:
            items = self._runlog_items()
        except Exception:    # C15's subject; the scenario is skipped
            self.prefix_problem = "runlog-raised"
            return []
        if kind == "cancel":
            return [i for i in items if i["cancellable"] and not i["cancelled"] and i["end"] is None]
        return [i for i in items if i["forcible"] and not i["forced"] and i["end"] is None]

    def _eligibility(self, req, msg):
        if self.prefix_problem:
            return ""
        if req["k"] in ("cancel", "force"):
            return "bogus-id" if msg.exec_id.endswith("dead") else ("eligible" if any(
                i["id"] == msg.exec_id and (i["cancellable"] if req["k"] == "cancel" else i["forcible"]) and i["end"] is None
                for i in self._runlog_items()) else "ineligible-item")
        return ""

    # -- the step ----------------------------------------------------------------------------------------------------
    def _begin_step(self):
        h, s = self.h, self.scen
        h.set_inputs(**G.traj_at(s["traj"], self.k + 1))
        h.tick_no += 1
        self.H.VT.now = self.H.VT.now + h.interval
        self.ev0 = len(h.events)

    def _tick_fn(self):
        try:
            self.h.engine.tick(self.H.VT.now, self.h.interval)
        except Exception as ex:     # observation, compared with the serial orders (an escaping exception is C13's subject)
            return [type(ex).__name__, str(ex)[:200]]
        return None

    def step_serial(self, order):
        """order: list of 'T' / request indices"""
        self._begin_step()
        resp = [None] * len(self.msgs)
        raised = None
        for x in order:
            if x == "T":
                self.h.events.role = lambda: "T"
                raised = self._tick_fn()
            else:
                self.h.events.role = lambda: "R"
                resp[x] = self.send(self.msgs[x])
        self.h.events.role = lambda: "main"
        self.step_obs = {"resp": resp, "tick_raised": raised, "deadlock": None}
        return self

    def step_sched(self, switches, profile=False):
        self._begin_step()
        prefix = os.path.dirname(os.path.abspath(openpectus.__file__)) + os.sep
        tracker = _PhaseTracker(self.lock)
        b = Baton(switches, prefix, phase_fn=tracker.label, profile=profile, locks=(self.lock,), call_fn=tracker.on_call)
        self.h.events.role = b.me
        b.run(self._tick_fn, lambda: [self.send(m) for m in self.msgs])
        self.h.events.role = lambda: "main"
        resp = b.result.get("R")
        self.step_obs = {"resp": resp if resp is not None else ["no-response"] * len(self.msgs),
                         "tick_raised": b.result.get("T") if "T" in b.result else ["aborted", ""], "deadlock": b.deadlock}
        self.baton = b
        return self

    # -- observation -------------------------------------------------------------------------------------------------
    def _runlog_items(self):
        rl = self.h.engine.tracking.get_runlog()
        return [{"id": i.id, "name": i.name, "start": i.start, "end": i.end, "state": str(i.state), "progress": i.progress,
                 "forcible": i.forcible, "forced": i.forced, "cancellable": i.cancellable, "cancelled": i.cancelled,
                 "failed": i.failed} for i in rl.items]

    def snap(self):
        e = self.h.engine
        mm = e.method_manager
        try:
            runlog = [[i["id"], i["name"], i["start"], i["end"], i["state"], i["progress"], i["forcible"], i["forced"],
                       i["cancellable"], i["cancelled"], i["failed"]] for i in self._runlog_items()]
        except Exception as ex:     # observation: a run log that cannot be produced (C15's subject) must also match a serial order
            runlog = ["raised", type(ex).__name__, str(ex)[:200]]
        ms = mm.get_method_state()
        cm = e._command_manager
        return {
            "state": [str(e._system_tags["System State"].get_value()), str(e._system_tags["Method Status"].get_value()),
                      e._runstate_started, e._runstate_paused, e._runstate_holding, e._runstate_stopping, e.has_error_state()],
            "tags": [[str(t.name), _jsonable(t.get_value())] for t in e._iter_all_tags()],
            "method_state": [sorted(ms.started_line_ids), sorted(ms.executed_line_ids), sorted(ms.failed_line_ids),
                             len(ms.injected_line_ids)],
            "method": [mm._method.version, [[l.id, l.content] for l in mm._method.lines]],
            "runlog": runlog,
            "pending": [[[r.name, r.arguments, r.source, r.instance_id] for r in list(cm.cmd_queue.queue)],
                        [[r.name, r.arguments, r.source, r.instance_id] for r in cm.cmd_executing],
                        sorted(e.uod.command_instances.keys()), sorted(e.registry.get_running_command_names()),
                        [i.node.id for i in e.interpreter.interrupts]],
            "wiring": [e._interpreter is mm._interpreter, e._tracking is e._interpreter.tracking, cm.tracking is e._tracking,
                       e._interpreter._program is mm._program, self.lock.owner],
        }

    def finish(self):
        """observation of the step, then the post ticks"""
        h = self.h
        obs = dict(self.step_obs)
        # effects of the step per side: the relative order of a tick effect and a request effect is timing, not state
        obs["step_events"] = {side: [list(ev[1:]) for ev, who in zip(h.events[self.ev0:], h.events.who[self.ev0:]) if who == side]
                              for side in ("T", "R")}
        obs["after_step"] = self.snap()
        post = []
        for k in range(self.scen["post"]):
            h.set_inputs(**G.traj_at(self.scen["traj"], self.k + 2 + k))
            n0 = len(h.events)
            o = h.tick()
            post.append({"raised": None if o.raised is None else [type(o.raised).__name__, str(o.raised)[:200]],
                         "events": [list(ev[1:]) for ev in h.events[n0:]], "snap": self.snap()})
        obs["post"] = post
        h.close()
        return _normalise(obs)


def _edit_text(i, n, indent):
    t = EDIT_TEXT[i % len(EDIT_TEXT)]
    return indent + (t % (900 + n) if "%" in t else t)


def _normalise(obs):
    """rename ids generated by uuid4 in order of first appearance (the three orders draw them in different sequence)"""
    names: dict = {}

    def sub(m):
        return names.setdefault(m.group(0), "U%d" % (len(names) + 1))

    def w(x):
        if isinstance(x, str):
            return UUID_RE.sub(sub, x) if "-" in x else x
        if isinstance(x, list):
            return [w(y) for y in x]
        if isinstance(x, tuple):
            return [w(y) for y in x]
        if isinstance(x, dict):
            return {k: w(x[k]) for k in x}
        return _jsonable(x)
    # fixed traversal order
    out = {}
    for k in ("resp", "tick_raised", "deadlock", "step_events", "after_step", "post"):
        out[k] = w(obs[k])
    return out


COMPONENTS = ["deadlock", "tick_raised", "resp", "step_events", "post_raised", "post_events", "state", "tags", "method_state",
              "method", "pending", "wiring", "runlog"]
# symptom part of the signature (the component that differs is named in the message, not in the signature: which component
# shows a broken interleaving first depends on the method at hand, the root cause does not)
SYMPTOM = {"deadlock": "deadlock", "tick_raised": "tick-exception", "resp": "response"}


def _components(obs):
    c = {"deadlock": obs["deadlock"], "tick_raised": obs["tick_raised"], "resp": obs["resp"], "step_events": obs["step_events"],
         "post_raised": [p["raised"] for p in obs["post"]], "post_events": [p["events"] for p in obs["post"]]}
    for k in ("state", "tags", "method_state", "method", "runlog", "pending", "wiring"):
        c[k] = [obs["after_step"][k]] + [p["snap"][k] for p in obs["post"]]
    return c


def _first_diff(a, b):
    """name of the first component (fixed order) in which two observations differ, None if equal"""
    ca, cb = _components(a), _components(b)
    for k in COMPONENTS:
        if ca[k] != cb[k]:
            return k
    return None


# ---------------------------------------------------------------------------------------------------------------------
# scenario-level reference results (serial orders), cached per process
# ---------------------------------------------------------------------------------------------------------------------

def _orders(n_req):
    if n_req == 1:
        return [["req-then-tick", [0, "T"]], ["tick-then-req", ["T", 0]]]
    return [["r1-r2-tick", [0, 1, "T"]], ["r1-tick-r2", [0, "T", 1]], ["tick-r1-r2", ["T", 0, 1]]]


class Reference:
    def __init__(self, scen):
        self.scen = scen
        first = Exec(scen).prefix()
        self.prefix_problem = first.prefix_problem
        self.kinds = [r["k"] for r in scen["reqs"]]
        self.elig = first.elig
        self.state_at_step = first.snap()["state"]
        self.serial = []
        for name, order in _orders(len(scen["reqs"])):
            ex = first if not self.serial else Exec(scen).prefix()
            self.serial.append([name, ex.step_serial(order).finish()])
        # without any request: what "lost" looks like
        self.none = Exec(scen).prefix().step_serial(["T"]).finish()
        self.none["resp"] = None
        self.state_changes_in_tick = self.none["after_step"]["state"] != self.state_at_step
        outs = lambda o: [v for n, v in o["after_step"]["tags"] if n in ("Out1", "Out2", "Out3")]    # noqa: E731
        self.outputs_changed_by_request = sum(1 for a, b in zip(outs(self.serial[0][1]), outs(self.none)) if a != b)
        # is a request accepted in one serial order and rejected in another?
        self.validity_flips = len({json.dumps([r[0] if r else None for r in o["resp"]]) for _, o in self.serial}) > 1
        # profile of the tick: schedule [] under the scheduler must be the serial order tick-then-requests
        ex = Exec(scen).prefix().step_sched([], profile=True)
        self.n_t = ex.baton.count["T"]
        self.n_r = ex.baton.count["R"]
        self.t_phases = ex.baton.t_phases
        self.loc_ranges = {}          # distinct source location of the tick -> its event indices (insertion order = first occurrence)
        for i, loc in enumerate(ex.baton.t_locs):
            self.loc_ranges.setdefault(loc, []).append(i)
        self.locs = list(self.loc_ranges)
        got = ex.finish()
        d = _first_diff(got, self.serial[-1][1])
        if d is not None:
            raise RuntimeError("C40 harness self-test: schedule [] differs from the serial order tick-then-requests in %r" % d)
        self.matters = any(_first_diff(self.serial[0][1], o) is not None for _, o in self.serial[1:])
        self.phase_ranges = {}
        for i, p in enumerate(self.t_phases):
            self.phase_ranges.setdefault(p, []).append(i)

    def selftest_first(self):
        """schedule [0] (requests run before the first line of tick) must be the serial order requests-then-tick"""
        got = Exec(self.scen).prefix().step_sched([0]).finish()
        d = _first_diff(got, self.serial[0][1])
        if d is not None:
            raise RuntimeError("C40 harness self-test: schedule [0] differs from the serial order requests-then-tick in %r" % d)


_ref_cache: dict = {}


def reference(scen) -> Reference:
    key = case_hash(scen)
    r = _ref_cache.get(key)
    if r is None:
        if len(_ref_cache) > 8:
            _ref_cache.clear()
        r = _ref_cache[key] = Reference(scen)
    return r


# ---------------------------------------------------------------------------------------------------------------------
# the oracle on one (scenario, schedule)
# ---------------------------------------------------------------------------------------------------------------------

def judge(scen, switches, ref: Reference | None = None, _single: bool = False):
    """-> (violations, info)"""
    ref = ref or reference(scen)
    case = {"scen": scen, "sw": list(switches)}
    info = {"kinds": ref.kinds}
    if ref.prefix_problem:
        return [], {"skip": "prefix-" + ref.prefix_problem, **info}
    ex = Exec(scen).prefix().step_sched(switches)
    b = ex.baton
    got = ex.finish()
    matches = [name for name, o in ref.serial if _first_diff(got, o) is None]
    # where did the request thread get the baton?
    tr = [e for e in b.switch_log if e["from"] == "T" and e["effective"]]
    first_phase = tr[0]["t_phase"] if tr else "none"
    ran_phases = [e["t_phase"] for e in tr if e["ran"] > 0]
    blocked = [p for who, _, p in b.lock_blocks if who == "R"]
    info.update({"matches": matches, "first_phase": first_phase, "ran_phases": ran_phases, "r_blocked": bool(blocked),
                 "t_blocked": any(who == "T" for who, _, _ in b.lock_blocks), "n_sw": len(switches),
                 "in_execute": any(p in LOCKED_PHASES for p in ran_phases + blocked), "matters": ref.matters,
                 "straddle": bool(b.r_mid_request_at_t_end),
                 "events": b.n, "elig": ref.elig})
    if matches:
        return [], info
    # no serial order explains the outcome.  With two requests: if one of them alone already does this, report that one
    if len(scen["reqs"]) == 2 and not _single:
        for i in (0, 1):
            vs1, info1 = judge(dict(scen, reqs=[scen["reqs"][i]]), switches, _single=True)
            if vs1:
                info["symptom"] = info1["symptom"] + "(single)"
                return vs1, info
    # phase: the first phase of the locked section of tick during which request code ran; a request that began before the
    # lock was taken, was pre-empted half-way and finished after the tick is labelled straddle
    locked = [p for p in ran_phases if p in LOCKED_PHASES]
    if locked:
        phase = locked[0]
    elif b.r_mid_request_at_t_end and ran_phases:
        phase = "straddle"
    else:
        phase = (ran_phases or blocked or [first_phase])[0]
    kinds = "+".join(sorted(set(ref.kinds)))
    if got["deadlock"]:
        symptom = "deadlock"
    else:
        diffs = [_first_diff(got, o) for _, o in ref.serial]
        lost = _first_diff(dict(got, resp=None), ref.none) is None
        if lost:
            symptom = "lost"
        else:
            comp = max(diffs, key=COMPONENTS.index)
            symptom = SYMPTOM.get(comp, "diverged")
    sig = "%s:%s:%s" % (kinds, phase, symptom)
    detail = _explain(got, ref, symptom)
    msg = ("requests %s at switch positions %r (baton given to the request thread while tick was in phase %r; state at the step "
           "%s): outcome matches no serial order %s: %s" % (_req_text(scen), list(switches), phase, ref.state_at_step[0],
                                                            [n for n, _ in ref.serial], detail))
    info["symptom"] = symptom
    return [Violation(sig, msg, case)], info


def _req_text(scen):
    out = []
    for r in scen["reqs"]:
        if r["k"] == "control":
            out.append("control(%s)" % r["name"])
        elif r["k"] == "inject":
            out.append("inject(%r)" % r["code"])
        elif r["k"] == "method":
            out.append("method-edit(%r)" % r["ops"])
        else:
            out.append("%s(%s #%d)" % (r["k"], r["pref"], r["pick"]))
    return " + ".join(out)


def _explain(got, ref, symptom):
    parts = []
    cg = _components(got)
    for name, o in ref.serial:
        k = _first_diff(got, o)
        co = _components(o)
        a, b = cg[k], co[k]
        if isinstance(a, list) and isinstance(b, list) and len(a) == len(b) and k not in ("resp", "tick_raised", "step_events"):
            for i, (x, y) in enumerate(zip(a, b)):
                if x != y:
                    if isinstance(x, list) and isinstance(y, list) and len(x) == len(y):
                        sub = [(p, q) for p, q in zip(x, y) if p != q][:2]
                        a, b = [s[0] for s in sub], [s[1] for s in sub]
                    else:
                        a, b = x, y
                    k = "%s@+%d" % (k, i)
                    break
        parts.append("vs %s first difference in %s: interleaved %s / serial %s" % (name, k, str(a)[:260], str(b)[:260]))
    if symptom == "lost":
        parts.insert(0, "the outcome is exactly that of the tick WITHOUT the request (response %s)" % (got["resp"],))
    return " || ".join(parts)


# ---------------------------------------------------------------------------------------------------------------------
# framework interface
# ---------------------------------------------------------------------------------------------------------------------

def _valid_req(r):
    if not isinstance(r, dict) or r.get("k") not in ("control", "inject", "method", "cancel", "force"):
        return False
    if r["k"] == "control":
        return r.get("name") in CONTROL + USER_UOD
    if r["k"] == "inject":
        return isinstance(r.get("code"), str) and r["code"] in INJECT
    if r["k"] == "method":
        ops = r.get("ops")
        if not isinstance(ops, list) or not ops:
            return False
        for op in ops:
            if not isinstance(op, list) or not op or op[0] not in ("append", "insert", "delete", "replace"):
                return False
            if len(op) != {"append": 2, "delete": 2, "insert": 3, "replace": 3}[op[0]]:
                return False
            if not all(isinstance(x, int) and not isinstance(x, bool) and 0 <= x <= 10000 for x in op[1:]):
                return False
        return True
    return isinstance(r.get("pick"), int) and not isinstance(r.get("pick"), bool) and r["pick"] >= 0 and \
        r.get("pref") in ("eligible", "any", "bogus")


_KINDS = {"mark", "quick", "slow", "ova", "ovb", "set", "wait", "block", "watch", "alarm", "pause", "hold", "blank", "comment", "info",
          "stop", "restart"}


def _num(x, lo, hi):
    return isinstance(x, (int, float)) and not isinstance(x, bool) and lo <= x <= hi


def _valid_nodes(nodes, depth) -> bool:
    """the program tree stays inside what the generator of this module can produce (the shrinker mutates freely)"""
    if not isinstance(nodes, list) or depth > 5:
        return False
    for n in nodes:
        if not isinstance(n, dict) or n.get("k") not in _KINDS:
            return False
        k = n["k"]
        if n.get("t") is not None and not _num(n["t"], 0, 3):
            return False
        if k in ("slow", "ova", "ovb") and not (isinstance(n.get("n"), int) and not isinstance(n["n"], bool) and 1 <= n["n"] <= 4):
            return False
        if k == "set" and not (n.get("reg") in (1, 2, 3) and isinstance(n.get("v"), int) and not isinstance(n["v"], bool) and 0 <= n["v"] <= 9):
            return False
        if k in ("wait", "pause", "hold") and not _num(n.get("d"), 0, 3):
            return False
        if k in ("watch", "alarm"):
            c = n.get("cond")
            if not (isinstance(c, dict) and c.get("tag") in G.UNITS_FOR and c.get("op") in G.OPS and _num(c.get("val"), 0, 20)
                    and c.get("unit") in G.UNITS_FOR[c["tag"]]):
                return False
            if not n.get("c") or not _valid_nodes(n["c"], depth + 1):
                return False
        if k == "block":
            if n.get("end") not in ("endblock", "endblocks") or (n.get("end_t") is not None and not _num(n["end_t"], 0, 3)):
                return False
            if not _valid_nodes(n.get("c", []), depth + 1):
                return False
    return True


def _valid(case) -> bool:
    try:
        s = case["scen"]
        sw = case["sw"]
        if not isinstance(s["tree"], dict) or s["tree"].get("base") not in ("s", None) or not s["tree"].get("body") \
                or not _valid_nodes(s["tree"]["body"], 0):
            return False
        if not isinstance(sw, list) or len(sw) > 4 or any(not isinstance(x, int) or isinstance(x, bool) or x < 0 for x in sw):
            return False
        if sw != sorted(sw) or len(set(sw)) != len(sw):
            return False
        G.render(s["tree"])
        if not (isinstance(s["pre"], int) and 0 <= s["pre"] <= 60 and isinstance(s["post"], int) and 1 <= s["post"] <= 30):
            return False
        if not isinstance(s["reqs"], list) or not 1 <= len(s["reqs"]) <= 2 or not all(_valid_req(r) for r in s["reqs"]):
            return False
        for p in s["pre_ops"]:
            if not (isinstance(p, list) and len(p) == 2 and isinstance(p[0], int) and 0 <= p[0] < max(1, s["pre"]) and _valid_req(p[1])):
                return False
        for t in s["traj"]:
            if not (isinstance(t, list) and len(t) == 2 and isinstance(t[0], int) and isinstance(t[1], dict)
                    and all(k in ("In1", "In2", "Temp") and isinstance(v, (int, float)) for k, v in t[1].items())):
                return False
        return True
    except Exception:   # malformed sub-case produced by the shrinker: outside the domain
        return False


def check_case(case):
    if not isinstance(case, dict) or "scen" not in case or "sw" not in case or not _valid(case):
        return []
    return run_bounded(lambda: judge(case["scen"], case["sw"])[0], CASE_LIMIT_S, "C40 case")


def shrink_hints(case):
    """smaller candidates the generic shrinker cannot guess: fewer switches / requests, shorter prefix and post"""
    s = case["scen"]
    sw = case["sw"]
    if len(sw) > 1:
        for x in sw:
            yield {"scen": s, "sw": [x]}
    for i in range(len(sw)):
        yield {"scen": s, "sw": sw[:i] + sw[i + 1:]}
    if len(s["reqs"]) == 2:
        for i in (0, 1):
            yield {"scen": dict(s, reqs=[s["reqs"][i]]), "sw": sw}
    if s["pre_ops"]:
        yield {"scen": dict(s, pre_ops=[]), "sw": sw}
    if s["traj"]:
        yield {"scen": dict(s, traj=[]), "sw": sw}
    if s["post"] > 1:
        yield {"scen": dict(s, post=max(1, s["post"] // 2)), "sw": sw}
        yield {"scen": dict(s, post=s["post"] - 1), "sw": sw}


def _schedules(ref: Reference, picks):
    """switch lists derived from the drawn numbers and the profile of this scenario's step"""
    n_t, n_r = max(1, ref.n_t), max(1, ref.n_r)
    phases = sorted(ref.phase_ranges)
    out = []
    for n_sw, strat, a, b, c, d in picks:
        if n_sw == 0:
            out.append([])
            continue
        if strat < 45 and ref.locs:         # stratified by source location of the tick (loops do not dominate), then an occurrence
            idxs = ref.loc_ranges[ref.locs[a % len(ref.locs)]]
            s1 = idxs[b % len(idxs)]
        elif strat < 70 and phases:         # stratified: phase first, then a position inside it
            idxs = ref.phase_ranges[phases[a % len(phases)]]
            s1 = idxs[b % len(idxs)]
        elif strat < 82 and phases:         # first or last pre-emption point of a phase (lock boundaries, hand-over between phases)
            idxs = ref.phase_ranges[phases[a % len(phases)]]
            s1 = idxs[0] if b % 2 == 0 else idxs[-1]
        else:
            s1 = a * n_t // 10000
        sw = [s1]
        if n_sw >= 2:                       # R is pre-empted after 1..n_r of its lines
            sw.append(sw[-1] + 1 + (c * n_r // 10000 if strat % 2 else c % min(n_r, 40)))
        if n_sw >= 3:                       # T again pre-empted
            sw.append(sw[-1] + 1 + d * max(1, n_t - s1) // 10000)
        if n_sw >= 4:
            sw.append(sw[-1] + 1 + (b * n_r // 10000))
        out.append(sw)
    return out


def _classes(info):
    cl = ["req:" + k for k in info["kinds"]]
    if "skip" in info:
        return cl + ["skip:" + info["skip"]]
    cl.append("n-switches:%d" % info["n_sw"])
    cl.append("first-switch-phase:" + info["first_phase"])
    for p in sorted(set(info["ran_phases"])):
        cl.append("request-code-ran-in:" + p)
    if info["r_blocked"]:
        cl.append("request-blocked-on-lock")
    if info["t_blocked"]:
        cl.append("tick-blocked-on-lock")
    if info["straddle"]:
        cl.append("request-finished-after-the-tick-ended")
    cl.append("request-matters" if info["matters"] else "request-without-observable-effect")
    for e in info["elig"]:
        if e:
            cl.append("target:" + e)
    if len(info["kinds"]) == 2:
        cl.append("two-requests")
    if info.get("matches"):
        cl.append("explained-by:" + ("any-order" if len(info["matches"]) == len(_orders(len(info["kinds"]))) else "+".join(info["matches"])))
    else:
        cl.append("unexplained:" + info.get("symptom", "?"))
    return cl


def run_shard(col, cfg):
    counter = [0]
    hangs: list = []

    def scenario(drawn):
        scen, picks = drawn
        ref = reference(scen)
        counter[0] += 1
        if ref.prefix_problem:
            col.count("scenario-skipped:prefix-" + ref.prefix_problem)
            return
        ref.selftest_first()
        col.count("scenarios")
        col.count("scenario-state:" + ref.state_at_step[0])
        for ph in sorted(ref.phase_ranges):
            col.count("scenario-tick-reaches-phase:" + ph)
        if ref.state_changes_in_tick:
            col.count("scenario-run-state-changes-in-the-raced-tick")
        if ref.validity_flips:
            col.count("scenario-acceptance-of-a-request-depends-on-the-order")
        if ref.outputs_changed_by_request:
            col.count("scenario-request-changes-%d-outputs-at-once" % min(ref.outputs_changed_by_request, 2))
        scheds = _schedules(ref, picks)
        if cfg.get("exhaustive_every") and counter[0] % cfg["exhaustive_every"] == 0:
            if ref.n_t <= cfg["exhaustive_max_events"]:
                col.count("scenarios-with-exhaustive-single-switch")
                scheds = scheds + [[i] for i in range(ref.n_t)]
            else:       # long tick: the first and the last occurrence of every distinct source location
                col.count("scenarios-with-single-switch-at-every-source-location")
                scheds = scheds + [[i] for i in sorted({v[0] for v in ref.loc_ranges.values()} | {v[-1] for v in ref.loc_ranges.values()})]
        seen = set()
        for sw in scheds:
            if col.expired():
                return
            key = tuple(sw)
            if key in seen:
                continue
            seen.add(key)
            vs, info = judge(scen, sw, ref)
            case = {"scen": scen, "sw": sw}
            nontrivial = bool(info.get("in_execute")) and bool(info.get("matters"))
            col.record(case, nontrivial, classes=_classes(info), violations=vs,
                       sample={"method": G.text_of(G.render(scen["tree"])), "pre_ticks": scen["pre"], "requests": _req_text(scen),
                               "switches": sw, "first_switch_phase": info.get("first_phase"), "explained_by": info.get("matches")})

    def body(drawn):
        if len(hangs) >= MAX_HANGS:
            return
        try:
            # watchdog: the whole scenario runs on a daemon thread that is abandoned after a generous real-time limit
            run_bounded(lambda: scenario(drawn), cfg.get("scenario_limit_s", 900), "C40 scenario")
        except SchedulerHang as ex:
            # a step (or the scenario) did not end: this schedule could not be realised.  Never a verdict, never a hang of
            # the check: counted, the scenario is dropped, and the shard ends as a harness error below unless it has
            # established violations
            hangs.append(str(ex))
            col.count("harness:schedule-could-not-be-realised")
            _ref_cache.clear()

    hyp_run(scenarios(cfg), body, max(1, cfg["scenarios"] // col.nshards), shard_seed(col.seed, col.shard), col)
    if hangs:
        col.extra["unrealised_schedules"] = len(hangs)
        if not col.violations:
            raise RuntimeError("C40 harness: %d scenario(s) could not be realised (a thread neither ended nor blocked on a "
                               "modelled lock) and no violation was established in this shard; first: %s" % (len(hangs), hangs[0]))
