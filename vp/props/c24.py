"""C24 — no lost or stale hardware writes after an outage  (fault_enumeration).

Domain : engine-like write cycles (`cycle` = tick, read_batch of all inputs, write_batch of ALL output registers,
         +0.1 s) with changing / unchanging values, `only_write_modified_values` on and off, interleaved with the
         fault alphabet of C23 (write/read/reconnect failures, time advances across both timeouts, ticks that let the
         reconnect happen) and - rarely - single write()/partial write_batch calls as a UOD command may issue them
         through `context.hwl`.  Fake inner hardware, real ErrorRecoveryDecorator, virtual clock: shared with C23.
Oracle : observed at the fake hardware.
         (i)  every physical write (r, v) reaching the fake hardware carries the value most recently commanded for r
              at that moment (a value the decorator rejected with an exception is tolerated as well)
                 stale-buffered-write:<where>   v is an older value that was buffered while the hardware was
                                        unreachable; where = register-not-rewritten (the call's own write skipped the
                                        register) | after-own-write | before-own-write
                 stale-write:old-value:* v is an older commanded value that had reached the hardware before
                 wrong-write:*          v was never commanded for r
         (ii) after every full cycle that ends in state OK, raised nothing and saw no physical write failure:
              fake memory[r] == commanded[r] for every output register (floats: math.isclose default tolerance,
              which the repo's unit test documents for only_write_modified_values)
                 lost-write:<kind>      kind = nonnumeric->float (float commanded, register still holds a str/None)
                                        | after-device-reset | after-unnoticed-flush-failure (volatile device, the
                                        decorator swallowed the failure of its own buffer flush of an obsolete entry)
                                        | after-swallowed-flush-failure:valid-buffer-entry (same, the flushed entry
                                        was a valid one and the fault hit the middle of the call) | <type>-><type>
              registers whose content was destroyed by a stale write already reported under (i) are skipped and
              counted (class excluded_known:stale-buffered-write) so that one root cause yields one signature.
         (iii) after every single write() / partial write_batch (a UOD command writing through context.hwl) that ends
              in state OK, raised nothing and saw no physical write failure: every output register whose most
              recent command was accepted while the hardware was unreachable (buffered) holds that value - the
              successful write is what flushes the buffer, also after an outage that went through state Error
              (judged for non-volatile devices only)
                 lost-buffered-write:<states the outage went through>
"""
from __future__ import annotations

import math

from hypothesis import strategies as st

from vp.core.framework import Violation
from vp.props import c23 as H

ID = "C24"
LEVEL = "fault_enumeration"
ENGINE = "pure"
DESIGN_REF = "DESIGN.md §3 C24, Appendix A.2"
TECHNIQUE = ("model-based testing: generated engine write cycles and fault lists against the real ErrorRecoveryDecorator; "
             "every physical write and the register memory of a fake hardware are compared with a shadow of the "
             "most recently commanded values")
RULE = ("a case is a config (timeouts, only_write_modified_values on/off, volatile device memory on/off) plus up to 40 "
        "(quick) / 120 (thorough) operations, >= half of them full engine write cycles whose per-register values "
        "either repeat the previous cycle or change, interleaved with fault switches, time advances across both "
        "timeouts, ticks (reconnect) and a few single/partial writes. Non-trivial = an outage during which >= 1 "
        "commanded value did not reach the hardware, followed by a successful cycle in state OK and >= 2 further "
        "cycles. Distinct = distinct (config, operation list).")
ASSUMPTIONS = [
    "fake hardware as in C23 (whole-call failures, HardwareLayerException only, empty write_batch never fails)",
    "with cfg.volatile the fake device loses its output register contents (power-on value -1) whenever a physical "
    "read/write fails, i.e. only at moments where the decorator itself observes an error",
    "a value whose write call raised HardwareLayerException (state Error/Disconnected) counts as commanded, but the "
    "previously accepted value is tolerated too in (i)",
    "float equality uses math.isclose(rel_tol=1e-9), the tolerance test_write_only_writes_modified_values_float documents",
    "law (ii) is judged only for full cycles (all output registers in one write_batch), the only way Engine writes",
    "the Both register Z is never changed from the device side (set_input is restricted to pure inputs)",
]
TIERS = {
    "quick": {"per_shard": 1250, "max_ops": 40, "budget_s": 170},
    "thorough": {"per_shard": 31250, "max_ops": 120, "budget_s": 840},
}

def _same(a, b) -> bool:
    if H._is_num(a) and H._is_num(b):
        return a == b or math.isclose(a, b)
    return type(a) is type(b) and a == b


def _tname(v) -> str:
    return type(v).__name__


def judge(case, steps):
    out: list[Violation] = []
    seen: set[str] = set()
    labels: set[str] = set()
    counts = {"excluded_known:stale-buffered-write": 0}
    volatile = case["cfg"]["volatile"]

    def V(sig, msg):
        if sig not in seen:
            seen.add(sig)
            out.append(Violation(sig, msg, case))

    commanded: dict = {}                  # register -> most recently commanded value
    tolerated: dict = {}                  # register -> values acceptable at the hardware (accepted value + later rejected ones)
    history: dict = {r: [] for r in H.WRITABLE}   # register -> [(value, was_buffered)] of earlier commands, oldest first
    tainted: dict = {}                    # register -> description of the stale write that destroyed its content
    mem_before: dict = {r: H.RESET_VALUE for r in H.WRITABLE}
    obsolete_buffer: dict = {}            # register -> a primary write reached the hardware after the last buffering
    buffered_regs: set = set()            # registers for which a value was buffered and has not been flushed since
    unnoticed_reset = False               # volatile device reset by a write failure the decorator swallowed
    phase = 0          # 0: no outage yet, 1: a commanded value was buffered, 2: recovered by a good cycle
    cycles_after = 0
    seen_states: set = set()              # decorator states since the last buffering of a commanded value
    for st_ in steps[1:]:
        seen_states.add(st_.post)
        if st_.kind not in ("write", "write_batch"):
            if volatile and any(e[0] == "rfail" for e in st_.ev):
                labels.add("device-reset")
            continue
        # ---- the command ---------------------------------------------------------------------------
        rejected = st_.exc is not None
        for r, v in zip(st_.regs, st_.vals):
            if rejected:
                tolerated.setdefault(r, []).append(v)
            else:
                tolerated[r] = [v]
            commanded[r] = v
        if rejected:
            labels.add("rejected-write")
        wrote = [e for e in st_.ev if e[0] == "w"]
        failed = any(e[0] == "wfail" for e in st_.ev)
        if failed and volatile:
            labels.add("device-reset")
        if st_.pre != "OK":
            unnoticed_reset = False       # the decorator knows about the outage: it rewrites everything
        if failed and st_.post == "OK" and st_.pre == "OK":
            labels.add("swallowed-flush-failure")
            if volatile and not unnoticed_reset:
                # which entry was being flushed is not visible in the failure event: when no buffered entry is obsolete
                # (no newer value of its register has reached the hardware since it was buffered) the entry was a valid one
                # the entry whose flush failed was a valid one unless a newer value of its register had reached the hardware
                # since it was buffered (an obsolete entry: dropped by the decorator since 9c079fe2)
                freg = [e[2] for e in st_.ev if e[0] == "wfail" and len(e) == 3]
                unnoticed_reset = True if any(obsolete_buffer.get(r) for r in freg) or not freg else "valid-entry"
        elif failed and st_.post == "OK" and st_.pre == "Issue" and any(e[0] == "w" for e in st_.ev):
            # the call's own write succeeded (Issue -> OK) and a physical write of the buffer flush behind it failed: the
            # decorator swallows that failure and stays OK although the flushed entry was a valid one ("better luck next time")
            labels.add("swallowed-flush-failure:valid-buffer-entry")
            if volatile:
                unnoticed_reset = "valid-entry"
        # ---- (i) every physical write carries the most recently commanded value ---------------------
        first_io = min([j for j, e in enumerate(st_.ev) if e[0] in ("w", "wfail", "w0")], default=None)
        for j, e in enumerate(st_.ev):
            if e[0] != "w":
                continue
            r, v = e[1], e[2]
            # a single write() inside a write_batch call, or after the call's own write, is the decorator flushing its buffer
            is_flush = e[3] == "single" and (st_.kind == "write_batch" or j != first_io)
            if not is_flush:
                obsolete_buffer[r] = True        # whatever is still buffered for r is older than what the hardware has now
            else:
                buffered_regs.discard(r)         # the buffered entry of r has been flushed
            if r not in commanded:
                V("wrong-write:never-commanded", "%s: register %s was written (%r) but never commanded" % (st_.brief(), r, v))
                continue
            if any(_same(v, t) for t in tolerated[r]):
                if is_flush and obsolete_buffer.get(r):
                    # an obsolete buffer entry that happens to equal the current command was flushed: harmless at the
                    # hardware, but it is the same root cause as stale-buffered-write (entry not dropped) and leaves the
                    # decorator's modified-value cache out of step
                    labels.add("obsolete-buffer-flushed-same-value")
                    tainted[r] = "%s flushed obsolete %s=%r" % (st_.brief(), r, v)
                elif r in tainted and _same(v, commanded[r]):
                    del tainted[r]
                continue
            older = [h for h in history[r] if _same(h[0], v)]
            if any(h[1] for h in older):
                # where did the stale value land relative to the call's own write of that register?
                own = [i for i, x in enumerate(st_.ev) if x[0] == "w" and x[1] == r and i != j
                       and not (x[3] == "single" and (st_.kind == "write_batch" or i != first_io))]
                how = "register-not-rewritten" if not own else ("after-own-write" if min(own) < j else "before-own-write")
                labels.add("stale-buffered-write")
                tainted[r] = "%s wrote %s=%r" % (st_.brief(), r, v)
                V("stale-buffered-write:" + how,
                  "%s (state %s->%s, only_write_modified_values=%s): the hardware received %s=%r, a value buffered during "
                  "an earlier outage, although %r was commanded since (register held %r before)"
                  % (st_.brief(), st_.pre, st_.post, case["cfg"]["omv"], r, v, commanded[r], mem_before.get(r)))
            elif older:
                V("stale-write:old-value:%s" % e[3], "%s: the hardware received %s=%r, an older commanded value; most recently "
                  "commanded is %r" % (st_.brief(), r, v, commanded[r]))
            else:
                V("wrong-write:%s" % e[3], "%s: the hardware received %s=%r, which was never commanded; most recently commanded "
                  "is %r" % (st_.brief(), r, v, commanded[r]))
        # ---- history: was the commanded value buffered (did not reach the hardware while it was unreachable)? --------
        for r, v in zip(st_.regs, st_.vals):
            reached = any(e[1] == r and _same(e[2], v) for e in wrote)
            was_buffered = (not reached) and (not rejected) and (failed or st_.pre == "Reconnect")
            history[r].append((v, was_buffered))
            if was_buffered:
                seen_states = {st_.post}
                obsolete_buffer[r] = False
                buffered_regs.add(r)
                labels.add("buffered-in:" + st_.pre)
                if phase == 0:
                    phase = 1
        mem_before = dict(st_.mem)
        # ---- (ii) memory after a good full cycle ------------------------------------------------------
        if not st_.full_cycle:
            labels.add("single-or-partial-write")
            # (not with a volatile device: an unmodified value is not buffered under only_write_modified_values, and
            # only the next full cycle - law (ii) - restores what a device reset destroyed)
            # a write_batch call that returns normally in state OK is a write cycle that succeeded, also when every value
            # was filtered as unchanged; a single write() counts when it reached the hardware
            if (st_.post == "OK" and st_.exc is None and not failed and not volatile
                    and (st_.kind == "write_batch" or any(e[0] == "w" for e in st_.ev))):
                for r in H.WRITABLE:
                    if r in st_.regs or not history[r] or not history[r][-1][1] or r in tainted:
                        continue
                    labels.add("partial-write-flushes-buffer")
                    if not _same(st_.mem[r], commanded[r]):
                        V("lost-buffered-write:" + ("via-error" if "Error" in seen_states else "no-error-state"),
                          "%s ended in state OK without any write error, but register %s holds %r while %r, accepted and "
                          "buffered during the outage, is its most recent command (states since the buffering: %s)"
                          % (st_.brief(), r, st_.mem[r], commanded[r], sorted(seen_states)))
            continue
        good = st_.post == "OK" and st_.exc is None and not failed
        if phase == 2:
            cycles_after += 1
        if not good:
            continue
        labels.add("ok-cycle")
        if phase == 1:
            phase, cycles_after = 2, 0
        for r in H.WRITABLE:
            if _same(st_.mem[r], commanded[r]):
                continue
            if r in tainted:
                counts["excluded_known:stale-buffered-write"] += 1
                continue
            if isinstance(commanded[r], float) and not H._is_num(st_.mem[r]):
                kind = "nonnumeric->float"
            elif volatile and st_.mem[r] == H.RESET_VALUE:
                kind = ("after-swallowed-flush-failure:valid-buffer-entry" if unnoticed_reset == "valid-entry"
                        else "after-unnoticed-flush-failure" if unnoticed_reset else "after-device-reset")
            else:
                kind = "%s->%s" % (_tname(st_.mem[r]), _tname(commanded[r]))
            V("lost-write:" + kind,
              "%s ended in state OK without any write error, but register %s holds %r while %r was commanded "
              "(only_write_modified_values=%s)" % (st_.brief(), r, st_.mem[r], commanded[r], case["cfg"]["omv"]))
    nontrivial = phase == 2 and cycles_after >= 2
    if phase >= 1:
        labels.add("outage-with-buffered-write")
    if phase == 2:
        labels.add("recovered")
        labels.add("recovered-via-reconnect" if any(s.pre in ("Reconnect", "Error") and s.post == "OK" for s in steps[1:])
                   else "recovered-from-issue")
    return out, labels, counts, nontrivial


def check_case(case) -> list[Violation]:
    if not H.valid_case(case):
        return []
    return judge(case, H.execute(case))[0]


# ------------------------------------------------------------------------------------------------
# generator
# ------------------------------------------------------------------------------------------------

FRAGS_C24 = (["cycle"] * 16 + ["cycle_same"] * 8 + ["write"] * 1 + ["write_batch"] * 1 + ["advance"] * 3 + ["tick"] * 2
             + ["fail_write"] * 5 + ["fail_read"] * 2 + ["fail_connect"] * 1 + ["outage_on"] * 2 + ["outage_off"] * 3
             + ["to_reconnect"] * 3 + ["to_error"] * 1 + ["recover"] * 4 + ["outage_story"] * 3 + ["long_outage_story"] * 2 + ["flush_fault_story"] * 2)


def _fragment(draw, kind, prev_cycle):
    if kind == "cycle_same":
        return [["cycle", list(prev_cycle)]] * draw(st.integers(1, 3))
    if kind == "outage_story":
        # change -> outage -> change during the outage -> recovery -> changed or unchanged cycles
        ops = [["fail_write", True]]
        if draw(st.booleans()):
            ops.append(["fail_read", True])
        ops += H._fragment(draw, "cycle", prev_cycle)
        if draw(st.booleans()):
            ops += [["advance", draw(st.sampled_from([11, 1.3, 0.1]))]] + H._fragment(draw, "cycle", prev_cycle)
            if draw(st.booleans()):
                ops += [["advance", draw(st.sampled_from([18001, 3600, 0.1]))]] + H._fragment(draw, "cycle", prev_cycle)
        ops += [["fail_write", False], ["fail_read", False], ["fail_connect", False], ["tick", 6]]
        for _ in range(draw(st.integers(1, 4))):
            ops += [["cycle", list(prev_cycle)]] if draw(st.booleans()) else H._fragment(draw, "cycle", prev_cycle)
        return ops
    if kind == "flush_fault_story":
        # two registers are buffered by a failing partial batch; the hardware is back; the next partial write succeeds and
        # the n-th physical write of the flush behind it fails (swallowed by the decorator); further partial batches
        # - some repeating the values just written - follow before the full cycles resume
        a, b_ = draw(st.permutations(H.WRITABLE))[:2]
        c = [r for r in H.WRITABLE if r not in (a, b_)][0]
        va, vb, vc = draw(H.value_st), draw(H.value_st), draw(H.value_st)
        ops = [["fail_write", True], ["write_batch", [[a, va], [b_, vb]]], ["fail_write", False],
               ["fail_write_nth", draw(st.sampled_from([2, 3, 3]))], ["write_batch", [[c, vc]]]]
        for _ in range(draw(st.integers(1, 3))):
            ops.append(draw(st.sampled_from([["write_batch", [[c, vc]]], ["write_batch", [[c, vc]]], ["write", c, vc],
                                             ["write_batch", [[c, draw(H.value_st)]]]])))
        for _ in range(draw(st.integers(0, 2))):
            ops += [["cycle", list(prev_cycle)]] if draw(st.booleans()) else H._fragment(draw, "cycle", prev_cycle)
        return ops
    if kind == "long_outage_story":
        # a value is buffered, the outage outlasts both timeouts (the transition to Error is noticed by a read, by a
        # write to another register or by a cycle), the reconnect succeeds on a tick and the first successful writes
        # are single / partial ones (a UOD command writing through context.hwl) before the full cycles resume
        w = draw(st.sampled_from(H.WRITABLE))
        others = [r for r in H.WRITABLE if r != w]
        ops = [["fail_write", True], ["fail_read", True], ["fail_connect", True], ["write", w, draw(H.value_st)]]
        if draw(st.booleans()):
            ops += H._fragment(draw, "cycle", prev_cycle)
        ops += [["advance", 11], draw(st.sampled_from([["write", w, draw(H.value_st)], ["read", "A"], ["cycle", list(prev_cycle)]]))]
        ops += [["advance", draw(st.sampled_from([18001, 18001, 3600]))],
                draw(st.sampled_from([["read", "A"], ["write", draw(st.sampled_from(others)), draw(H.value_st)], ["cycle", list(prev_cycle)]]))]
        ops += [["fail_write", False], ["fail_read", False], ["fail_connect", False], ["tick", draw(st.sampled_from([6, 21]))]]
        for _ in range(draw(st.integers(1, 2))):
            ops.append(["write", draw(st.sampled_from(others)), draw(H.value_st)])
        for _ in range(draw(st.integers(1, 3))):
            ops += [["cycle", list(prev_cycle)]] if draw(st.booleans()) else H._fragment(draw, "cycle", prev_cycle)
        return ops
    return H._fragment(draw, kind, prev_cycle)


@st.composite
def cases(draw, max_ops: int):
    cfg = draw(H.configs())
    cfg["connected"] = True          # the engine refuses to start on a disconnected layer
    ops: list = []
    prev_cycle = [draw(H.value_st) for _ in H.WRITABLE]
    n = draw(st.integers(3, max_ops))
    while len(ops) < n:
        ops.extend(_fragment(draw, draw(st.sampled_from(FRAGS_C24)), prev_cycle))
    return {"cfg": cfg, "ops": ops[:max_ops]}


def run_shard(col, cfg):
    def body(case):
        if not H.valid_case(case):
            raise AssertionError("generator produced a case outside its own domain: %r" % (case,))
        vs, labels, counts, nontrivial = judge(case, H.execute(case))
        cl = set(labels)
        cl.add("cfg:omv" if case["cfg"]["omv"] else "cfg:write-all")
        if case["cfg"]["volatile"]:
            cl.add("cfg:volatile")
        ncyc = sum(1 for op in case["ops"] if op[0] == "cycle")
        cl.add("cycles:%s" % ("0-3" if ncyc <= 3 else ("4-10" if ncyc <= 10 else ">10")))
        col.record(case, nontrivial, classes=sorted(cl), violations=vs)
        for k, n in counts.items():
            if n:
                col.count(k, n)

    H.run_chunks(col, cfg, cases(cfg["max_ops"]), body)
