"""C18 - instruction lines decompose into exactly their parts.

Statement: for any well-formed instruction line made of indentation, an optional threshold, an instruction name, an
optional argument and an optional comment, parsing recovers exactly those parts.  For Watch, Alarm and Simulate
arguments of the form 'tag operator value [unit]' it recovers the tag, operator, value and unit.

Case   : the PARTS (JSON), not the line:
           {"indent": 0..3, "threshold": null|"1.5", "name": "Mark", "arg": null|"free text",
            "tov": null|{"tag","sp1","op","sp2","value","sp3","unit"}, "comment": null|{"pre","post","text"}}
         line = "    "*indent + [threshold + " "] + name + [": " + arg] + [pre + "#" + post + text]
         (with "tov" the argument is tag+sp1+op+sp2+value[+sp3+unit])
Oracle : round trip.  The single line is parsed through the public path (create_method_parser(..).parse_method on a
         one-line ParserMethod) and the node must give back: position.character == 4*indent; threshold_part / threshold;
         instruction_name; arguments (stripped) and has_argument; has_comment / comment_part; and for tov cases
         tag_operator_value.tag_name / op / tag_value / tag_unit.
Domain : check_case validates every part against the line grammar documented in docs/src/Introduction.rst and
         Grammar.* (name starts with [A-Za-z0-9_], has no ':' '#', no trailing blank; argument has no '#', is stripped
         and non-empty; comment text does not start with a blank; nothing contains a line break) and returns [] for
         anything else.  Shapes the grammar does not define unambiguously are counted, not judged:
         a name that itself starts like a threshold ("5 Mark" without a threshold part), the operator "==" (the
         statement lists six operators), a tov part containing a second operator.
"""
from __future__ import annotations

import re

from hypothesis import strategies as st

from vp.core.framework import Violation, hyp_run, shard_seed

ID = "C18"
LEVEL = "exploration"
ENGINE = "pure"
DESIGN_REF = "DESIGN.md §3 C18"
TECHNIQUE = "part-wise round trip: Hypothesis generates the parts, the line is rendered from them and parsed back"
RULE = ("a case is the tuple of parts (indent level 0-3, optional threshold, instruction name - every built-in name, uod-style "
        "names and arbitrary unicode names from [A-Za-z0-9_][^:#]* -, optional argument - arbitrary unicode without '#', or "
        "'tag op value [unit]' for Watch/Alarm/Simulate with tag names / string values containing blanks, the six operators "
        "(Simulate: '='), every float spelling, every supported unit, 0-2 blanks around operator and unit -, optional comment "
        "with 0-3 blanks before and 0-2 after '#'). Non-trivial = at least 3 of the optional parts (indent>0, threshold, "
        "argument, comment) present, or a tag-operator-value argument whose operator shares characters with another one "
        "(<=, >=, !=, =). Distinct = distinct parts JSON.")
ASSUMPTIONS = [
    "well-formed line = the grammar of docs/src/Introduction.rst / parser.Grammar: one blank between threshold and name, ': ' "
    "between name and argument; names do not end in a blank, arguments are stripped and non-empty, no part contains a line break",
    "a name that starts like '<number><blank>' with no threshold part is ambiguous by the grammar itself: counted, not judged",
    "operator '==' (accepted by the parser, not among the six operators of the statement) is generated but only counted",
    "tag names and string values contain no operator characters (< > = !) and no '#'; a unit is only attached to numeric values",
    "the set of 'supported units' is openpectus.lang.exec.units.get_supported_units() of the tree under test",
    "'value' is compared as the source text of the number (tag_value), not as a float",
]
TIERS = {
    "quick": {"examples": 2000, "budget_s": 150},
    "thorough": {"examples": 62500, "budget_s": 1300},
}

TOV_NAMES = {"Watch": ["<", "<=", ">", ">=", "=", "!=", "=="], "Alarm": ["<", "<=", ">", ">=", "=", "!=", "=="], "Simulate": ["="]}
KNOWN_NAMES = ["Mark", "Block", "End block", "End blocks", "Batch", "Watch", "Alarm", "Macro", "Call macro", "Notify", "Base",
               "Increment run counter", "Run counter", "Wait", "Stop", "Pause", "Unpause", "Hold", "Unhold", "Restart", "Info",
               "Warning", "Error", "Simulate", "Simulate off", "Foo", "Bar baz", "Reset_2"]
_BREAKS = "\n\r\x0b\x0c\x1c\x1d\x1e\x85\u2028\u2029"
_THRESHOLD = re.compile(r"[0-9]+(\.[0-9]+)?\Z")
_THRESHOLD_LIKE_NAME = re.compile(r"\d+(\.\d+)?\s")
_NUM = re.compile(r"[+-]?([0-9]+(\.[0-9]*)?|\.[0-9]+)([eE][+-]?[0-9]+)?\Z")
_TAG = re.compile(r"[A-Za-z][A-Za-z0-9_ .%/-]*\Z")
_STRVAL = re.compile(r"[A-Za-z][A-Za-z0-9_ .-]*\Z")
_BLANKS = re.compile(r" {0,3}\Z")


def _num_shape(v: str) -> str:
    """spelling class of a numeric literal: plain | sign+ | sign- | dot-first | dot-last | exp / exp+ / exp- (joined by ',')"""
    parts = []
    if v[:1] in "+-":
        parts.append("sign" + v[0])
        v = v[1:]
    mant, _, ex = v.replace("E", "e").partition("e")
    if mant.startswith("."):
        parts.append("dot-first")
    if mant.endswith("."):
        parts.append("dot-last")
    if "e" in v.replace("E", "e"):
        parts.append("exp" + (ex[0] if ex[:1] in "+-" else ""))
    return ",".join(parts) or "plain"


def _has_break(s: str) -> bool:
    return any(ch in _BREAKS for ch in s) or any(0xD800 <= ord(ch) <= 0xDFFF for ch in s)


def supported_units():
    from openpectus.lang.exec import units as U
    return [u for u in U.get_supported_units() if u]


def render(case) -> str:
    arg = tov_arg(case["tov"]) if case.get("tov") else case.get("arg")
    s = "    " * case["indent"]
    if case.get("threshold") is not None:
        s += case["threshold"] + " "
    s += case["name"]
    if arg is not None:
        s += ": " + arg
    c = case.get("comment")
    if c is not None:
        s += c["pre"] + "#" + c["post"] + c["text"]
    return s


def tov_arg(t) -> str:
    s = t["tag"] + t["sp1"] + t["op"] + t["sp2"] + t["value"]
    if t.get("unit") is not None:
        s += t["sp3"] + t["unit"]
    return s


def _domain(case):
    """-> None (outside the domain) | ("ambiguous", why) | ("ok", None)"""
    if not isinstance(case, dict):
        return None
    ind, thr, name, arg, tov, com = (case.get(k) for k in ("indent", "threshold", "name", "arg", "tov", "comment"))
    if not (isinstance(ind, int) and not isinstance(ind, bool) and 0 <= ind <= 3):
        return None
    if thr is not None and not (isinstance(thr, str) and _THRESHOLD.match(thr) and len(thr) <= 40):
        return None
    if not (isinstance(name, str) and name and re.match(r"[A-Za-z0-9_]", name) and ":" not in name and "#" not in name
            and not _has_break(name) and name == name.rstrip()):
        return None
    if com is not None:
        if not (isinstance(com, dict) and all(isinstance(com.get(k), str) for k in ("pre", "post", "text"))):
            return None
        if not (_BLANKS.match(com["pre"]) and _BLANKS.match(com["post"]) and not _has_break(com["text"]) and com["text"] == com["text"].lstrip()):
            return None
    if tov is not None:
        if arg is not None or name not in TOV_NAMES or not isinstance(tov, dict):
            return None
        if not all(isinstance(tov.get(k), str) for k in ("tag", "sp1", "op", "sp2", "value", "sp3")):
            return None
        unit = tov.get("unit")
        if tov["op"] not in TOV_NAMES[name]:
            return None
        if not (_BLANKS.match(tov["sp1"]) and _BLANKS.match(tov["sp2"]) and _BLANKS.match(tov["sp3"])):
            return None
        if not (_TAG.match(tov["tag"]) and tov["tag"] == tov["tag"].rstrip()):
            return None
        numeric = bool(_NUM.match(tov["value"]))
        if not numeric and not (_STRVAL.match(tov["value"]) and tov["value"] == tov["value"].rstrip()):
            return None
        if unit is not None and not (isinstance(unit, str) and numeric and unit in supported_units()):
            return None
    elif arg is not None:
        if not (isinstance(arg, str) and arg and "#" not in arg and not _has_break(arg) and arg == arg.strip()):
            return None
    if thr is None and _THRESHOLD_LIKE_NAME.match(name):
        return ("ambiguous", "threshold-like-name")
    if tov is not None and tov["op"] == "==":
        return ("ambiguous", "operator==")
    return ("ok", None)


def evaluate(case):
    """-> (violations, classes, nontrivial)"""
    dom = _domain(case)
    if dom is None:
        return [], ["out-of-domain"], False
    if dom[0] == "ambiguous":
        return [], ["not-judged:" + dom[1]], False
    import openpectus.lang.model.ast as p
    from openpectus.lang.model.parser import ParserMethod, ParserMethodLine, create_method_parser
    line = render(case)
    tov, com, thr = case.get("tov"), case.get("comment"), case.get("threshold")
    arg = tov_arg(tov) if tov else case.get("arg")
    classes = ["indent:%d" % case["indent"], "threshold:" + ("yes" if thr is not None else "no"),
               "arg:" + ("tov" if tov else "free" if arg is not None else "none"), "comment:" + ("yes" if com is not None else "no"),
               "name:" + ("known" if case["name"] in KNOWN_NAMES else "arbitrary")]
    if any(ord(ch) > 126 or ord(ch) < 32 for ch in line):
        classes.append("has:non-ascii-or-control")
    optional = (case["indent"] > 0) + (thr is not None) + (arg is not None) + (com is not None)
    nontrivial = optional >= 3 or bool(tov and tov["op"] in ("<=", ">=", "!=", "="))
    if tov:
        classes += ["op:" + tov["op"], "value:" + ("numeric" if _NUM.match(tov["value"]) else "string"),
                    "unit:" + ("yes" if tov.get("unit") is not None else "no")]
        if " " in tov["tag"]:
            classes.append("tag:with-blank")

    method = ParserMethod(lines=[ParserMethodLine("the-line", line)])
    try:
        program = create_method_parser(method, ["Foo", "Bar baz", "Reset_2"]).parse_method(method)
    except Exception as e:   # a raising parser is a failed round trip (totality itself is C17)
        return [Violation("raises:%s" % type(e).__name__, "parsing %r raised %s: %s" % (line, type(e).__name__, e), case)], classes, nontrivial
    kids = list(program.children)
    if len(kids) != 1:
        return [Violation("not-one-node", "line %r gave %d nodes" % (line, len(kids)), case)], classes, nontrivial
    n = kids[0]
    out: list[Violation] = []

    def bad(sig, what, got, exp):
        out.append(Violation(sig, "%s: got %r, expected %r for line %r" % (what, got, exp, line), case))

    if isinstance(n, p.WhitespaceNode) or (isinstance(n, p.ErrorInstructionNode) and n.instruction_part == ""):
        return [Violation("line-not-matched:%s" % type(n).__name__, "well-formed line %r was not decomposed at all (%s)" % (line, type(n).__name__), case)], classes, nontrivial
    if n.position.character != 4 * case["indent"]:
        bad("part:indent", "position.character", n.position.character, 4 * case["indent"])
    exp_thr_part = thr or ""
    if n.threshold_part != exp_thr_part:
        bad("part:threshold", "threshold_part", n.threshold_part, exp_thr_part)
    elif (n.threshold is None) != (thr is None) or (thr is not None and n.threshold != float(thr)):
        bad("part:threshold-value", "threshold", n.threshold, None if thr is None else float(thr))
    if n.instruction_name != case["name"]:
        bad("part:name", "instruction_name", n.instruction_name, case["name"])
    if n.arguments != (arg or ""):
        bad("part:arguments", "arguments", n.arguments, arg or "")
    if bool(n.has_argument) != (arg is not None):
        bad("part:has_argument", "has_argument", n.has_argument, arg is not None)
    if bool(n.has_comment) != (com is not None):
        bad("part:has_comment", "has_comment", n.has_comment, com is not None)
    if n.comment_part != (com["text"] if com else ""):
        bad("part:comment", "comment_part", n.comment_part, com["text"] if com else "")
    if tov:
        t = getattr(n, "tag_operator_value", None)
        if not isinstance(n, p.NodeWithTagOperatorValue) or t is None:
            bad("tov:missing", "tag_operator_value", t, "a TagOperatorValue on a %s node" % case["name"])
        else:
            if t.op != tov["op"]:
                bad("tov:op:%s" % tov["op"], "operator", t.op, tov["op"])
            if t.tag_name != tov["tag"]:
                bad("tov:tag", "tag_name", t.tag_name, tov["tag"])
            unit = tov.get("unit")
            if t.tag_unit != unit:
                if unit is None and t.tag_unit and (t.tag_value or "") + t.tag_unit == tov["value"]:
                    sig = "tov:number-tail-read-as-unit"            # e.g. '12' -> value '1' unit '2', '5e3' -> value '5' unit 'e3'
                elif unit is not None and t.tag_unit is None:
                    shape = _num_shape(tov["value"])
                    if any(ord(ch) > 127 for ch in unit):
                        sig = "tov:unit-not-recognised:non-ascii-unit"       # degree sign / micro sign are outside Grammar.unit_re
                    elif shape != "plain":
                        sig = "tov:unit-not-recognised:number-shape:%s" % shape
                    else:
                        sig = "tov:unit-not-recognised:%s" % unit
                else:
                    sig = "tov:unit:%s" % unit
                bad(sig, "tag_unit (tag_value=%r)" % (t.tag_value,), t.tag_unit, unit)
            elif t.tag_value != tov["value"]:
                bad("tov:value:%s" % ("numeric" if _NUM.match(tov["value"]) else "string"), "tag_value", t.tag_value, tov["value"])
    return out, classes, nontrivial


def check_case(case) -> list[Violation]:
    return evaluate(case)[0]


# ---- generators -----------------------------------------------------------------------------------------------

_NO = "".join(sorted(set(_BREAKS + ":#")))
_name_rest = st.text(alphabet=st.characters(exclude_characters=_NO, exclude_categories=["Cs"]), max_size=12)
_name_first = st.sampled_from(list("ABCMWXabmwxz019_"))
_free_arg = st.one_of(
    st.text(alphabet=st.characters(exclude_characters=_BREAKS + "#", exclude_categories=["Cs"]), min_size=1, max_size=16),
    st.lists(st.sampled_from(["a", "B", "12", "0.5", "s", "mL", ":", ": ", " ", "  ", "<", "<=", "=", "!=", ">", ">=", "==", "x y", ",", "'q'", "\t", "\xa0", "\xb0C", "%"]),
             min_size=1, max_size=7).map("".join),
    st.sampled_from(["A", "0.5s", "1 min", "foo bar='baz'", "a: b", "x > 3", "T >= 5 degC", "Run Counter = 2", ": x", "a :b", "1", "\xb5"]),
)
_comment_text = st.one_of(
    st.text(alphabet=st.characters(exclude_characters=_BREAKS, exclude_categories=["Cs"]), max_size=14),
    st.sampled_from(["", "c", "no comment", "# x", "a # b", "x: y", "Mark: A", "1.0 x", "t  ", "\xa0"]),
)
_tag = st.one_of(st.sampled_from(["T", "Run Counter", "Block Time", "Scope Time", "x", "Flow.rate", "A_1", "UV %", "P-1/2", "a b c"]),
                 st.from_regex(r"[A-Za-z][A-Za-z0-9_ .%/-]{0,10}", fullmatch=True))
_num = st.one_of(st.sampled_from(["0", "5", "-5", "+5", "5.", ".5", "0.98", "-.5", "5e3", "5E-3", "1.5e+10", "007", "12.50", "+.5e3", "1e0"]),
                 st.from_regex(r"[+-]?([0-9]{1,6}(\.[0-9]{0,4})?|\.[0-9]{1,4})([eE][+-]?[0-9]{1,2})?", fullmatch=True))
_strval = st.one_of(st.sampled_from(["Running", "Area 1", "A", "on", "e5", "inf", "nan", "x-1", "v1.2"]),
                    st.from_regex(r"[A-Za-z][A-Za-z0-9_ .-]{0,8}", fullmatch=True))


@st.composite
def cases(draw, units):
    # the discrete skeleton comes from a Hypothesis-seeded Random (uniform shares; Hypothesis' own sampled_from is biased
    # towards the first elements), the text parts from Hypothesis strategies
    r = draw(st.randoms(use_true_random=True))
    pick = lambda seq: seq[r.randrange(len(seq))]
    kind = pick(["tov", "tov", "known", "known", "arbitrary"])
    case = {"indent": pick([0, 0, 1, 2, 3]), "threshold": None, "name": None, "arg": None, "tov": None, "comment": None}
    if r.random() < 0.5:
        case["threshold"] = pick(["0", "1", "1.0", "5", "0.5", "12.75", "007", "3.0001"]) if r.random() < 0.5 else \
            draw(st.from_regex(r"[0-9]{1,5}(\.[0-9]{1,4})?", fullmatch=True))
    if kind == "tov":
        name = pick(["Watch", "Watch", "Alarm", "Alarm", "Simulate"])
        case["name"] = name
        numeric = r.random() < 0.7
        unit = pick(units) if numeric and r.random() < 0.6 else None
        tag = draw(_tag).rstrip()
        val = draw(_num) if numeric else draw(_strval).rstrip()
        sp = ["", " ", " ", "  "]
        case["tov"] = {"tag": tag, "sp1": pick(sp), "op": pick(TOV_NAMES[name]), "sp2": pick(sp), "value": val,
                       "sp3": pick(sp) if unit is not None else "", "unit": unit}
    else:
        if kind == "known":
            case["name"] = pick(KNOWN_NAMES)
        else:
            case["name"] = (draw(_name_first) + draw(_name_rest)).rstrip()
        if r.random() < 0.75:
            a = draw(_free_arg).strip()
            case["arg"] = a if a else None
    if r.random() < 0.5:
        case["comment"] = {"pre": pick(["", " ", " ", "  ", "   "]), "post": pick(["", " ", " ", "  "]), "text": draw(_comment_text).lstrip()}
    return case


def run_shard(col, cfg):
    units = supported_units()

    def body(case):
        vs, classes, nontrivial = evaluate(case)
        col.record(case, nontrivial, classes=classes, violations=vs, sample={"line": render(case), "parts": case} if classes != ["out-of-domain"] else None)

    hyp_run(cases(units), body, cfg["examples"], shard_seed(col.seed, col.shard), col)


def shrink_hints(case):
    if not isinstance(case, dict):
        return
    for k in ("threshold", "comment", "arg"):
        if case.get(k) is not None:
            yield dict(case, **{k: None})
    if case.get("indent"):
        yield dict(case, indent=0)
    t = case.get("tov")
    if isinstance(t, dict):
        for k, v in (("sp1", " "), ("sp2", " "), ("sp3", " "), ("tag", "T"), ("value", "5"), ("unit", None)):
            if t.get(k) != v:
                yield dict(case, tov=dict(t, **{k: v}))
    c = case.get("comment")
    if isinstance(c, dict):
        for k, v in (("pre", " "), ("post", " "), ("text", "c")):
            if c.get(k) != v:
                yield dict(case, comment=dict(c, **{k: v}))
    if case.get("name") not in ("Mark", "Watch", "Alarm", "Simulate"):
        yield dict(case, name="Mark")
