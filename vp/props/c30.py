"""C30 — each run yields exactly one recent run and exactly one plot log.

Case    : {"ops": [...]} — engine-side operations of vp.harness.agg_h (register / connect / disconnect / uod_info /
          tags / run_started / run_stopped) for engine E1 and sometimes a second engine E2.  The generator writes
          the story of 1-3 sequential runs and then damages it the way a lossy link does: notifications duplicated,
          resent after a reconnect, swapped, moved, dropped; disconnect + re-register blocks in between.
Oracle  : row counts per run id, read from the database after every executed operation:
            PlotLogs(run_id)   > 1   -> dup-plotlog:start-of-active-run    (RunStarted(r) while r is the active run)
                                        dup-plotlog:start-of-finished-run  (RunStarted(r) while a RecentRun(r) exists)
                                        dup-plotlog:<pattern>              (anything else)
            RecentRuns(run_id) > 1   -> dup-recentrun:finished-run-reactivated (r had been started again after it was stored)
                                        dup-recentrun:<pattern>                (anything else)
            RunStarted(r) answered Success but no PlotLog(r)         -> missing-plotlog:<pattern>
            RunStopped(r) answered Success, a RunStarted(r) was answered Success earlier, no RecentRun(r)
                                                                     -> missing-recentrun:<pattern>
          <pattern> = <message kind>:active=<same|other|none>[:after-stop] — the relation of the message's run id to
          the run that was active on the engine immediately before the message, and whether a RecentRun of that id
          already existed; i.e. the branch of run_started/run_stopped that produced the row.
Not judged: runs whose stop was only ever delivered before their start (at most one record each is still required).
"""
from __future__ import annotations

from hypothesis import strategies as st

from vp.core.framework import Violation, hyp_run, shard_seed
from vp.harness.agg_h import AggHarness

ID = "C30"
LEVEL = "exploration"
ENGINE = "aggregator_harness"
DESIGN_REF = "DESIGN.md §3 C30"
TECHNIQUE = "generated message histories (story of sequential runs + duplication/resend/reorder/drop/reconnect mutations) on the real aggregator with sqlite; per-run-id row-count invariants checked after every message"
RULE = ("Hypothesis writes the message story of 1-3 sequential runs (optionally a second engine) and applies 0-5 mutations "
        "(duplicate a run notification later in the stream, resend it after a disconnect+re-register, swap/move/drop "
        "notifications, insert reconnects). Non-trivial = at least one run-started/run-stopped notification is delivered "
        "twice or out of its story order. Distinct = distinct operation list.")
ASSUMPTIONS = [
    "run ids are unique per run (engine generates uuids); two engines never use the same run id",
    "messages are only delivered while the engine has a registered websocket; operations that are impossible in the current connection state are skipped by the harness",
    "no aggregator restart in this property (C28 covers restarts)",
    "a run whose RunStopped was delivered only before its RunStarted is not required to have a RecentRun (the aggregator cannot know it ended); it must still not have two",
]
TIERS = {
    "quick": {"cases": 3000, "budget_s": 170},
    "thorough": {"cases": 200000, "budget_s": 800},
}
T0 = AggHarness.T0
ENGINES = ["E1", "E2"]


# ---- oracle --------------------------------------------------------------------------------------------

def _counts(rows):
    out: dict[str, int] = {}
    for r in rows:
        out[r["run_id"]] = out.get(r["run_id"], 0) + 1
    return out


def _run(case):
    out: list[Violation] = []
    classes: set[str] = set()
    ops = case.get("ops") if isinstance(case, dict) else None
    if not isinstance(ops, list):
        return out, classes, False
    started_ok: set[str] = set()           # run ids with a RunStarted answered Success
    delivered: list[tuple[str, str]] = []  # (kind, run) of delivered run notifications, in order
    reported: set[tuple[str, str]] = set()
    reactivated: set[str] = set()          # run ids started again (Success) after a RecentRun of that id existed
    with AggHarness() as h:
        pl_before, rr_before = {}, {}
        for idx, op in enumerate(ops):
            if not isinstance(op, dict) or op.get("op") not in ("register", "connect", "disconnect", "uod_info", "tags",
                                                                "run_started", "run_stopped", "advance"):
                continue
            if op.get("op") != "advance" and op.get("engine") not in ENGINES:
                continue
            kind = op["op"]
            name = op.get("engine")
            active_before = h.active_run(name) if name in ENGINES else None
            res = h.apply(op)
            if res["skipped"] is not None:
                classes.add("skipped:" + res["skipped"])
                continue
            if res.get("reply") == "ProtocolErrorMessage":
                classes.add("handler-error:" + kind)
            pl, rr = _counts(h.plot_logs()), _counts(h.recent_runs())
            pattern = kind
            run = op.get("run") if kind in ("run_started", "run_stopped") else None
            if run is not None:
                rel = "none" if active_before is None else ("same" if active_before == run else "other")
                pattern = "%s:active=%s%s" % (kind, rel, ":after-stop" if rr_before.get(run, 0) > 0 else "")
                classes.add("branch:" + pattern)
                if res.get("reply") == "SuccessMessage":
                    delivered.append((kind, run))
            if kind == "run_started" and res.get("reply") == "SuccessMessage" and rr_before.get(run, 0) > 0:
                reactivated.add(run)       # a finished (already stored) run was started again
            for rid in sorted(pl):
                if pl[rid] > 1 and pl[rid] > pl_before.get(rid, 0) and ("pl", rid) not in reported:
                    reported.add(("pl", rid))
                    if kind == "run_started" and rid == run and rr_before.get(rid, 0) > 0:
                        sig = "dup-plotlog:start-of-finished-run"
                    elif kind == "run_started" and rid == run and active_before == run:
                        sig = "dup-plotlog:start-of-active-run"
                    else:
                        sig = "dup-plotlog:" + pattern
                    out.append(Violation(sig, "op %d %r: run %s now has %d PlotLog rows (active run before the message: %r, RecentRun rows before: %d)"
                                         % (idx, op, rid, pl[rid], active_before, rr_before.get(rid, 0)), case))
            for rid in sorted(rr):
                if rr[rid] > 1 and rr[rid] > rr_before.get(rid, 0) and ("rr", rid) not in reported:
                    reported.add(("rr", rid))
                    sig = "dup-recentrun:finished-run-reactivated" if rid in reactivated else "dup-recentrun:" + pattern
                    out.append(Violation(sig, "op %d %r: run %s now has %d RecentRun rows (active run before the message: %r; run was %sstarted again after it had been stored)"
                                         % (idx, op, rid, rr[rid], active_before, "" if rid in reactivated else "NOT "), case))
            if run is not None and res.get("reply") == "SuccessMessage":
                if kind == "run_started":
                    started_ok.add(run)
                    if pl.get(run, 0) == 0:
                        out.append(Violation("missing-plotlog:" + pattern, "op %d %r answered Success but run %s has no PlotLog row" % (idx, op, run), case))
                elif run in started_ok and rr.get(run, 0) == 0:
                    out.append(Violation("missing-recentrun:" + pattern, "op %d %r answered Success, RunStarted(%s) was accepted earlier, but there is no RecentRun row "
                                         "(active run before the message: %r)" % (idx, op, run, active_before), case))
            pl_before, rr_before = pl, rr
    # non-triviality: a notification delivered twice, or a stop delivered before the first start of its run
    seen: set[tuple[str, str]] = set()
    nontrivial = False
    for k, r in delivered:
        if (k, r) in seen:
            nontrivial = True
            classes.add("delivered-twice:" + k)
        if k == "run_stopped" and ("run_started", r) not in seen:
            nontrivial = True
            classes.add("stop-before-start")
        seen.add((k, r))
    order = [r for k, r in delivered if k == "run_started"]
    first = []
    for r in order:
        if r not in first:
            first.append(r)
    if first != sorted(first):
        nontrivial = True
        classes.add("runs-out-of-story-order")
    return out, classes, nontrivial


def check_case(case) -> list[Violation]:
    return _run(case)[0]


# ---- generator -------------------------------------------------------------------------------------------

def _connect_block(e, interval):
    return [{"op": "register", "engine": e}, {"op": "connect", "engine": e},
            {"op": "uod_info", "engine": e, "readings": ["A", "B"], "interval": interval, "annotate": ["Mark"]}]


@st.composite
def histories(draw):
    interval = draw(st.sampled_from([0.0, 0.5, 1.0, 5.0]))
    two = draw(st.integers(0, 3)) == 0
    t = T0
    ops: list[dict] = []
    # ---- the undamaged story ---------------------------------------------------------------------
    for e in (ENGINES if two else ENGINES[:1]):
        ops += _connect_block(e, interval)
        ops.append({"op": "tags", "engine": e, "run": None, "tags": [["A", 1, t], ["B", 0.5, t], ["System State", "Stopped", t]]})
    stories = {}
    for e in (ENGINES if two else ENGINES[:1]):
        nruns = draw(st.integers(1, 3 if e == "E1" else 2))
        st_ops = []
        for k in range(nruns):
            run = "%s-run%d" % (e.lower(), k + 1)
            t += 1.0
            st_ops.append({"op": "run_started", "engine": e, "run": run, "t": t})
            for _ in range(draw(st.integers(0, 2))):
                t += draw(st.sampled_from([0.5, 1.0, 6.0]))
                st_ops.append({"op": "tags", "engine": e, "run": run, "tags": [["A", draw(st.integers(0, 9)), t]]})
            t += 1.0
            st_ops.append({"op": "run_stopped", "engine": e, "run": run})
            if draw(st.integers(0, 3)) == 0:
                t += 1.0
                st_ops.append({"op": "tags", "engine": e, "run": None, "tags": [["A", 0, t]]})
        stories[e] = st_ops
    # interleave the engines' stories (each engine's own order is kept)
    body: list[dict] = []
    cursors = {e: 0 for e in stories}
    while any(cursors[e] < len(stories[e]) for e in stories):
        avail = [e for e in sorted(stories) if cursors[e] < len(stories[e])]
        e = avail[0] if len(avail) == 1 else draw(st.sampled_from(avail))
        body.append(stories[e][cursors[e]])
        cursors[e] += 1
    # ---- damage ------------------------------------------------------------------------------------
    nmut = draw(st.integers(0, 5))
    for _ in range(nmut):
        notif = [i for i, o in enumerate(body) if o["op"] in ("run_started", "run_stopped")]
        if not notif:
            break
        m = draw(st.sampled_from(["dup", "dup", "resend", "resend", "swap", "move", "drop", "reconnect", "reconnect"]))
        i = draw(st.sampled_from(notif))
        if m == "dup":          # the same notification again, somewhere later
            j = draw(st.integers(i + 1, len(body)))
            body.insert(j, dict(body[i]))
        elif m == "resend":     # reply lost: link drops, engine re-registers and sends the buffered notification again
            e = body[i]["engine"]
            j = draw(st.integers(i + 1, min(len(body), i + 3)))
            body[j:j] = [{"op": "disconnect", "engine": e}] + _connect_block(e, interval) + [dict(body[i])]
        elif m == "swap":
            later = [k for k in notif if k > i]
            if later:
                k = later[0]
                body[i], body[k] = body[k], body[i]
        elif m == "move":
            o = body.pop(i)
            body.insert(draw(st.integers(0, len(body))), o)
        elif m == "drop":
            body.pop(i)
        else:
            e = body[i]["engine"]
            j = draw(st.integers(0, len(body)))
            body[j:j] = [{"op": "disconnect", "engine": e}] + _connect_block(e, interval)
    return {"ops": ops + body}


def run_shard(col, cfg):
    per_shard = max(1, cfg["cases"] // col.nshards)

    def body(case):
        vs, classes, nontrivial = _run(case)
        kinds = [o["op"] for o in case["ops"]]
        if kinds.count("disconnect"):
            classes.add("with-reconnect")
        if any(o.get("engine") == "E2" for o in case["ops"]):
            classes.add("two-engines")
        col.record(case, nontrivial, classes=sorted(classes), violations=vs)

    hyp_run(histories(), body, per_shard, shard_seed(col.seed, col.shard), col)


def shrink_hints(case):
    ops = case.get("ops", [])
    only_e1 = [o for o in ops if o.get("engine", "E1") == "E1"]
    if len(only_e1) < len(ops):
        yield {"ops": only_e1}
    no_tags = [o for o in ops if o.get("op") != "tags"]
    if len(no_tags) < len(ops):
        yield {"ops": no_tags}
