"""C35 — error-log aggregation loses nothing and counts repeats.

Subject : openpectus.aggregator.models.AggregatedErrorLog.aggregate_with (called once per ErrorLogMsg by
          Aggregator.from_engine.error_log_changed on a log that starts empty).
Domain  : sequences of batches (ErrorLog) of (message, severity, created_time) entries over a small alphabet so that
          consecutive repeats are frequent; batches are re-delivered identically, re-delivered overlapping
          (tail of the previous batch + new entries) and interleaved with other messages; empty batches occur.
Oracle  : reference model written from the statement (DESIGN Appendix A.4), run entry by entry in arrival order:
            same (message, severity) as the last aggregated entry and
               time >  last.time -> merge   (occurrences + 1, time = new time)
               time == last.time -> redelivered duplicate (dropped, counted)
               time <  last.time -> OPEN CASE, the statement is silent: dropping it, merging it (occurrences + 1,
                                    time stays the latest) or appending it are all accepted and the case is only
                                    classified
            otherwise append (message, severity, time, 1).
          After EVERY batch the implementation's entry list must equal one of the model's candidate lists
          (the candidates are then narrowed to the ones the implementation chose).  From equality follow the stated
          invariants, which are nevertheless checked on their own for narrow signatures:
            sum(occurrences) + duplicates + open-dropped == number of input entries   ("never loses an entry")
            key sequence of the aggregate == input key sequence with consecutive repeats collapsed  ("keep their order")
            merged time == max time of the merged run.
"""
from __future__ import annotations

from hypothesis import strategies as st

from vp.core.framework import Violation, hyp_run, shard_seed

# imported at module level on purpose: the runner imports this module before it forks the shard workers, so the (slow)
# import of the aggregator package happens once in the parent instead of concurrently in every worker
import openpectus.aggregator.models as AggMdl
import openpectus.protocol.models as Mdl

ID = "C35"
LEVEL = "exploration"
ENGINE = "pure"
DESIGN_REF = "DESIGN.md §3 C35, Appendix A.4"
TECHNIQUE = "Hypothesis-generated batch histories against an entry-by-entry reference model of the stated aggregation law (open case forked, compared after every batch)"
RULE = ("a case is a list of 1..6 batches of 0..6 (message, severity, created_time) entries over 3 messages x 2 severities; "
        "batches are fresh, an identical redelivery of the previous batch, an overlapping redelivery (tail of the previous "
        "batch + fresh entries) or entries with an earlier time. Non-trivial = the reference model performs >= 1 merge AND "
        ">= 1 identical-time duplicate drop. Distinct = distinct batch lists.")
ASSUMPTIONS = [
    "the aggregated log starts empty (EngineData.error_log is AggregatedErrorLog.empty() at registration)",
    "same message+severity with an EARLIER time than the last aggregated entry is left open by the statement: drop, merge "
    "(time stays the latest) and append are all accepted; such cases are only counted (class open-case)",
    "created_time values are finite floats; severities are ints (logging levels)",
    "a redelivered batch with >= 2 distinct entries is, per the stated law, not detectable (its first entry differs from the "
    "last aggregated one) and is appended again; the model follows the statement here",
]
TIERS = {
    "quick": {"examples": 2000, "budget_s": 150},
    "thorough": {"examples": 60000, "budget_s": 800},
}

MESSAGES = ["A", "B", "C"]
SEVERITIES = [30, 40]


# ---- reference model -------------------------------------------------------------------------------

def _model_step(state, entry):
    """state = (entries tuple of (msg, sev, t, occ), dups, open_dropped, merges, open_seen) -> list of successor states."""
    entries, dups, opn, merges, open_seen = state
    m, s, t = entry
    if entries and entries[-1][0] == m and entries[-1][1] == s:
        lm, ls, lt, lo = entries[-1]
        if t > lt:
            return [(entries[:-1] + ((m, s, t, lo + 1),), dups, opn, merges + 1, open_seen)]
        if t == lt:
            return [(entries, dups + 1, opn, merges, open_seen)]
        return [
            (entries, dups, opn + 1, merges, open_seen + 1),                                  # treated as duplicate
            (entries[:-1] + ((m, s, lt, lo + 1),), dups, opn, merges, open_seen + 1),           # merged, latest time kept
            (entries + ((m, s, t, 1),), dups, opn, merges, open_seen + 1),                      # appended
        ]
    return [(entries + ((m, s, t, 1),), dups, opn, merges, open_seen)]


def _valid_case(case) -> bool:
    if not isinstance(case, dict) or not isinstance(case.get("batches"), list) or case.get("via", "model") not in ("model", "aggregator"):
        return False
    for b in case["batches"]:
        if not isinstance(b, list):
            return False
        for e in b:
            if not (isinstance(e, list) and len(e) == 3 and isinstance(e[0], str) and isinstance(e[1], int)
                    and not isinstance(e[1], bool) and isinstance(e[2], (int, float)) and not isinstance(e[2], bool)):
                return False
            if e[2] != e[2] or e[2] in (float("inf"), float("-inf")):
                return False
    return True


def _diff_sig(impl, cand):
    """narrow signature for the first difference between the implementation's list and a candidate list."""
    ik = [(e[0], e[1]) for e in impl]
    ck = [(e[0], e[1]) for e in cand]
    if ik != ck:
        if len(ik) < len(ck):
            return "entries-missing"
        if len(ik) > len(ck):
            return "entries-extra"
        return "order"
    for a, b in zip(impl, cand):
        if a[3] != b[3]:
            return "occurrences"
        if a[2] != b[2]:
            return "time-not-latest"
    return "other"


class _ViaAggregator:
    """The same law observed one level up: every batch is delivered as an ErrorLogMsg to the real aggregator (message
    handler -> Aggregator.from_engine.error_log_changed) and the aggregated entries are read from the unit's EngineData."""

    def __init__(self):
        from vp.harness.agg_h import AggHarness
        self.h = AggHarness(db="memory")
        self.h.__enter__()
        for op in ({"op": "register", "engine": "E1"}, {"op": "connect", "engine": "E1"},
                   {"op": "uod_info", "engine": "E1", "readings": ["A"], "interval": 1.0, "annotate": []}):
            self.h.apply(op)
        if self.h.engine_data("E1") is None:
            raise RuntimeError("harness: engine E1 did not register")

    def aggregate_with(self, log):
        r = self.h.apply({"op": "msg", "engine": "E1", "type": "ErrorLogMsg", "fields": {"log": log}})
        if r.get("skipped") is not None or r.get("reply") != "SuccessMessage":
            raise RuntimeError("harness: ErrorLogMsg not delivered: %r" % (r,))

    @property
    def entries(self):
        return self.h.engine_data("E1").error_log.entries

    def close(self):
        self.h.__exit__(None, None, None)


def analyse(case):
    """-> (violations, info) ; info has merges/dups/open counts of the accepted model path."""
    via = case.get("via", "model") if isinstance(case, dict) else "model"
    if via == "aggregator":
        agg = _ViaAggregator()
        try:
            return _analyse(case, agg, ":via-aggregator")
        finally:
            agg.close()
    return _analyse(case, AggMdl.AggregatedErrorLog.empty(), "")


def _analyse(case, agg, suffix):
    cands = [((), 0, 0, 0, 0)]
    n_in = 0
    out: list[Violation] = []
    for bi, batch in enumerate(case["batches"]):
        log = Mdl.ErrorLog(entries=[Mdl.ErrorLogEntry(message=m, severity=s, created_time=float(t)) for m, s, t in batch])
        try:
            agg.aggregate_with(log)
        except RuntimeError:
            raise
        except Exception as ex:   # the subject (not the harness) failed
            return [Violation("aggregate-raises:%s" % type(ex).__name__, "aggregate_with raised %s: %s on batch %d" % (type(ex).__name__, ex, bi), case)], \
                {"merges": 0, "dups": 0, "open": 0, "n": n_in}
        for m, s, t in batch:
            n_in += 1
            nxt = []
            for c in cands:
                nxt.extend(_model_step(c, (m, s, float(t))))
            cands = nxt
        impl = tuple((e.message, e.severity, e.created_time, e.occurrences) for e in agg.entries)
        matching = [c for c in cands if c[0] == impl]
        if not matching:
            ref = cands[0]   # the "drop" reading of every open case = what the code documents in its log messages
            kind = _diff_sig(impl, ref[0])
            total = sum(e[3] for e in impl)
            accounted = {c[1] + c[2] for c in cands}
            if all(total + a < n_in for a in accounted):
                kind = "lost:" + kind
            out.append(Violation("aggregate:" + kind + suffix,
                                 "after batch %d the aggregate is %r; the stated law gives %r (inputs so far %d, sum of occurrences %d)"
                                 % (bi, list(impl), list(ref[0]), n_in, total), case))
            return out, {"merges": ref[3], "dups": ref[1], "open": ref[4], "n": n_in}
        # de-duplicate identical candidate states, keep deterministic order
        seen, cands = set(), []
        for c in matching:
            if c not in seen:
                seen.add(c)
                cands.append(c)
    c = cands[0]
    impl = c[0]
    # independent invariants (redundant with equality, kept for narrow signatures should the model ever be relaxed)
    total = sum(e[3] for e in impl)
    if total + c[1] + c[2] != n_in:
        out.append(Violation("invariant:count", "sum(occurrences)=%d + duplicates=%d + open-dropped=%d != inputs=%d" % (total, c[1], c[2], n_in), case))
    return out, {"merges": c[3], "dups": c[1], "open": c[4], "n": n_in}


def check_case(case) -> list[Violation]:
    if not _valid_case(case):
        return []
    return analyse(case)[0]


# ---- generator -----------------------------------------------------------------------------------------

@st.composite
def histories(draw):
    nb = draw(st.integers(1, 6))
    batches: list[list] = []
    now = draw(st.sampled_from([0.0, 10.0, 1700000000.0]))
    last_key = None
    for _ in range(nb):
        kind = draw(st.sampled_from(["fresh", "fresh", "fresh", "redeliver", "overlap", "earlier"])) if batches and batches[-1] else "fresh"
        batch: list = []
        if kind == "redeliver":
            batch = [list(e) for e in batches[-1]]
        else:
            if kind == "overlap":
                k = draw(st.integers(1, len(batches[-1])))
                batch = [list(e) for e in batches[-1][-k:]]
            n = draw(st.integers(0, 6 - len(batch))) if kind != "fresh" else draw(st.integers(0, 6))
            for _j in range(n):
                # repeat the previous key with high probability so that merges are common
                if last_key is not None and draw(st.integers(0, 9)) < 6:
                    key = last_key
                else:
                    key = (draw(st.sampled_from(MESSAGES)), draw(st.sampled_from(SEVERITIES)))
                step = draw(st.sampled_from([0.0, 0.25, 0.25, 1.0, 1.0, 2.5]))
                if kind == "earlier" and draw(st.booleans()):
                    t = now - draw(st.sampled_from([0.25, 1.0, 3.0]))
                else:
                    now = now + step
                    t = now
                batch.append([key[0], key[1], t])
                last_key = key
        if batch:
            last_key = (batch[-1][0], batch[-1][1])
        batches.append(batch)
    return {"batches": batches}, None


def run_shard(col, cfg):
    n_seen = [0]

    def body(x):
        case, _ = x
        n_seen[0] += 1
        if n_seen[0] % cfg.get("via_aggregator_every", 8) == 0:
            case = dict(case, via="aggregator")
        vs, info = analyse(case)
        kinds = []
        if info["merges"]:
            kinds.append("has-merge")
        if info["dups"]:
            kinds.append("has-identical-time-duplicate")
        if info["open"]:
            kinds.append("open-case(earlier time)")
        nb = [b for b in case["batches"]]
        if any(i > 0 and nb[i] and nb[i] == nb[i - 1] for i in range(len(nb))):
            kinds.append("identical-batch-redelivered")
        if any(not b for b in nb):
            kinds.append("has-empty-batch")
        kinds.append("via:" + case.get("via", "model"))
        kinds.append("entries:%s" % ("0" if info["n"] == 0 else "1-5" if info["n"] <= 5 else "6-15" if info["n"] <= 15 else "16+"))
        col.record(case, bool(info["merges"] and info["dups"]), classes=kinds, violations=vs)

    hyp_run(histories(), body, cfg["examples"], shard_seed(col.seed, col.shard), col)


def shrink_hints(case):
    # drop whole batches / merge all batches into one
    b = case["batches"]
    extra = {"via": case["via"]} if "via" in case else {}
    for i in range(len(b)):
        yield dict({"batches": b[:i] + b[i + 1:]}, **extra)
    for bi, batch in enumerate(b):
        for ei in range(len(batch)):
            yield dict({"batches": b[:bi] + [batch[:ei] + batch[ei + 1:]] + b[bi + 1:]}, **extra)
    # normalise times to small integers keeping their order
    ts = sorted({e[2] for batch in b for e in batch})
    rank = {t: float(i) for i, t in enumerate(ts)}
    yield dict({"batches": [[[e[0], e[1], rank[e[2]]] for e in batch] for batch in b]}, **extra)
