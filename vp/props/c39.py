"""C39 — the local run archive reads back exactly.

The real `ArchiverTag` (openpectus/engine/archiver.py) is driven in two ways:

kind "standalone": {"kind": "standalone", "interval": s, "tags": [tagspec...], "ops": [op...], "runlog": [[name, start, end|None]...]}
    tagspec = {"kind": "plain"|"reading"|"select"|"mark"|"skip"|"archiver", "name": str, "unit": str|None,
               "value": val, "choices": [str]}          val = ["f","1.5"] | ["i",3] | ["s","txt"] | ["d","1.10"] | ["n"]
    op      = {"op": "start"} | {"op": "stop"} | {"op": "tick", "dt": s, "sets": [[tag index, val]], "marks": [str]}
    The harness plays the event emitter (`_on_before_start` + `on_start`, `on_tick`, `on_stop`).
kind "engine": {"kind": "engine", "interval": s, "tags": [tagspec...], "method": [line...], "ticks": n, "second_run": bool}
    a real `Engine(uod, enable_archiver=True)` on a virtual clock runs a generated method (Mark / Batch / Block /
    Wait lines whose arguments carry the nasty characters) so Mark texts go through the real parser and MarkTag.

In both kinds the archiver's data directory is redirected into a `tempfile.mkdtemp()` directory by substituting the
module's `__file__` while the ArchiverTag is constructed (the harness verifies the resulting `data_path` before
anything else runs; nothing is written into the repo), the module's `time` and `datetime` are replaced by a virtual
clock, and every tag's `archive()` is wrapped on the instance so that the harness sees exactly the strings the
archiver was given ("captured at write time" — calling `archive()` a second time would reset the Mark tag).

Oracle (round trip).  The file is read back with Python's csv module using the dialect the archiver module itself
declares (`delimiter`, `quoting`, `escapechar`, `encoding`).  For every run:
    rows:count            number of data rows == number of archive passes made during on_tick
    columns:*             every data row has len(row) == len(header)  (row-split:<char class> | header-vs-archived-tags)
    cell:<char class>     cells 1.. of data row k == the non-None archive() strings of pass k, in order
    readback:<Type>       the file can be decoded/parsed at all with the declared encoding and dialect
    archiver-raises:<ev>  on_start/on_tick/on_stop must not raise for in-domain input
    runlog-file:*         same two checks for the run-log file written at on_stop (3 columns, command names read back)
Not judged (statement silent): the Datetime cell, the header labels (classified as header-labels:ok/differ), which
tags are archived, row cadence.
"""
from __future__ import annotations

import contextlib
import csv
import decimal
import os
import shutil
import tempfile
import unicodedata
from datetime import datetime as _real_datetime

from hypothesis import strategies as st

from vp.core.framework import Violation, hyp_run, shard_seed

ID = "C39"
LEVEL = "exploration"
ENGINE = "pure"
DESIGN_REF = "DESIGN.md §3 C39"
TECHNIQUE = ("round-trip oracle: real ArchiverTag (stand-alone and inside a real Engine run) on a virtual clock, "
             "archive() strings captured at write time vs. csv read-back with the archiver's own dialect")
RULE = ("Hypothesis generates tag collections (plain/reading/select/mark/skipped/archiver tags; float, int, str, Decimal, "
        "None values; names, values and Mark texts over an alphabet rich in ',', ';', '\"', '\\\\', quote, space, tab, carriage return, line feed, non-ASCII) "
        "and start/tick/stop histories (stand-alone) or P-code methods (engine). Non-trivial = at least one data row was "
        "written and some archived cell contains the delimiter, the quote character or the escape character. "
        "Distinct = distinct case JSON.")
ASSUMPTIONS = [
    "texts are single-line: no CR/LF or other Unicode line boundaries, no C0/C1 control characters except TAB, no lone "
    "surrogates (Mark/Batch/Block arguments come from one P-code line; '#' additionally excluded there)",
    "two runs of one engine never start, and never stop, within the same wall-clock second (the archive file name has "
    "1 s resolution); the harness advances the virtual clock by >= 1 s at every start and stop",
    "a tag either always or never returns None from archive() (documented meaning of None: 'skip that tag from archival')",
    "tag names are unique and non-blank (TagCollection / UodBuilder enforce this); the collection is never empty "
    "(an engine always has its system tags); on_tick is delivered only between on_start and on_stop (Engine.tick)",
    "read-back dialect = the module-level delimiter/quoting/escapechar/encoding of openpectus.engine.archiver",
]
TIERS = {
    "quick": {"standalone": 9000, "engine": 500, "budget_s": 100},
    "thorough": {"standalone": 200000, "engine": 9000, "budget_s": 850},
}

T0 = 1_700_000_000.0
UNITS = [None, None, "L/h", "%", "degC", "kg", "m2", "s", "bar", "mS/cm"]
_FORBIDDEN_CATS = ("Cs", "Cc", "Zl", "Zp")


# ---- domain guards ----------------------------------------------------------------------------------

def _text_ok(s, pcode=False, line=False) -> bool:
    if not isinstance(s, str) or len(s) > 400:
        return False
    for ch in s:
        if ch in "\t\r" or (ch == "\n" and not line):
            # tab, carriage return and (outside a method line) line feed are ordinary text for the archive: a value
            # that contains a row terminator must still read back unchanged and must not split its row
            continue
        if unicodedata.category(ch) in _FORBIDDEN_CATS:
            return False
        if pcode and ch == "#":
            return False
    return True


def _val_ok(v) -> bool:
    if not isinstance(v, list) or not v:
        return False
    t = v[0]
    if t == "n":
        return len(v) == 1
    if len(v) != 2:
        return False
    if t == "f":
        try:
            float(v[1])
        except (TypeError, ValueError):
            return False
        return isinstance(v[1], str)
    if t == "i":
        return isinstance(v[1], int) and not isinstance(v[1], bool)
    if t == "s":
        return _text_ok(v[1])
    if t == "d":
        try:
            return isinstance(v[1], str) and decimal.Decimal(v[1]).is_finite()
        except decimal.InvalidOperation:
            return False
    return False


def _val(v):
    t = v[0]
    if t == "n":
        return None
    if t == "f":
        return float(v[1])
    if t == "d":
        return decimal.Decimal(v[1])
    return v[1]


def _tags_ok(tags, engine_mode) -> bool:
    from openpectus.lang.exec.tags import SystemTagName
    if not isinstance(tags, list) or len(tags) > 12 or (not engine_mode and len(tags) < 1):
        return False
    names = set()
    for t in tags:
        if not isinstance(t, dict) or t.get("kind") not in ("plain", "reading", "select", "mark", "skip", "archiver"):
            return False
        k = t["kind"]
        if engine_mode and k in ("mark", "archiver", "reading"):
            return False
        name = "Mark" if k == "mark" else "Archive filename" if k == "archiver" else t.get("name")
        if not _text_ok(name) or name.strip() == "" or name in names:
            return False
        if k in ("plain", "reading", "select", "skip") and SystemTagName.has_value(name):
            return False
        names.add(name)
        if t.get("unit") not in UNITS:
            return False
        if k in ("plain", "skip") and not _val_ok(t.get("value")):
            return False
        if k == "select":
            ch = t.get("choices")
            if not isinstance(ch, list) or not ch or not all(_text_ok(c) for c in ch):
                return False
            if not _val_ok(t.get("value")) or t["value"][0] != "s" or t["value"][1] not in ch:
                return False
    return True


def _set_ok(tagspec, v) -> bool:
    """may this value be assigned to this tag through its real set_value?"""
    if not _val_ok(v):
        return False
    k = tagspec["kind"]
    if k in ("plain", "skip"):
        return True
    if k == "reading":
        return v[0] in ("f", "i", "n")
    if k == "select":
        return v[0] == "s" and v[1] in tagspec["choices"]
    return False


def _case_ok(case) -> bool:
    if not isinstance(case, dict) or case.get("kind") not in ("standalone", "engine"):
        return False
    iv = case.get("interval")
    if isinstance(iv, bool) or not isinstance(iv, (int, float)) or not (0 <= iv <= 100):
        return False
    eng = case["kind"] == "engine"
    if not _tags_ok(case.get("tags"), eng):
        return False
    if eng:
        m = case.get("method")
        if not isinstance(m, list) or len(m) > 40 or not all(_text_ok(x, pcode=True, line=True) for x in m):
            return False
        n = case.get("ticks")
        return isinstance(n, int) and not isinstance(n, bool) and 0 <= n <= 200
    ops = case.get("ops")
    if not isinstance(ops, list) or len(ops) > 80:
        return False
    for o in ops:
        if not isinstance(o, dict) or o.get("op") not in ("start", "stop", "tick"):
            return False
        if o["op"] == "tick":
            dt = o.get("dt")
            if isinstance(dt, bool) or not isinstance(dt, (int, float)) or not (0 < dt <= 100):
                return False
            if not isinstance(o.get("sets", []), list) or not isinstance(o.get("marks", []), list):
                return False
            if not all(_text_ok(m, pcode=True) for m in o.get("marks", [])):
                return False
            for s in o.get("sets", []):
                if not (isinstance(s, list) and len(s) == 2 and isinstance(s[0], int) and not isinstance(s[0], bool)
                        and 0 <= s[0] < len(case["tags"]) and _set_ok(case["tags"][s[0]], s[1])):
                    return False
    rl = case.get("runlog", [])
    if not isinstance(rl, list) or len(rl) > 10:
        return False
    for it in rl:
        if not (isinstance(it, list) and len(it) == 3 and _text_ok(it[0], pcode=True)
                and isinstance(it[1], (int, float)) and not isinstance(it[1], bool) and 0 <= it[1] <= 1e6
                and (it[2] is None or (isinstance(it[2], (int, float)) and not isinstance(it[2], bool) and 0 <= it[2] <= 1e6))):
            return False
    return True


# ---- virtual clock + redirection ---------------------------------------------------------------------

class _Clock:
    def __init__(self):
        self.t = T0


class _TimeProxy:
    def __init__(self, real, clock):
        self._real, self._clock = real, clock

    def __getattr__(self, name):
        return getattr(self._real, name)

    def time(self):
        return self._clock.t


def _make_datetime(clock):
    class VirtualDatetime(_real_datetime):
        @classmethod
        def now(cls, tz=None):
            return _real_datetime.fromtimestamp(clock.t, tz)
    return VirtualDatetime


_SHARD_ROOT: list = []   # set by run_shard: one mkdtemp() directory reused by all cases of the shard (files removed per case)


@contextlib.contextmanager
def _sandbox():
    """temp dir + virtual clock patched into the archiver module; yields (A, clock, tmp, redirect)"""
    import openpectus.engine.archiver as A
    clock = _Clock()
    own = not _SHARD_ROOT
    tmp = tempfile.mkdtemp(prefix="c39-") if own else _SHARD_ROOT[0]
    saved = (A.time, A.datetime, A.__file__)
    A.time = _TimeProxy(saved[0], clock)
    A.datetime = _make_datetime(clock)

    @contextlib.contextmanager
    def redirect():
        A.__file__ = os.path.join(tmp, "archiver.py")
        try:
            yield
        finally:
            A.__file__ = saved[2]
    try:
        yield A, clock, tmp, redirect
    finally:
        A.time, A.datetime, A.__file__ = saved
        if own:
            shutil.rmtree(tmp, ignore_errors=True)
        else:
            data = os.path.join(tmp, "data")
            if os.path.isdir(data):
                for fn in os.listdir(data):
                    os.unlink(os.path.join(data, fn))


def _verify_redirect(arch, tmp):
    if os.path.realpath(arch.data_path) != os.path.realpath(os.path.join(tmp, "data")):
        raise RuntimeError("harness: ArchiverTag.data_path %r was not redirected into %r" % (arch.data_path, tmp))


class _Capture:
    """wraps tag.archive on the instances; records per phase the strings handed to the archiver"""

    def __init__(self):
        self.calls: list = []
        self.mark_mismatch: list = []     # (text, stored before, stored after, expected after)
        self.mark_sets = 0

    def wrap(self, tag):
        from openpectus.lang.exec import tags_impl
        if isinstance(tag, tags_impl.MarkTag):
            # mark texts reach the archive through MarkTag.set_value ("Append value to existing value"): the text must be
            # stored unchanged - alone, or behind the texts not archived yet and the module's separator
            orig_set = tag.set_value

            def set_value(val, tick_time, *a, **k):
                before = str(tag.value or "")
                r = orig_set(val, tick_time, *a, **k)
                if isinstance(val, str):
                    self.mark_sets += 1
                    want = val if before == "" else before + tags_impl.MARK_SEPARATOR + val
                    if str(tag.value or "") != want:
                        self.mark_mismatch.append((val, before, str(tag.value or ""), want))
                return r
            tag.set_value = set_value
        orig = tag.archive

        def archive():
            v = orig()
            self.calls.append((tag, v))
            return v
        tag.archive = archive  # instance attribute shadows the method; the archiver calls tag.archive()

    def take(self):
        c, self.calls = self.calls, []
        return c


def _mark_text_violations(A, cap, case, out, classes):
    if cap.mark_sets:
        classes.add("mark-texts-set")
    for val, before, after, want in cap.mark_mismatch[:1]:
        out.append(Violation("mark-text:" + _dominant(A, [val]),
                             "Mark text %r set while the not yet archived mark value was %r: the tag now holds %r, expected %r (the text unchanged, "
                             "appended with the separator)" % (val, before, after, want), case))


# ---- read back + compare ------------------------------------------------------------------------------

def _chars(A, cells) -> str:
    has = []
    joined = "".join(cells)
    if A.delimiter in joined:
        has.append("delimiter")
    if '"' in joined:
        has.append("quote")
    if A.escapechar is not None and A.escapechar in joined:
        has.append("escape")
    if "'" in joined:
        has.append("apostrophe")
    return "+".join(has) if has else "plain"


def _dominant(A, cells) -> str:
    """single root-cause label for signatures: the dialect-relevant character class present in the cells"""
    joined = "".join(cells)
    if A.escapechar is not None and A.escapechar in joined:
        return "escape"
    if A.delimiter in joined:
        return "delimiter"
    if '"' in joined:
        return "quote"
    return "plain"


def _read(A, path):
    with open(path, "r", newline="", encoding=A.encoding) as f:
        return list(csv.reader(f, delimiter=A.delimiter, quoting=A.quoting, escapechar=A.escapechar))


def _compare_run(A, run, case, out, classes):
    """run = {"path", "header_pass": [(tag, val)], "passes": [[(tag, val)...]...], "labels": [...]}"""
    if not os.path.isfile(run["path"]):
        out.append(Violation("file:missing", "on_start completed but the archive file %s does not exist" % os.path.basename(run["path"]), case))
        return False
    try:
        rows = _read(A, run["path"])
    except (UnicodeError, csv.Error) as e:   # the archive cannot be read back with the declared encoding/dialect
        out.append(Violation("readback:" + type(e).__name__, "reading the archive back failed: %s: %s" % (type(e).__name__, e), case))
        return False
    expected = [[v for _, v in p if v is not None] for p in run["passes"]]
    nontrivial = False
    if not rows:
        out.append(Violation("file:no-header", "archive file is empty", case))
        return False
    header, data = rows[0], rows[1:]
    labels = [(("%s [%s]" % (t.name, t.unit)) if t.unit is not None else str(t.name)) for t, v in run["header_pass"] if v is not None]
    classes.add("header-labels:" + ("ok" if header[1:] == labels else "differ"))
    if len(data) != len(expected):
        out.append(Violation("rows:count", "%d archive passes were made but the file has %d data rows (expected cells %r ...)"
                             % (len(expected), len(data), expected[:2]), case))
        return any(_chars(A, e) not in ("plain", "apostrophe") for e in expected)
    for k, (row, exp) in enumerate(zip(data, expected)):
        ch = _chars(A, exp)
        if ch != "plain":
            for c in ch.split("+"):
                classes.add("cell-has:" + c)
                if c != "apostrophe":
                    nontrivial = True
        if len(row) != len(header):
            # root cause: either the row was split/merged on the way (cell count changed) or the header was built for
            # another set of tags than the rows
            sig = "columns:header-vs-archived-tags" if len(row) == len(exp) + 1 else "columns:row-split:" + _dominant(A, exp)
            out.append(Violation(sig, "data row %d has %d columns, header has %d (%d values were archived); archived cells %r, read back %r"
                                 % (k, len(row), len(header), len(exp), exp, row[1:]), case))
            continue
        if row[1:] != exp:
            bad = [j for j in range(min(len(exp), len(row) - 1)) if row[1 + j] != exp[j]]
            j = bad[0] if bad else 0
            out.append(Violation("cell:" + _dominant(A, [exp[j]] if exp else []),
                                 "data row %d: archived %r but read back %r" % (k, exp[j] if exp else None, row[1 + j] if len(row) > 1 + j else None), case))
    classes.add("rows:" + ("0" if not data else "1" if len(data) == 1 else "2-5" if len(data) <= 5 else ">5"))
    return nontrivial and bool(data)


def _compare_runlog(A, path, names, case, out, classes):
    if not os.path.isfile(path):
        out.append(Violation("runlog-file:missing", "on_stop completed but no run-log file was written", case))
        return
    try:
        rows = _read(A, path)
    except (UnicodeError, csv.Error) as e:
        out.append(Violation("runlog-file:readback:" + type(e).__name__, "reading the run-log file back failed: %s: %s" % (type(e).__name__, e), case))
        return
    if not rows:
        out.append(Violation("runlog-file:no-header", "run-log file is empty", case))
        return
    header, data = rows[0], rows[1:]
    if len(data) != len(names):
        out.append(Violation("runlog-file:rows:count", "%d run-log items but %d rows (names %r)" % (len(names), len(data), names[:3]), case))
        return
    for k, (row, name) in enumerate(zip(data, names)):
        ch = _chars(A, [name])
        if ch != "plain":
            for c in ch.split("+"):
                classes.add("runlog-name-has:" + c)
        if len(row) != len(header):
            out.append(Violation("runlog-file:columns:" + _dominant(A, [name]), "run-log row %d has %d columns, header %d; name %r" % (k, len(row), len(header), name), case))
        elif row[0] != name:
            out.append(Violation("runlog-file:cell:" + _dominant(A, [name]), "run-log row %d: name %r read back as %r" % (k, name, row[0]), case))


# ---- stand-alone driver -------------------------------------------------------------------------------

def _build_tag(spec, arch_factory):
    from openpectus.lang.exec.tags import Tag
    from openpectus.lang.exec.tags_impl import MarkTag, ReadingTag, SelectTag
    k = spec["kind"]
    if k == "plain":
        return Tag(spec["name"], value=_val(spec["value"]), unit=spec.get("unit"))
    if k == "reading":
        return ReadingTag(spec["name"], unit=spec.get("unit"))
    if k == "select":
        return SelectTag(spec["name"], value=spec["value"][1], unit=spec.get("unit"), choices=list(spec["choices"]))
    if k == "mark":
        return MarkTag()
    if k == "skip":
        class SkippedTag(Tag):
            def archive(self):
                return None
        return SkippedTag(spec["name"], value=_val(spec["value"]), unit=spec.get("unit"))
    return arch_factory()


def _call(out, case, ev, fn):
    try:
        fn()
        return True
    except Exception as e:   # code under test raising on an in-domain input is reported, never swallowed
        out.append(Violation("archiver-raises:%s:%s" % (ev, type(e).__name__), "%s raised %s: %s" % (ev, type(e).__name__, e), case))
        return False


def run_standalone(case):
    from openpectus.lang.exec.runlog import RunLog, RunLogItem
    from openpectus.lang.exec.tags import TagCollection
    out: list[Violation] = []
    classes: set[str] = set()
    nontrivial = False
    with _sandbox() as (A, clock, tmp, redirect):
        runlog = RunLog()
        for name, start, end in case.get("runlog", []):
            it = RunLogItem()
            it.name, it.start, it.end = name, T0 + start, (None if end is None else T0 + end)
            runlog.items.append(it)
        holder: dict = {}

        def make_archiver():
            with redirect():
                a = A.ArchiverTag(lambda: runlog, lambda: holder["tags"], case["interval"])
            _verify_redirect(a, tmp)
            holder["arch"] = a
            return a

        tags = [_build_tag(s, make_archiver) for s in case["tags"]]
        if "arch" not in holder:
            make_archiver()      # not part of the collection, still the listener
        arch = holder["arch"]
        holder["tags"] = TagCollection(tags)
        cap = _Capture()
        for t in tags:
            cap.wrap(t)
        mark = next((t for t, s in zip(tags, case["tags"]) if s["kind"] == "mark"), None)
        started = False
        run = None
        runs = []
        run_no = 0
        for op in case["ops"]:
            if op["op"] == "start":
                if started:
                    continue
                clock.t += 1.0
                run_no += 1
                rid = "run-%d" % run_no
                cap.take()
                arch._on_before_start(rid)
                if not _call(out, case, "on_start", lambda: arch.on_start(rid)):
                    return out, sorted(classes), False
                started = True
                if arch.file_path is None or not arch.file_ready:
                    classes.add("archiver-not-running")   # low disk space branch: nothing to judge
                    run = None
                    cap.take()
                    continue
                run = {"path": arch.file_path, "header_pass": cap.take(), "passes": []}
                runs.append(run)
            elif op["op"] == "stop":
                if not started:
                    continue
                clock.t += 1.0
                before = set(os.listdir(arch.data_path))
                if not _call(out, case, "on_stop", arch.on_stop):
                    return out, sorted(classes), False
                started = False
                new = sorted(f for f in set(os.listdir(arch.data_path)) - before if "runlog" in f)
                _compare_runlog(A, os.path.join(arch.data_path, new[0]) if new else os.path.join(arch.data_path, "<none>"),
                                [it.name for it in runlog.items], case, out, classes)
                cap.take()
                run = None
            else:
                clock.t += op["dt"]
                if not started:
                    # the engine emits on_tick only while a run is started; values may still change meanwhile
                    classes.add("tick-while-stopped")
                for idx, v in op.get("sets", []):
                    spec = case["tags"][idx]
                    if spec["kind"] in ("mark", "archiver"):
                        continue
                    tags[idx].set_value(_val(v), clock.t)
                    classes.add("set:" + v[0])
                if mark is not None and started:
                    for m in op.get("marks", []):
                        mark.set_value(m, clock.t)
                    if len(op.get("marks", [])) > 1:
                        classes.add("marks-joined")
                cap.take()
                if not started:
                    continue
                if not _call(out, case, "on_tick", lambda: arch.on_tick(clock.t, op["dt"])):
                    return out, sorted(classes), False
                calls = cap.take()
                if calls and run is not None:
                    run["passes"].append(calls)
                elif calls:
                    classes.add("archive-pass-outside-run")
        classes.add("runs:%d" % min(len(runs), 3))
        if any(s["kind"] == "skip" for s in case["tags"]):
            classes.add("has-skipped-tag")
        for r in runs:
            nontrivial |= _compare_run(A, r, case, out, classes)
        _mark_text_violations(A, cap, case, out, classes)
    return out, sorted(classes), nontrivial


# ---- engine driver ------------------------------------------------------------------------------------

def run_engine(case):
    from openpectus.engine.engine import Engine, EngineTiming
    from openpectus.engine.hardware import HardwareLayerBase
    from openpectus.lang.exec.clock import Clock
    from openpectus.lang.exec.tags import SystemTagName
    from openpectus.lang.exec.timer import NullTimer
    from openpectus.lang.exec.uod import UodBuilder
    import openpectus.protocol.models as PM

    out: list[Violation] = []
    classes: set[str] = set()
    nontrivial = False
    with _sandbox() as (A, clock, tmp, redirect):
        class VClock(Clock):
            def get_time(self):
                return clock.t

        class NoHardware(HardwareLayerBase):
            def read(self, r):
                return 0.0

            def write(self, v, r):
                pass

            def connect(self):
                self._is_connected = True

            def disconnect(self):
                self._is_connected = False

        b = (UodBuilder().with_instrument("C39").with_author("verif", "verif@example.org").with_filename("c39_uod.py")
             .with_hardware(NoHardware()).with_location("lab").with_data_log_interval_seconds(case["interval"]))
        for spec in case["tags"]:
            b = b.with_tag(_build_tag(spec, None))
        uod = b.build()
        uod.hwl.connect()
        with redirect():
            engine = Engine(uod, EngineTiming(VClock(), NullTimer(), 0.1, 1.0), enable_archiver=True)
        try:
            arch = engine._system_tags.get(SystemTagName.ARCHIVER)
            _verify_redirect(arch, tmp)
            cap = _Capture()
            for t in engine.tags:
                cap.wrap(t)
            runlog_names: list = []
            orig_accessor = arch.runlog_accessor

            def accessor():
                rl = orig_accessor()
                runlog_names.append([it.name for it in rl.items])
                return rl
            arch.runlog_accessor = accessor
            engine.run(skip_timer_start=True)
            engine.set_method(PM.Method.from_pcode("\n".join(case["method"])))
            runs = []
            n_runs = 2 if case.get("second_run") else 1
            for r in range(n_runs):
                clock.t += 2.0
                engine.schedule_execution("Start")
                run = None
                files_before = set(os.listdir(arch.data_path))
                for _ in range(case["ticks"]):
                    clock.t += 0.1
                    cap.take()
                    engine.tick(clock.t, 0.1)
                    calls = cap.take()
                    if run is None and arch.file_ready and arch.file_path is not None:
                        # on_start happened inside this tick: first pass is the header pass, a second one (if any) a row
                        n = len(list(engine.tags))
                        run = {"path": arch.file_path, "header_pass": calls[:n], "passes": []}
                        runs.append(run)
                        calls = calls[n:]
                    if calls and run is not None:
                        run["passes"].append(calls)
                    if run is not None and not arch.file_ready:
                        run = None   # stopped
                if arch.file_ready:
                    clock.t += 2.0
                    engine.schedule_execution("Stop")
                    for _ in range(4):
                        clock.t += 0.1
                        cap.take()
                        engine.tick(clock.t, 0.1)
                        calls = cap.take()
                        if calls and run is not None:
                            run["passes"].append(calls)
                        if not arch.file_ready:
                            run = None
                    if arch.file_ready:
                        raise RuntimeError("harness: engine did not stop the run within 4 ticks of a Stop command")
                new = sorted(f for f in set(os.listdir(arch.data_path)) - files_before if "runlog" in f)
                if runlog_names:
                    _compare_runlog(A, os.path.join(arch.data_path, new[0]) if new else os.path.join(arch.data_path, "<none>"),
                                    runlog_names[-1], case, out, classes)
                    if len(runlog_names[-1]) > 0:
                        classes.add("runlog-items")
                runlog_names.clear()
            classes.add("runs:%d" % min(len(runs), 3))
            for r in runs:
                nontrivial |= _compare_run(A, r, case, out, classes)
            _mark_text_violations(A, cap, case, out, classes)
        finally:
            engine.cleanup()
    return out, sorted(classes), nontrivial


def evaluate(case):
    if case["kind"] == "standalone":
        return run_standalone(case)
    return run_engine(case)


def check_case(case) -> list[Violation]:
    if not _case_ok(case):
        return []
    return evaluate(case)[0]


# ---- generators -----------------------------------------------------------------------------------------

_NARROW = ',;"\\\' :.|%/=abXY01éß日\t'
_narrow_chars = st.characters(whitelist_categories=(), whitelist_characters=_NARROW + "\r\n")
_narrow_line_chars = st.characters(whitelist_categories=(), whitelist_characters=_NARROW + "\r")
_wide_chars = st.characters(blacklist_categories=_FORBIDDEN_CATS, blacklist_characters="#")


def texts(min_size=0, max_size=8, narrow=_narrow_chars):
    # one primitive draw per string (fast); two of three strings come from the alphabet of dialect-relevant characters
    return st.one_of(st.text(narrow, min_size=min_size, max_size=max_size),
                     st.text(narrow, min_size=min_size, max_size=max_size),
                     st.text(_wide_chars, min_size=min_size, max_size=max_size))


# All strategies are built once at import time: constructing strategies inside @composite bodies dominated the run time.
_T08, _T06, _T16 = texts(0, 8), texts(0, 6), texts(1, 6)
_names = _T16.filter(lambda s: s.strip() != "")
_arg = texts(1, 6, _narrow_line_chars).filter(lambda s: s.strip() != "")     # '#' is excluded from both alphabets; no line feed inside a method line
_floats = st.one_of(st.sampled_from(["0.0", "-0.0", "1.5", "nan", "inf", "-inf", "1e300", "1e-7", "123456789.123456789", "-2.5"]),
                    st.floats(allow_nan=False, allow_infinity=False, width=64).map(repr))
_val_f = _floats.map(lambda x: ["f", x])
_val_i = st.integers(-10**12, 10**12).map(lambda x: ["i", x])
_val_s = _T08.map(lambda x: ["s", x])
_val_d = st.sampled_from(["1.10", "0", "-3.14159", "1E+3", "12345678901234567890.123"]).map(lambda x: ["d", x])
_val_n = st.just(["n"])
_values = st.one_of(_val_f, _val_i, _val_s, _val_s, _val_d, _val_n)
_values_reading = st.one_of(_val_f, _val_i, _val_n)
_choices = st.lists(_T08, min_size=1, max_size=3, unique=True)
_units = st.sampled_from(UNITS)
_bool = st.booleans()
_mostly = st.sampled_from([True, True, True, False])
_idx = st.integers(0, 1 << 20)        # reduced modulo the population size by the caller
_marks = st.lists(_T06, min_size=0, max_size=3)
_n_tags, _n_ops, _n_sets = st.integers(0, 6), st.integers(1, 12), st.integers(0, 2)
_op_kind = st.sampled_from(["tick"] * 8 + ["stop", "start"])
_dt = st.sampled_from([0.1, 0.1, 0.5, 1.0, 2.5])
_interval_s = st.sampled_from([0, 0.05, 0.5, 1.0, 3.0])
_interval_e = st.sampled_from([0, 0.05, 0.3, 1.0])
_runlog = st.lists(st.tuples(_T16, st.integers(0, 1000), st.one_of(st.none(), st.integers(0, 1000))), max_size=3)
_kind_s = st.sampled_from(["plain", "plain", "plain", "select", "skip", "reading"])
_kind_e = st.sampled_from(["plain", "plain", "plain", "select", "skip"])
_line_kind = st.sampled_from(["mark", "mark", "mark", "batch", "block", "wait", "simulate", "simoff"])
_sim_tag = st.sampled_from(["Run Counter", "Run Counter", "Base"])   # archived system tags a method can simulate
_sim_val = st.sampled_from(["3", "7", "0", "12"])
_wait = st.sampled_from(["0.2", "0.5", "1"])
_n_lines, _n_inner, _n_ticks = st.integers(1, 6), st.integers(0, 2), st.integers(5, 40)
_second = st.sampled_from([False, False, True])


def _tag_specs(draw, engine_mode):
    from openpectus.lang.exec.tags import SystemTagName
    specs, names = [], set()
    for _ in range(draw(_n_tags)):
        name = draw(_names)
        if name in names or SystemTagName.has_value(name):
            continue
        names.add(name)
        k = draw(_kind_e if engine_mode else _kind_s)
        spec = {"kind": k, "name": name, "unit": draw(_units)}
        if k in ("plain", "skip"):
            spec["value"] = draw(_values)
        elif k == "select":
            spec["choices"] = draw(_choices)
            spec["value"] = ["s", spec["choices"][draw(_idx) % len(spec["choices"])]]
        specs.append(spec)
    if not engine_mode:
        if not specs or draw(_mostly):
            specs.insert(draw(_idx) % (len(specs) + 1), {"kind": "mark", "unit": None})
        if draw(_bool):
            specs.insert(draw(_idx) % (len(specs) + 1), {"kind": "archiver", "unit": None})
    return specs


@st.composite
def standalone_cases(draw):
    tags = _tag_specs(draw, False)
    settable = [i for i, s in enumerate(tags) if s["kind"] in ("plain", "reading", "select", "skip")]
    interval = draw(_interval_s)
    ops = [{"op": "start"}] if draw(_mostly) else []
    for _ in range(draw(_n_ops)):
        kind = draw(_op_kind)
        if kind != "tick":
            ops.append({"op": kind})
            continue
        sets = []
        for _ in range(draw(_n_sets) if settable else 0):
            i = settable[draw(_idx) % len(settable)]
            s = tags[i]
            if s["kind"] == "reading":
                v = draw(_values_reading)
            elif s["kind"] == "select":
                v = ["s", s["choices"][draw(_idx) % len(s["choices"])]]
            else:
                v = draw(_values)
            sets.append([i, v])
        ops.append({"op": "tick", "dt": draw(_dt), "sets": sets, "marks": draw(_marks)})
    if draw(_bool):
        ops.append({"op": "stop"})
    return {"kind": "standalone", "interval": interval, "tags": tags, "ops": ops, "runlog": [list(x) for x in draw(_runlog)]}


@st.composite
def engine_cases(draw):
    tags = _tag_specs(draw, True)
    lines = []
    for _ in range(draw(_n_lines)):
        k = draw(_line_kind)
        if k == "mark":
            lines.append("Mark: " + draw(_arg))
        elif k == "batch":
            lines.append("Batch: " + draw(_arg))
        elif k == "wait":
            lines.append("Wait: %ss" % draw(_wait))
        elif k == "simulate":
            lines.append("Simulate: %s = %s" % (draw(_sim_tag), draw(_sim_val)))
        elif k == "simoff":
            lines.append("Simulate off: %s" % draw(_sim_tag))
        else:
            lines.append("Block: " + draw(_arg))
            for _ in range(draw(_n_inner)):
                lines.append("    Mark: " + draw(_arg))
            lines.append("    End block")
    if draw(_bool):
        lines.append("Stop")
    return {"kind": "engine", "interval": draw(_interval_e), "tags": tags, "method": lines,
            "ticks": draw(_n_ticks), "second_run": draw(_second)}


def run_shard(col, cfg):
    seed = shard_seed(col.seed, col.shard)

    def body(case):
        vs, classes, nontrivial = evaluate(case)
        col.record(case, nontrivial, classes=["kind:" + case["kind"]] + classes, violations=vs)

    _SHARD_ROOT.append(tempfile.mkdtemp(prefix="c39-shard-"))
    try:
        hyp_run(standalone_cases(), body, max(1, cfg["standalone"] // col.nshards), seed * 10 + 1, col)
        hyp_run(engine_cases(), body, max(1, cfg["engine"] // col.nshards), seed * 10 + 2, col)
    finally:
        shutil.rmtree(_SHARD_ROOT.pop(), ignore_errors=True)
