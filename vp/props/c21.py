"""C21 — unit-aware comparisons are exact, consistent and symmetric.

Domain : every ordered pair of supported units (enumerated exhaustively, sharded) x generated
         decimal strings (up to 30 significant digits, exponents, exact images of each other under
         the conversion, images +- a tiny epsilon far below float precision).
Oracle : an independent rational unit system (Fraction factor/offset per unit, written from the SI
         definitions) gives the exact order of the two physical quantities.
Laws   : symmetric   are_comparable(a,b) == are_comparable(b,a)   (incl. raising)
         raise-sym   compare_values raises for (a,b) iff it raises for (b,a)
         exact:<op>  compare_values(op) == reference order, whenever the pair is comparable
         trichotomy  exactly one of < = > holds
         neq         != is the negation of =
         le / ge     <= is (< or =), >= is (> or =)
         mirror      (a op b) == (b mirrored-op a)
"""
from __future__ import annotations

from fractions import Fraction as F

from hypothesis import strategies as st

from vp.core.framework import Violation, hyp_run, shard_seed

ID = "C21"
LEVEL = "exploration"
DESIGN_REF = "DESIGN.md §3 C21"
TECHNIQUE = "exhaustive unit-pair enumeration x Hypothesis-generated decimals against a rational reference unit system"
RULE = ("all 51x51 ordered unit pairs enumerated; per pair Hypothesis draws decimal-string value pairs "
        "(random, exact conversion images, images +- 1e-25 relative). Non-trivial = the two units differ and belong to "
        "one quantity (a conversion is needed). Distinct = distinct (unit_a, unit_b, value_a, value_b). Plus registry scenarios "
        "(each in a forked child): warm-up queries, 1-3 units added at run time, then value pairs involving the new units; "
        "every registry scenario counts as non-trivial.")
ASSUMPTIONS = [
    "units added at run time (UodBuilder.with_measurement_unit) are covered for factor-only relations to seven pint-backed quantities; "
    "units of a new custom quantity are judged by the order-independence laws only",
    "reference conversion factors are written by hand from SI definitions (day=86400 s, bar=1e5 Pa, degF=(x+459.67)*5/9 K)",
    "values are finite decimal strings; NaN/Infinity and non-numeric strings are out of the stated domain",
    "a same-quantity pair that the code declares non-comparable in BOTH orders (vol% vs wt%) is accepted: the statement "
    "does not say which pairs must be comparable, only that the answer is order independent",
]
TIERS = {
    "quick": {"per_pair": 24, "budget_s": 100, "registry_cases": 150, "registry_budget_s": 20},
    "thorough": {"per_pair": 600, "budget_s": 1500, "registry_cases": 5000, "registry_budget_s": 250},
}

# ---- reference unit system ---------------------------------------------------------------------
# unit -> (quantity, factor, offset): base = value*factor + offset
REF = {
    "s": ("time", F(1), 0), "min": ("time", F(60), 0), "h": ("time", F(3600), 0), "ms": ("time", F(1, 1000), 0),
    "m": ("length", F(1), 0), "cm": ("length", F(1, 100), 0),
    "m**2": ("area", F(1), 0), "m2": ("area", F(1), 0), "dm2": ("area", F(1, 100), 0), "cm2": ("area", F(1, 10000), 0),
    "kg": ("mass", F(1), 0), "g": ("mass", F(1, 1000), 0),
    "kg/L": ("density", F(1), 0), "g/L": ("density", F(1, 1000), 0),
    "degC": ("temperature", F(1), F("273.15")), "°C": ("temperature", F(1), F("273.15")),
    "degF": ("temperature", F(5, 9), F("459.67") * F(5, 9)), "°F": ("temperature", F(5, 9), F("459.67") * F(5, 9)),
    "K": ("temperature", F(1), 0),
    "mol": ("amount_of_substance", F(1), 0),
    "L": ("volume", F(1), 0), "mL": ("volume", F(1, 1000), 0),
    "L/h": ("flow", F(1), 0), "L/min": ("flow", F(60), 0), "L/d": ("flow", F(1, 24), 0),
    "Hz": ("frequency", F(1), 0), "kHz": ("frequency", F(1000), 0),
    "Pa": ("pressure", F(1), 0), "pascal": ("pressure", F(1), 0), "bar": ("pressure", F(100000), 0),
    "kg/h": ("mass flow rate", F(1000), 0), "g/s": ("mass flow rate", F(3600), 0), "g/min": ("mass flow rate", F(60), 0),
    "g/h": ("mass flow rate", F(1), 0),
    "mS/cm": ("conductivity", F(1000), 0), "µS/cm": ("conductivity", F(1), 0),
    "%": ("percentage", F(1), 0), "vol%": ("percentage", F(1), 0), "wt%": ("percentage", F(1), 0), "mol%": ("percentage", F(1), 0),
    "CV": ("column volume", F(1), 0),
    "AU": ("absorbance", F(1000), 0), "mAU": ("absorbance", F(1), 0), "milliAU": ("absorbance", F(1), 0),
    "LMH/bar": ("permeability", F(1), 0), "L/m2/h/bar": ("permeability", F(1), 0), "L/h/m2/bar": ("permeability", F(1), 0),
    "LMH": ("flux", F(1), 0), "L/m2/h": ("flux", F(1), 0), "L/h/m2": ("flux", F(1), 0),
}
OPS = ["<", "<=", "=", "==", "!=", ">=", ">"]
MIRROR = {"<": ">", "<=": ">=", "=": "=", "==": "==", "!=": "!=", ">=": "<=", ">": "<"}


import re
_DEC_RE = re.compile(r"^-?(\d+(\.\d*)?|\.\d+)([eE][+-]?\d+)?$")


def ref_order(va: str, ua, vb: str, ub, REF=None) -> int:
    REF = REF or globals()["REF"]
    fa, oa = (F(1), 0) if ua is None else REF[ua][1:]
    fb, ob = (F(1), 0) if ub is None else REF[ub][1:]
    x, y = F(va) * fa + oa, F(vb) * fb + ob
    return (x > y) - (x < y)


def ref_op(op: str, order: int) -> bool:
    return {"<": order < 0, "<=": order <= 0, "=": order == 0, "==": order == 0, "!=": order != 0,
            ">=": order >= 0, ">": order > 0}[op]


def same_quantity(ua, ub, REF=None) -> bool:
    REF = REF or globals()["REF"]
    if ua is None or ub is None:
        return ua is None and ub is None
    return REF[ua][0] == REF[ub][0]


def units():
    """supported units, without the scratch units an earlier shard of this worker process added in its registry scenarios"""
    from openpectus.lang.exec import units as U
    return [u for u in U.get_supported_units() if u is None or not re.match(r"^xu[a-z]+$", u)]


# ---- oracle on one case -------------------------------------------------------------------------

def check_case(case) -> list[Violation]:
    if isinstance(case, dict) and case.get("kind") == "registry":
        return check_registry_case(case)
    if not (isinstance(case, dict) and all(k in case for k in ("ua", "ub", "va", "vb"))):
        return []
    return _check_pair(case, REF)


def _check_pair(case, REF) -> list[Violation]:
    from openpectus.lang.exec import units as U
    ua, ub, va, vb = case["ua"], case["ub"], case["va"], case["vb"]
    out: list[Violation] = []
    if not (_DEC_RE.match(va) and _DEC_RE.match(vb)):
        return []   # outside the stated domain (finite decimal strings); reached only by the shrinker
    tag = "%s:%s" % (ua, ub)
    for u in (ua, ub):
        if u is not None and u not in REF:
            return [Violation("harness:unknown-unit:%s" % u, "unit %r is supported by the code but has no reference definition" % u, case)]

    def cmp_ok(fn):
        try:
            return ("ok", fn())
        except ValueError as e:
            return ("raise", "ValueError: %s" % e)
        except Exception as e:  # any other exception type is outside the documented contract ("ValueError")
            return ("raise", "%s: %s" % (type(e).__name__, e))

    c_ab = cmp_ok(lambda: U.are_comparable(ua, ub))
    c_ba = cmp_ok(lambda: U.are_comparable(ub, ua))
    if c_ab != c_ba and not (c_ab[0] == c_ba[0] == "raise"):
        out.append(Violation("symmetric:" + tag, "are_comparable(%r,%r)=%r but are_comparable(%r,%r)=%r" % (ua, ub, c_ab, ub, ua, c_ba), case))

    res_ab = {op: cmp_ok(lambda op=op: U.compare_values(op, va, ua, vb, ub)) for op in OPS}
    res_ba = {op: cmp_ok(lambda op=op: U.compare_values(op, vb, ub, va, ua)) for op in OPS}
    raises_ab = {op for op in OPS if res_ab[op][0] == "raise"}
    raises_ba = {op for op in OPS if res_ba[op][0] == "raise"}
    if bool(raises_ab) != bool(raises_ba):
        bad = sorted(raises_ab or raises_ba)[0]
        out.append(Violation("raise-sym:" + tag, "compare_values raises in one order only: (%r %s %r)->%r ; swapped ->%r"
                             % (ua, bad, ub, res_ab[bad], res_ba[MIRROR[bad]]), case))
    if raises_ab and len(raises_ab) != len(OPS):
        out.append(Violation("raise-some-ops:" + tag, "compare_values raises for operators %s only: %r" % (sorted(raises_ab), res_ab[sorted(raises_ab)[0]]), case))
    if raises_ab:
        # comparable according to are_comparable but the comparison itself fails
        if c_ab == ("ok", True) and same_quantity(ua, ub, REF):
            out.append(Violation("comparable-but-raises:" + tag, "are_comparable is True but compare_values raises: %r" % (res_ab[sorted(raises_ab)[0]],), case))
        return out
    r = {op: res_ab[op][1] for op in OPS}
    if not same_quantity(ua, ub, REF):
        out.append(Violation("cross-quantity-accepted:" + tag, "units of different quantities were compared without error", case))
        return out
    order = ref_order(va, ua, vb, ub, REF)
    for op in OPS:
        if r[op] != ref_op(op, order):
            out.append(Violation("exact:%s:%s" % (op, tag), "%s %s %s %s %s -> %r, exact arithmetic says %r"
                                 % (va, ua, op, vb, ub, r[op], ref_op(op, order)), case))
    if [r["<"], r["="], r[">"]].count(True) != 1:
        out.append(Violation("trichotomy:" + tag, "%s %s vs %s %s: <:%r =:%r >:%r" % (va, ua, vb, ub, r["<"], r["="], r[">"]), case))
    if r["!="] == r["="]:
        out.append(Violation("neq:" + tag, "%s %s vs %s %s: '='->%r and '!='->%r" % (va, ua, vb, ub, r["="], r["!="]), case))
    if r["<="] != (r["<"] or r["="]):
        out.append(Violation("le:" + tag, "%s %s vs %s %s: <=:%r <:%r =:%r" % (va, ua, vb, ub, r["<="], r["<"], r["="]), case))
    if r[">="] != (r[">"] or r["="]):
        out.append(Violation("ge:" + tag, "%s %s vs %s %s: >=:%r >:%r =:%r" % (va, ua, vb, ub, r[">="], r[">"], r["="]), case))
    if r["=="] != r["="]:
        out.append(Violation("eq-alias:" + tag, "'=' and '==' disagree", case))
    if not raises_ba:
        for op in OPS:
            if r[op] != res_ba[MIRROR[op]][1]:
                out.append(Violation("mirror:" + tag, "(%s %s %s %s %s)=%r but (%s %s %s %s %s)=%r"
                                     % (va, ua, op, vb, ub, r[op], vb, ub, MIRROR[op], va, ua, res_ba[MIRROR[op]][1]), case))
                break
    return out


# ---- registry scenarios: units added at run time (UodBuilder.with_measurement_unit -> add_unit) ----------------
# The unit registry is process-global and additions cannot be undone, so every scenario runs in a forked child.
# A scenario = warm-up queries (what tag validation / analysis / completion do), then additions of new units to an
# EXISTING pint-backed quantity (factor-only relation "xuN = k base"), optionally more queries, then value pairs judged
# by the same laws with the reference table extended by the declared factors.  Units of a new custom quantity without
# a relation are judged by the order-independence laws only (the statement fixes no conversion for them).

ADDABLE = {  # quantity -> base unit used in the relation (factor-only quantities that pint backs)
    "time": "s", "length": "cm", "mass": "g", "volume": "mL", "flow": "L/h", "pressure": "bar", "frequency": "Hz",
}


_FROZEN: list = []
_REG_COUNTER = [0]


def _registry_child(case):
    from openpectus.lang.exec import units as U
    ref = dict(REF)
    out: list[Violation] = []
    for u in case.get("warm", []):
        try:
            U.get_compatible_unit_names(u)
            for v in U.get_supported_units()[:8]:
                U.are_comparable(u, v)
        except ValueError:
            pass
    for a in case["adds"]:
        unit = a["unit"]
        if a.get("custom_quantity"):
            U.add_unit(unit, quantity=a["custom_quantity"])
            ref[unit] = ("custom:" + a["custom_quantity"], None, 0)
        else:
            q, base = a["quantity"], ADDABLE[a["quantity"]]
            U.add_unit(unit, quantity=q, unit_relation="%s = %s %s" % (unit, a["factor"], base))
            ref[unit] = (REF[base][0], F(a["factor"]) * REF[base][1], 0)
        for u in a.get("then_query", []):
            try:
                U.get_compatible_unit_names(u)
            except ValueError:
                pass
    for pr in case["pairs"]:
        ua, ub = pr["ua"], pr["ub"]
        if any(u is not None and u not in ref for u in (ua, ub)):
            continue
        custom = any(u is not None and ref[u][1] is None for u in (ua, ub))
        if custom:
            def cmp_ok(fn):
                try:
                    return ("ok", fn())
                except Exception as e:
                    return ("raise", type(e).__name__)
            c_ab, c_ba = cmp_ok(lambda: U.are_comparable(ua, ub)), cmp_ok(lambda: U.are_comparable(ub, ua))
            if c_ab != c_ba and not (c_ab[0] == c_ba[0] == "raise"):
                out.append(Violation("symmetric:added-custom-unit", "after adding units %r: are_comparable(%r,%r)=%r but are_comparable(%r,%r)=%r"
                                     % ([a["unit"] for a in case["adds"]], ua, ub, c_ab, ub, ua, c_ba), case))
            r_ab = cmp_ok(lambda: U.compare_values("<", pr["va"], ua, pr["vb"], ub))
            r_ba = cmp_ok(lambda: U.compare_values(">", pr["vb"], ub, pr["va"], ua))
            if (r_ab[0] == "raise") != (r_ba[0] == "raise"):
                out.append(Violation("raise-sym:added-custom-unit", "compare_values raises in one order only for (%r,%r): %r vs %r" % (ua, ub, r_ab, r_ba), case))
            continue
        for v in _check_pair(pr, ref):
            fam = v.sig.split(":")[0]
            op = (":" + v.sig.split(":")[1]) if fam == "exact" else ""
            out.append(Violation("%s%s:added-unit" % (fam, op), "after adding units %r (warm-up %r): %s"
                                 % ([(a["unit"], a.get("quantity") or a.get("custom_quantity"), a.get("factor")) for a in case["adds"]], case.get("warm", []), v.msg), case))
    return out


def _rename_units(case, mapping):
    """the same scenario with its added units renamed (names are process-wide and cannot be removed again)"""
    def r(u):
        return mapping.get(u, u)
    return {"kind": "registry", "warm": [r(u) for u in case.get("warm", [])],
            "adds": [dict(a, unit=r(a["unit"]), **({"then_query": [r(u) for u in a["then_query"]]} if "then_query" in a else {})) for a in case["adds"]],
            "pairs": [dict(p_, ua=r(p_["ua"]), ub=r(p_["ub"])) for p_ in case["pairs"]]}


def _alpha(n: int) -> str:
    out = ""
    while True:
        out = "abcdefghijklmnopqrstuvwxyz"[n % 26] + out
        n = n // 26 - 1
        if n < 0:
            return out


def check_registry_case(case, fork: bool = True) -> list[Violation]:
    import gc, os, pickle
    if not _FROZEN:
        gc.collect()
        gc.freeze()           # keep the parent's long-lived objects out of the child's (and our own) collections
        _FROZEN.append(True)
    try:
        adds = case["adds"]
        assert isinstance(adds, list) and adds and isinstance(case["pairs"], list)
        names = set()
        for a in adds:
            assert re.match(r"^xu[a-z]{1,6}$", a["unit"]) and a["unit"] not in names
            names.add(a["unit"])
            if a.get("custom_quantity"):
                assert re.match(r"^xq[a-z]{1,3}$", a["custom_quantity"])
            else:
                assert a["quantity"] in ADDABLE and _DEC_RE.match(a["factor"]) and F(a["factor"]) > 0 and not a["factor"].startswith("-")
        for pr in case["pairs"]:
            assert _DEC_RE.match(pr["va"]) and _DEC_RE.match(pr["vb"])
    except (AssertionError, KeyError, TypeError, ValueError, ZeroDivisionError):
        return []   # outside the domain (shrinker)
    if not fork:
        # generation path: the scenario runs in this process under unit names never used before in it (the caller renames);
        # a reported case is re-validated through the forked path by the framework (replay / shrinking)
        return [Violation(v.sig, v.msg, case) for v in _registry_child(case)]
    r, w = os.pipe()
    pid = os.fork()
    if pid == 0:
        code = 0
        try:
            import gc
            gc.disable()      # a collection in the child would touch (copy-on-write) every page of the inherited heap
            os.close(r)
            res = _registry_child(case)
            with os.fdopen(w, "wb") as f:
                pickle.dump([(v.sig, v.msg) for v in res], f)
        except BaseException:
            import traceback
            try:
                with os.fdopen(w, "wb") as f:
                    pickle.dump(("error", traceback.format_exc()), f)
            except Exception:
                pass
            code = 3
        os._exit(code)
    os.close(w)
    with os.fdopen(r, "rb") as f:
        data = f.read()
    os.waitpid(pid, 0)
    res = pickle.loads(data)
    if isinstance(res, tuple) and res and res[0] == "error":
        raise RuntimeError("registry scenario child failed:\n" + res[1])
    return [Violation(sig, msg, case) for sig, msg in res]


@st.composite
def registry_cases(draw):
    base_units = [u for u in REF if REF[u][2] == 0]
    n = draw(st.integers(1, 3))
    adds, names = [], []
    for i in range(n):
        unit = "xu" + "abc"[i]
        names.append(unit)
        if draw(st.integers(0, 5)) == 0:
            adds.append({"unit": unit, "custom_quantity": "xq" + draw(st.sampled_from(["a", "b"]))})
        else:
            q = draw(st.sampled_from(sorted(ADDABLE)))
            factor = draw(st.sampled_from(["10", "0.1", "0.001", "1000", "3", "0.3", "7e-3", "2.54", "1", "60"]))
            adds.append({"unit": unit, "quantity": q, "factor": factor,
                         "then_query": draw(st.lists(st.sampled_from(base_units + names), max_size=2))})
    warm = draw(st.lists(st.sampled_from(base_units), max_size=4))
    # make the interesting order likely: query an old unit of the quantity that later receives a unit
    for a in adds:
        if "quantity" in a and draw(st.booleans()):
            warm.append(draw(st.sampled_from([u for u in REF if REF[u][0] == REF[ADDABLE[a["quantity"]]][0]])))
    pairs = []
    for _ in range(draw(st.integers(2, 6))):
        a = draw(st.sampled_from(adds))
        new = a["unit"]
        if "quantity" in a and draw(st.integers(0, 3)) > 0:
            other = draw(st.sampled_from([u for u in REF if REF[u][0] == REF[ADDABLE[a["quantity"]]][0]] + [x["unit"] for x in adds if x.get("quantity") == a["quantity"]]))
        else:
            other = draw(st.sampled_from(base_units + names))
        ua, ub = (new, other) if draw(st.booleans()) else (other, new)
        va = draw(decimal_strings())
        mode = draw(st.sampled_from(["random", "image", "same"]))
        vb = draw(decimal_strings())
        if mode == "same":
            vb = va
        elif mode == "image" and "quantity" in a:
            tmp = dict(REF)
            for x in adds:
                if "quantity" in x:
                    tmp[x["unit"]] = (REF[ADDABLE[x["quantity"]]][0], F(x["factor"]) * REF[ADDABLE[x["quantity"]]][1], 0)
            if ua in tmp and ub in tmp and tmp[ua][0] == tmp[ub][0]:
                vb = _dec_str(F(va) * tmp[ua][1] / tmp[ub][1], 34)
        pairs.append({"ua": ua, "ub": ub, "va": va, "vb": vb})
    return {"kind": "registry", "warm": warm, "adds": adds, "pairs": pairs}


# ---- generators ---------------------------------------------------------------------------------

def _dec_str(fr: F, digits: int = 30) -> str:
    """decimal string of a Fraction rounded to `digits` significant digits (exact when it terminates)."""
    import decimal
    ctx = decimal.Context(prec=digits)
    d = ctx.divide(decimal.Decimal(fr.numerator), decimal.Decimal(fr.denominator))
    s = format(d, "f")
    if "." in s:
        s = s.rstrip("0").rstrip(".")
    return s or "0"


@st.composite
def decimal_strings(draw):
    sign = draw(st.sampled_from(["", "", "-"]))
    nd = draw(st.integers(1, 30))
    digits = draw(st.text("0123456789", min_size=nd, max_size=nd))
    point = draw(st.integers(0, nd))
    mant = digits[:point] or "0"
    frac = digits[point:]
    s = sign + mant.lstrip("0").rjust(1, "0") + ("." + frac if frac else "")
    exp = draw(st.sampled_from([None, None, None, 0, 1, -1, 3, -3, 6, -9, 12]))
    if exp is not None:
        s += draw(st.sampled_from(["e", "E"])) + str(exp)
    return s


@st.composite
def value_pairs(draw, ua, ub):
    va = draw(decimal_strings())
    mode = draw(st.sampled_from(["random", "image", "image+eps", "image-eps", "same"]))
    if mode == "random" or not same_quantity(ua, ub):
        return va, draw(decimal_strings()), "random"
    fa, oa = (F(1), 0) if ua is None else REF[ua][1:]
    fb, ob = (F(1), 0) if ub is None else REF[ub][1:]
    img = (F(va) * fa + oa - ob) / fb
    if mode == "same":
        return va, va, mode
    if mode == "image+eps":
        img = img + abs(img) * F(1, 10 ** 25) + F(1, 10 ** 28)
    elif mode == "image-eps":
        img = img - abs(img) * F(1, 10 ** 25) - F(1, 10 ** 28)
    return va, _dec_str(img, 34), mode


def run_shard(col, cfg):
    us = units()
    pairs = [(a, b) for a in us for b in us]
    mine = pairs[col.shard::col.nshards]
    col.extra["unit_pairs_enumerated"] = len(mine)

    n_reg = _REG_COUNTER     # per process: a worker may run several shards

    def reg_body(case):
        # fresh unit names per scenario: additions to the process-wide registry cannot be undone
        mapping = {}
        for a in case["adds"]:
            mapping[a["unit"]] = "xu" + _alpha(n_reg[0])
            n_reg[0] += 1
        case = _rename_units(case, mapping)
        vs = check_registry_case(case, fork=False)
        warmed = any("quantity" in a and any(REF.get(w, ("",))[0] == REF[ADDABLE[a["quantity"]]][0] for w in case["warm"]) for a in case["adds"])
        col.record(case, True, classes=["registry", "registry:warm-query-of-same-quantity" if warmed else "registry:cold",
                                        "registry:adds=%d" % len(case["adds"])], violations=vs)

    # registry scenarios run first (own share of the budget): the child then sees exactly the generated warm-up queries
    import time as _time
    overall = col.deadline
    col.deadline = min(overall, _time.monotonic() + float(cfg.get("registry_budget_s", 15)))   # own share of the budget
    hyp_run(registry_cases(), reg_body, cfg["registry_cases"], shard_seed(col.seed, col.shard) * 10000 + 9999, col)
    registry_cut = col.budget_exhausted
    col.deadline, col.budget_exhausted = overall, False
    if registry_cut:
        col.count("registry-phase-cut-by-its-budget")

    for i, (ua, ub) in enumerate(mine):
        if col.expired():
            break

        def body(vp, ua=ua, ub=ub):
            va, vb, mode = vp
            case = {"ua": ua, "ub": ub, "va": va, "vb": vb}
            vs = check_case(case)
            nontrivial = ua != ub and same_quantity(ua, ub)
            col.record(case, nontrivial, classes=["mode:" + mode, "same-unit" if ua == ub else ("same-quantity" if same_quantity(ua, ub) else "cross-quantity")], violations=vs)

        hyp_run(value_pairs(ua, ub), body, cfg["per_pair"], shard_seed(col.seed, col.shard) * 10000 + i, col)

def shrink_hints(case):
    for k in ("va", "vb"):
        for t in ("0", "1", "-1", "32", "100"):
            if case[k] != t:
                c = dict(case)
                c[k] = t
                yield c
