"""C21 — unit-aware comparisons are exact, consistent and symmetric.

Domain : every ordered pair of supported units (enumerated exhaustively, sharded) x generated
         decimal strings (up to 30 significant digits, exponents, exact images of each other under
         the conversion, images +- a tiny epsilon far below float precision).
Oracle : an independent rational unit system (Fraction factor/offset per unit, written from the SI
         definitions) gives the exact order of the two physical quantities.
Laws   : symmetric   are_comparable(a,b) == are_comparable(b,a)   (incl. raising)
         raise-sym   compare_values raises for (a,b) iff it raises for (b,a)
         exact:<op>  compare_values(op) == reference order, whenever the pair is comparable
         trichotomy  exactly one of < = > holds
         neq         != is the negation of =
         le / ge     <= is (< or =), >= is (> or =)
         mirror      (a op b) == (b mirrored-op a)
"""
from __future__ import annotations

from fractions import Fraction as F

from hypothesis import strategies as st

from vp.core.framework import Violation, hyp_run, shard_seed

ID = "C21"
LEVEL = "exploration"
DESIGN_REF = "DESIGN.md §3 C21"
TECHNIQUE = "exhaustive unit-pair enumeration x Hypothesis-generated decimals against a rational reference unit system"
RULE = ("all 51x51 ordered unit pairs enumerated; per pair Hypothesis draws decimal-string value pairs "
        "(random, exact conversion images, images +- 1e-25 relative). Non-trivial = the two units differ and belong to "
        "one quantity (a conversion is needed). Distinct = distinct (unit_a, unit_b, value_a, value_b).")
ASSUMPTIONS = [
    "reference conversion factors are written by hand from SI definitions (day=86400 s, bar=1e5 Pa, degF=(x+459.67)*5/9 K)",
    "values are finite decimal strings; NaN/Infinity and non-numeric strings are out of the stated domain",
    "a same-quantity pair that the code declares non-comparable in BOTH orders (vol% vs wt%) is accepted: the statement "
    "does not say which pairs must be comparable, only that the answer is order independent",
]
TIERS = {
    "quick": {"per_pair": 24, "budget_s": 100},
    "thorough": {"per_pair": 600, "budget_s": 1500},
}

# ---- reference unit system ---------------------------------------------------------------------
# unit -> (quantity, factor, offset): base = value*factor + offset
REF = {
    "s": ("time", F(1), 0), "min": ("time", F(60), 0), "h": ("time", F(3600), 0), "ms": ("time", F(1, 1000), 0),
    "m": ("length", F(1), 0), "cm": ("length", F(1, 100), 0),
    "m**2": ("area", F(1), 0), "m2": ("area", F(1), 0), "dm2": ("area", F(1, 100), 0), "cm2": ("area", F(1, 10000), 0),
    "kg": ("mass", F(1), 0), "g": ("mass", F(1, 1000), 0),
    "kg/L": ("density", F(1), 0), "g/L": ("density", F(1, 1000), 0),
    "degC": ("temperature", F(1), F("273.15")), "°C": ("temperature", F(1), F("273.15")),
    "degF": ("temperature", F(5, 9), F("459.67") * F(5, 9)), "°F": ("temperature", F(5, 9), F("459.67") * F(5, 9)),
    "K": ("temperature", F(1), 0),
    "mol": ("amount_of_substance", F(1), 0),
    "L": ("volume", F(1), 0), "mL": ("volume", F(1, 1000), 0),
    "L/h": ("flow", F(1), 0), "L/min": ("flow", F(60), 0), "L/d": ("flow", F(1, 24), 0),
    "Hz": ("frequency", F(1), 0), "kHz": ("frequency", F(1000), 0),
    "Pa": ("pressure", F(1), 0), "pascal": ("pressure", F(1), 0), "bar": ("pressure", F(100000), 0),
    "kg/h": ("mass flow rate", F(1000), 0), "g/s": ("mass flow rate", F(3600), 0), "g/min": ("mass flow rate", F(60), 0),
    "g/h": ("mass flow rate", F(1), 0),
    "mS/cm": ("conductivity", F(1000), 0), "µS/cm": ("conductivity", F(1), 0),
    "%": ("percentage", F(1), 0), "vol%": ("percentage", F(1), 0), "wt%": ("percentage", F(1), 0), "mol%": ("percentage", F(1), 0),
    "CV": ("column volume", F(1), 0),
    "AU": ("absorbance", F(1000), 0), "mAU": ("absorbance", F(1), 0), "milliAU": ("absorbance", F(1), 0),
    "LMH/bar": ("permeability", F(1), 0), "L/m2/h/bar": ("permeability", F(1), 0), "L/h/m2/bar": ("permeability", F(1), 0),
    "LMH": ("flux", F(1), 0), "L/m2/h": ("flux", F(1), 0), "L/h/m2": ("flux", F(1), 0),
}
OPS = ["<", "<=", "=", "==", "!=", ">=", ">"]
MIRROR = {"<": ">", "<=": ">=", "=": "=", "==": "==", "!=": "!=", ">=": "<=", ">": "<"}


import re
_DEC_RE = re.compile(r"^-?(\d+(\.\d*)?|\.\d+)([eE][+-]?\d+)?$")


def ref_order(va: str, ua, vb: str, ub) -> int:
    fa, oa = (F(1), 0) if ua is None else REF[ua][1:]
    fb, ob = (F(1), 0) if ub is None else REF[ub][1:]
    x, y = F(va) * fa + oa, F(vb) * fb + ob
    return (x > y) - (x < y)


def ref_op(op: str, order: int) -> bool:
    return {"<": order < 0, "<=": order <= 0, "=": order == 0, "==": order == 0, "!=": order != 0,
            ">=": order >= 0, ">": order > 0}[op]


def same_quantity(ua, ub) -> bool:
    if ua is None or ub is None:
        return ua is None and ub is None
    return REF[ua][0] == REF[ub][0]


def units():
    from openpectus.lang.exec import units as U
    return U.get_supported_units()


# ---- oracle on one case -------------------------------------------------------------------------

def check_case(case) -> list[Violation]:
    from openpectus.lang.exec import units as U
    ua, ub, va, vb = case["ua"], case["ub"], case["va"], case["vb"]
    out: list[Violation] = []
    if not (_DEC_RE.match(va) and _DEC_RE.match(vb)):
        return []   # outside the stated domain (finite decimal strings); reached only by the shrinker
    tag = "%s:%s" % (ua, ub)
    for u in (ua, ub):
        if u is not None and u not in REF:
            return [Violation("harness:unknown-unit:%s" % u, "unit %r is supported by the code but has no reference definition" % u, case)]

    def cmp_ok(fn):
        try:
            return ("ok", fn())
        except ValueError as e:
            return ("raise", "ValueError: %s" % e)
        except Exception as e:  # any other exception type is outside the documented contract ("ValueError")
            return ("raise", "%s: %s" % (type(e).__name__, e))

    c_ab = cmp_ok(lambda: U.are_comparable(ua, ub))
    c_ba = cmp_ok(lambda: U.are_comparable(ub, ua))
    if c_ab != c_ba and not (c_ab[0] == c_ba[0] == "raise"):
        out.append(Violation("symmetric:" + tag, "are_comparable(%r,%r)=%r but are_comparable(%r,%r)=%r" % (ua, ub, c_ab, ub, ua, c_ba), case))

    res_ab = {op: cmp_ok(lambda op=op: U.compare_values(op, va, ua, vb, ub)) for op in OPS}
    res_ba = {op: cmp_ok(lambda op=op: U.compare_values(op, vb, ub, va, ua)) for op in OPS}
    raises_ab = {op for op in OPS if res_ab[op][0] == "raise"}
    raises_ba = {op for op in OPS if res_ba[op][0] == "raise"}
    if bool(raises_ab) != bool(raises_ba):
        bad = sorted(raises_ab or raises_ba)[0]
        out.append(Violation("raise-sym:" + tag, "compare_values raises in one order only: (%r %s %r)->%r ; swapped ->%r"
                             % (ua, bad, ub, res_ab[bad], res_ba[MIRROR[bad]]), case))
    if raises_ab and len(raises_ab) != len(OPS):
        out.append(Violation("raise-some-ops:" + tag, "compare_values raises for operators %s only: %r" % (sorted(raises_ab), res_ab[sorted(raises_ab)[0]]), case))
    if raises_ab:
        # comparable according to are_comparable but the comparison itself fails
        if c_ab == ("ok", True) and same_quantity(ua, ub):
            out.append(Violation("comparable-but-raises:" + tag, "are_comparable is True but compare_values raises: %r" % (res_ab[sorted(raises_ab)[0]],), case))
        return out
    r = {op: res_ab[op][1] for op in OPS}
    if not same_quantity(ua, ub):
        out.append(Violation("cross-quantity-accepted:" + tag, "units of different quantities were compared without error", case))
        return out
    order = ref_order(va, ua, vb, ub)
    for op in OPS:
        if r[op] != ref_op(op, order):
            out.append(Violation("exact:%s:%s" % (op, tag), "%s %s %s %s %s -> %r, exact arithmetic says %r"
                                 % (va, ua, op, vb, ub, r[op], ref_op(op, order)), case))
    if [r["<"], r["="], r[">"]].count(True) != 1:
        out.append(Violation("trichotomy:" + tag, "%s %s vs %s %s: <:%r =:%r >:%r" % (va, ua, vb, ub, r["<"], r["="], r[">"]), case))
    if r["!="] == r["="]:
        out.append(Violation("neq:" + tag, "%s %s vs %s %s: '='->%r and '!='->%r" % (va, ua, vb, ub, r["="], r["!="]), case))
    if r["<="] != (r["<"] or r["="]):
        out.append(Violation("le:" + tag, "%s %s vs %s %s: <=:%r <:%r =:%r" % (va, ua, vb, ub, r["<="], r["<"], r["="]), case))
    if r[">="] != (r[">"] or r["="]):
        out.append(Violation("ge:" + tag, "%s %s vs %s %s: >=:%r >:%r =:%r" % (va, ua, vb, ub, r[">="], r[">"], r["="]), case))
    if r["=="] != r["="]:
        out.append(Violation("eq-alias:" + tag, "'=' and '==' disagree", case))
    if not raises_ba:
        for op in OPS:
            if r[op] != res_ba[MIRROR[op]][1]:
                out.append(Violation("mirror:" + tag, "(%s %s %s %s %s)=%r but (%s %s %s %s %s)=%r"
                                     % (va, ua, op, vb, ub, r[op], vb, ub, MIRROR[op], va, ua, res_ba[MIRROR[op]][1]), case))
                break
    return out


# ---- generators ---------------------------------------------------------------------------------

def _dec_str(fr: F, digits: int = 30) -> str:
    """decimal string of a Fraction rounded to `digits` significant digits (exact when it terminates)."""
    import decimal
    ctx = decimal.Context(prec=digits)
    d = ctx.divide(decimal.Decimal(fr.numerator), decimal.Decimal(fr.denominator))
    s = format(d, "f")
    if "." in s:
        s = s.rstrip("0").rstrip(".")
    return s or "0"


@st.composite
def decimal_strings(draw):
    sign = draw(st.sampled_from(["", "", "-"]))
    nd = draw(st.integers(1, 30))
    digits = draw(st.text("0123456789", min_size=nd, max_size=nd))
    point = draw(st.integers(0, nd))
    mant = digits[:point] or "0"
    frac = digits[point:]
    s = sign + mant.lstrip("0").rjust(1, "0") + ("." + frac if frac else "")
    exp = draw(st.sampled_from([None, None, None, 0, 1, -1, 3, -3, 6, -9, 12]))
    if exp is not None:
        s += draw(st.sampled_from(["e", "E"])) + str(exp)
    return s


@st.composite
def value_pairs(draw, ua, ub):
    va = draw(decimal_strings())
    mode = draw(st.sampled_from(["random", "image", "image+eps", "image-eps", "same"]))
    if mode == "random" or not same_quantity(ua, ub):
        return va, draw(decimal_strings()), "random"
    fa, oa = (F(1), 0) if ua is None else REF[ua][1:]
    fb, ob = (F(1), 0) if ub is None else REF[ub][1:]
    img = (F(va) * fa + oa - ob) / fb
    if mode == "same":
        return va, va, mode
    if mode == "image+eps":
        img = img + abs(img) * F(1, 10 ** 25) + F(1, 10 ** 28)
    elif mode == "image-eps":
        img = img - abs(img) * F(1, 10 ** 25) - F(1, 10 ** 28)
    return va, _dec_str(img, 34), mode


def run_shard(col, cfg):
    us = units()
    pairs = [(a, b) for a in us for b in us]
    mine = pairs[col.shard::col.nshards]
    col.extra["unit_pairs_enumerated"] = len(mine)
    for i, (ua, ub) in enumerate(mine):
        if col.expired():
            break

        def body(vp, ua=ua, ub=ub):
            va, vb, mode = vp
            case = {"ua": ua, "ub": ub, "va": va, "vb": vb}
            vs = check_case(case)
            nontrivial = ua != ub and same_quantity(ua, ub)
            col.record(case, nontrivial, classes=["mode:" + mode, "same-unit" if ua == ub else ("same-quantity" if same_quantity(ua, ub) else "cross-quantity")], violations=vs)

        hyp_run(value_pairs(ua, ub), body, cfg["per_pair"], shard_seed(col.seed, col.shard) * 10000 + i, col)


def shrink_hints(case):
    for k in ("va", "vb"):
        for t in ("0", "1", "-1", "32", "100"):
            if case[k] != t:
                c = dict(case)
                c[k] = t
                yield c
