"""C01 - live method edits never re-run or lose run progress.

Domain : generated well-formed method (blocks, watches, alarms, macros, waits, thresholds, Quick/Slow) x input trajectory
         x edit script of 1-4 live edits (append at the end of the method / of a not-finished scope, change / insert before /
         delete a not-started line, trailing-whitespace-only change, change of a STARTED line (text, or ONLY its indentation so
         that it moves into / out of a scope), append to the body of a macro that has started executing), targets resolved at the edit tick
         from the reported method state; a fraction injects a snippet with a long-running command 1-3 ticks before an edit.
Oracle : (a) history invariants of the edited run: started/executed/failed ids reported before an accepted edit are still
             reported after it (ids still present); no non-repeating line produces its effect twice; an active run merges;
         (b) an edit changing a started line (text or indentation) or the source of a macro that has started executing raises
             MethodEditError, leaves method text + method state untouched and the
             run equals (same ticks, same events) a twin run without that edit;
         (a') a command of a method line that is executing when an edit is accepted goes on (no second start, no second init,
             no iteration 0 again, one finalize) - judged also while the known merge finding is excluded;
         (c) differential: a fresh load of the final method (same inputs, each run until it is quiescent) shows the
             same per-thread effect order, the same executed lines, and finalizes every command the fresh run finalizes.
"""
from __future__ import annotations

from hypothesis import strategies as st

from vp.core.framework import Violation, hyp_run, shard_seed
from vp.harness import edit_h as E
from vp.harness import pcode_gen as G

ID = "C01"
LEVEL = "exploration"
ENGINE = "engine_harness"
TECHNIQUE = ("Hypothesis-generated methods x live-edit scripts resolved from the reported method state; history invariants, "
             "twin run without a rejected edit, differential against a fresh load of the final method")
RULE = ("Hypothesis draws a method (<=7 top-level nodes, depth<=3: Mark/Quick/Slow/Wait/Block/Watch/Alarm/Macro/Call macro, "
        "thresholds), constant or changing inputs, and 1-4 edits at ticks spread over the estimated run (kinds append_end, "
        "append_scope, change, insert, delete, ws, change_started, reindent_started, append_macro; 1/6 of the cases belong to a "
        "macro family (macro called at the start, edits aimed at macros), 1/6 to a running-command family (one Slow line of 4-9 "
        "iterations, the only line of that name, first edit while it executes); target = idx modulo the lines eligible under the method "
        "state reported at that tick); 25 % inject a snippet with a long-running command 1-6 ticks before an edit; 20 % put a user Pause/Hold window around an edit. "
        "Non-trivial = at least one edit was ACCEPTED after a line of the method had started and before the method end event. "
        "Distinct = distinct (method, inputs, script).")
ASSUMPTIONS = [
    "'already-started line' = id listed in started or executed of Engine.method_manager.get_method_state() at the edit; a line "
    "listed as FAILED is neither used as a not-started target nor as a must-reject target: editing the failed line is the engine's "
    "documented way to correct a method error (Engine.set_method clears the error state on an accepted edit)",
    "a change of ONLY the indentation of a started line that moves it into the body of the preceding Block/Watch/Alarm/Macro or out of "
    "its parent's body is a change of that line (it changes which scope executes it) and must be rejected",
    "a macro 'has started executing' when the reported method state lists one of its body lines as started/executed/failed or a "
    "'Call macro' line naming it as executed; an edit that changes its significant source lines (add/remove/change, whitespace and "
    "comments ignored) changes what the already started 'Macro'/'Call macro' lines mean and must be rejected (the engine's own rule: "
    "'The macro ... has already started executing may not be modified'); edits of macros not (yet) shown as started are not judged this way",
    "a TRAILING-whitespace-only change of a started line may be accepted or rejected (the statement does not say whether it is a change); "
    "if rejected it must have no side effect",
    "an edit of not-started lines that the engine rejects (e.g. node class mismatch) is counted, not judged, except by the history invariants",
    "timing is not compared in (c); (c) is applied only with constant inputs, no Watch/Alarm nested in a Block, both runs quiescent",
    "effects of lines inside Alarm bodies and Macro bodies may repeat and are excluded from the re-run invariant",
]
TIERS = {"quick": {"examples": 3200, "budget_s": 150, "max_top": 6, "max_depth": 3, "max_edits": 4},
         "thorough": {"examples": 64000, "budget_s": 1500, "max_top": 9, "max_depth": 4, "max_edits": 4}}

# Known genuine defect (see report / known_findings): every accepted merge returns a program without state, so the method
# state is emptied and the whole method runs again.  With the switch on, the case is reported with exactly this signature
# and its downstream checks ((a) re-run, later edits, (c)) are skipped and counted as excluded_known:<sig>; everything up
# to and including that edit ((b), reject-missing, immediate state checks) is still judged.
EXCLUDE_KNOWN_MERGE_DISCARDS_STATE = True
SIG_MERGE_DISCARDS = "lost-state:all:merge-installs-stateless-program"

KINDS_W = ["append_end"] * 3 + ["append_scope"] * 3 + ["change"] * 3 + ["insert"] * 3 + ["delete"] * 2 + ["ws"] + ["change_started"] * 3 + \
    ["reindent_started"] * 3 + ["append_macro"]
KINDS_RUNNING = ["append_end"] * 4 + ["append_scope"] * 2 + ["insert"] * 2 + ["change", "delete", "ws", "change_started"]
KINDS_MACRO = ["append_macro"] * 5 + ["insert", "delete", "change", "change_started", "reindent_started"]
INJ_CMDS = ("OvA", "Set3")      # injected commands: names the method never uses (same-name commands cancel each other)
EDIT_CMDS = ("Slow", "Quick")


def _cfg(tier_cfg) -> G.GenCfg:
    return G.GenCfg(kinds={"mark": 6, "quick": 2, "slow": 2, "wait": 3, "block": 3, "watch": 2, "alarm": 1, "macro": 1,
                           "callmacro": 1, "blank": 1, "comment": 1},
                    max_depth=tier_cfg.get("max_depth", 3), max_top=tier_cfg.get("max_top", 6), max_children=3,
                    thresholds=True, base_first="s")


@st.composite
def cases(draw, tier_cfg):
    tree = E.fix_tree(draw(G.program(_cfg(tier_cfg))))
    kinds_w = KINDS_W
    if draw(st.integers(0, 5)) == 0:
        # macro family: a macro that is called early (and possibly again later), edits aimed at macros - the edit of a macro
        # that has started executing must be rejected
        body = [{"k": "mark", "t": None}] + draw(st.lists(st.sampled_from([{"k": "mark", "t": None}, {"k": "quick", "t": None},
                                                                          {"k": "wait", "d": 0.2, "t": None}]), max_size=2))
        if draw(st.booleans()):
            body.append({"k": draw(st.sampled_from(["blank", "comment"])), "t": None})
        pre = [{"k": "macro", "name": "MX", "c": body, "t": None}, {"k": "callmacro", "name": "MX", "t": None}]
        tree["body"] = pre + tree["body"]
        if draw(st.booleans()):
            tree["body"].append({"k": "callmacro", "name": "MX", "t": None})
        kinds_w = KINDS_MACRO
    cmd_window = None
    if kinds_w is KINDS_W and draw(st.integers(0, 4)) == 0:
        # running-command family: ONE long Slow line (the only line with that command name) and an accept-likely edit while it
        # executes - a command that is executing when an edit is accepted goes on, it is not started again
        def no_slow(nodes):
            for nd in nodes:
                if nd["k"] == "slow":
                    nd["k"] = "quick"
                    nd.pop("n", None)
                no_slow(nd.get("c", []))
        no_slow(tree["body"])
        pos = draw(st.integers(0, len(tree["body"])))
        nlong = draw(st.integers(4, 9))
        tree["body"].insert(pos, {"k": "slow", "n": nlong, "t": None})
        t_cmd = min(E.est_ticks({"body": tree["body"][:pos]}) + 1, 270)
        cmd_window = (t_cmd, nlong)
        kinds_w = KINDS_RUNNING
    est = min(E.est_ticks(tree), 280)      # ops stay within tick 1..300 (valid_ops)
    init = {t: float(draw(st.sampled_from([0, 1, 2, 3, 5, 8]))) for t in ("In1", "In2", "Temp")}
    traj = [[0, init]]
    if draw(st.integers(0, 3)) == 0:
        traj += [p for p in draw(G.trajectory(est + 10)) if p[0] > 0]
    ops = []
    for n_edit in range(draw(st.integers(1, tier_cfg.get("max_edits", 4)))):
        tick = draw(st.integers(1, est + 6))
        payload = draw(st.lists(E.LEAF, min_size=1, max_size=3))
        if cmd_window is not None:
            payload = [q if q["k"] != "slow" else {"k": "mark"} for q in payload]      # the Slow line stays the only one
            if n_edit == 0:
                tick = max(1, cmd_window[0] + draw(st.integers(-1, cmd_window[1] + 2)))
        ops.append({"op": "edit", "tick": tick, "kind": draw(st.sampled_from(kinds_w)),
                    "idx": draw(st.integers(0, 40)), "payload": payload})
    if draw(st.integers(0, 3)) == 0:
        tgt = ops[draw(st.integers(0, len(ops) - 1))]
        # the injected long command starts 3 ticks after the injection and runs 2-4 ticks: 1-6 ticks ahead of the edit puts
        # the edit before, during and after it
        ops.append({"op": "inject", "tick": max(1, tgt["tick"] - draw(st.integers(1, 6))),
                    "snippet": draw(E.snippet_strategy(allow_block=False, min_slow=True))})
    if draw(st.integers(0, 4)) == 0:      # a Pause/Hold window around one of the edits (edit while paused / on hold)
        tgt = ops[draw(st.integers(0, len(ops) - 1))]
        which = draw(st.sampled_from(["Pause", "Hold"]))
        a = max(1, tgt["tick"] - draw(st.integers(1, 4)))
        ops.insert(0, {"op": "user", "tick": a, "name": which})
        ops.append({"op": "user", "tick": tgt["tick"] + draw(st.integers(0, 4)), "name": "Unpause" if which == "Pause" else "Unhold"})
    return {"tree": tree, "traj": traj, "ops": ops}


def _valid(case) -> bool:
    try:
        if not isinstance(case, dict) or not E.valid_tree(case.get("tree")) or not E.valid_ops(case.get("ops")):
            return False
        lines = G.render(case["tree"])
        if not lines or len(lines) > 80 or any(l.kind == "ova" for l in lines):   # OvA is reserved for the injected code
            return False
        tr = case.get("traj")
        if not isinstance(tr, list):
            return False
        for p in tr:
            if not (isinstance(p, list) and len(p) == 2 and isinstance(p[0], int) and 0 <= p[0] <= 400 and isinstance(p[1], dict)
                    and all(k in ("In1", "In2", "Temp") and isinstance(v, (int, float)) for k, v in p[1].items())):
                return False
        if not any(o["op"] == "edit" for o in case["ops"]):
            return False
        return True
    except Exception:
        return False


def _kind_of_key(key: str) -> str:
    return "mark" if key.startswith("mark:") else key.split(":")[1].lower()


def _running_command_clause(A, viol, cl, merge_known_broken):
    """A UOD command of a method line that is EXECUTING when an edit is accepted (merge) goes on: until the next accepted edit
    no second instance of that line's command starts, the running instance is not initialised again and never executes
    iteration 0 again, and it is not finalized twice (that it finishes at all is judged only when the merge kept its state: after
    the known merge finding the method does not always get back to the line).  Judged independently of the known merge finding (which re-runs
    COMPLETED lines): the running line is re-visited once and the unchanged engine lets the running instance go on.  Only for
    lines outside Alarm/Macro bodies whose command name no other line of the method (before and after the edit) uses -
    another line of that name would legitimately take over / cancel the instance."""
    acc = [r for r in A["edits"] if r["accepted"]]
    inst: dict = {}
    for e in A["events"]:
        if e[1] != "cmd":
            continue
        d = inst.setdefault(e[3], {"name": e[2], "key": None, "first": None, "fin": [], "exec": [], "init": []})
        if e[4] == "exec":
            if d["key"] is None:
                d["key"], d["first"] = "cmd:%s:%s" % (e[2], str(e[5]).strip()), e[0]
            d["exec"].append((e[0], e[6]))
        elif e[4] == "finalize":
            d["fin"].append(e[0])
        elif e[4] == "init":
            d["init"].append(e[0])
    for n, r in enumerate(acc):
        if r["ret"] != "merge_method":
            continue
        te = r["tick"]
        nxt = acc[n + 1]["tick"] if n + 1 < len(acc) else 10 ** 9
        So = E.Struct(r["old_lines"])
        for iid in sorted(inst, key=lambda i: (inst[i]["first"] or 0, str(i))):
            d = inst[iid]
            if d["key"] is None or not (d["first"] < te) or [f for f in d["fin"] if f < te]:
                continue                                     # not executing at the edit
            li = [j for j, (_, t) in enumerate(r["old_lines"]) if E.line_key(t) == d["key"]]
            if len(li) != 1 or So.info(li[0])["repeating"]:
                continue                                     # injected command, or a line in an Alarm / Macro body
            same_name = lambda lines: len([1 for _, t in lines if E.split_line(t)[1] == d["name"]])   # noqa: E731
            if same_name(r["old_lines"]) != 1 or same_name(r["new_lines"]) != 1:
                cl.append("running-command-at-edit:not-judged:name-used-by-other-lines")
                continue
            cl.append("running-command-at-edit:judged")
            lid = r["old_lines"][li[0]][0]
            others = [(i2, d2["first"]) for i2, d2 in inst.items() if i2 != iid and d2["key"] == d["key"] and te <= d2["first"] < nxt]
            ctx = "line %s (%s) was executing (iterations so far %s) when the edit (%s) at tick %d was accepted" \
                % (lid, d["key"], [x[1] for x in d["exec"] if x[0] < te], r["info"]["kind"], te)
            if others:
                viol("running-command-restarted:new-instance", "%s; a second instance of the command started at tick %d; first "
                     "instance: exec %s finalize %s" % (ctx, others[0][1], d["exec"], d["fin"]))
            if [x for x in d["exec"] if te <= x[0] < nxt and x[1] == 0] or [x for x in d["init"] if te <= x < nxt]:
                viol("running-command-restarted:same-instance", "%s; the instance was initialised / ran iteration 0 again: init %s exec %s"
                     % (ctx, d["init"], d["exec"]))
            if len(d["fin"]) > 1:
                viol("running-command-finalized-twice", "%s; finalize at ticks %s" % (ctx, d["fin"]))
            # after a merge that shows the known finding the method may not get back to the line at all (then nothing ticks the
            # instance any more): whether the command FINISHES is judged only on a tree whose merges keep their state
            if not merge_known_broken and not d["fin"] and nxt == 10 ** 9 and A["quiet"] and A["final_state"] == "Running" and not others:
                viol("running-command-never-finalized", "%s; it never finished in %d ticks (exec %s)" % (ctx, A["n_ticks"], d["exec"]))


def run_case(case):
    lines0 = [list(x) for x in G.as_method_lines(G.render(case["tree"]))]
    traj, ops = case["traj"], case["ops"]
    out: list[Violation] = []
    info = {"classes": [], "nontrivial": False, "excluded": 0}
    cl = info["classes"]

    def viol(sig, msg):
        if not any(v.sig == sig for v in out):
            out.append(Violation(sig, msg, case))

    A = E.run_script(lines0, traj, ops, edit_cmds=EDIT_CMDS, inj_cmds=INJ_CMDS)
    if A["raised"] is not None:
        viol("tick-raised", "tick %d raised %s" % A["raised"])
    merge_broken_at = None
    n_acc = 0
    twins = 0
    for rec in A["edits"]:
        k = rec["info"]["kind"]
        if rec["new_lines"] is None:
            cl.append("edit-noop:%s" % k)
            continue
        if merge_broken_at is not None and EXCLUDE_KNOWN_MERGE_DISCARDS_STATE:
            info["excluded"] += 1
            continue
        before, after = rec["ms_before"], rec["ms_after"]
        progressed = bool((before["started"] | before["executed"] | before["failed"]) - {"root"})
        if rec["cmds_running"] and any(c in INJ_CMDS for c in rec["cmds_running"]):
            cl.append("edit-during-injected-command")
        if rec["cmds_running"]:
            cl.append("edit-during-running-command")
        if rec["info"].get("nested"):
            cl.append("edit-nested")
        if rec["method_end_seen"]:
            cl.append("edit-after-method-end")
        elif not (before["started"] - {"root"}) and (before["executed"] - {"root"}):
            cl.append("edit-between-lines(threshold-wait-or-line-boundary)")
        started_txt = [dict(rec["old_lines"]).get(i, "") for i in before["started"]]
        if any(E.split_line(t)[1] == "Wait" for t in started_txt):
            cl.append("edit-during-wait")
        if rec["state"] != "Running":
            cl.append("edit-while:%s" % rec["state"])
        if k == "append_macro":
            cl.append("append_macro:%s" % ("started-macro" if rec["info"]["started_macro_edit"] else "not-started-macro-or-fallback"))
        if rec["accepted"]:
            n_acc += 1
            cl.append("accepted:%s" % k)
            if progressed and not rec["method_end_seen"]:
                info["nontrivial"] = True
            if rec["info"]["expect_reject"]:
                if k == "reindent_started":
                    viol("reject-missing:indentation-only", "edit at tick %d changed only the indentation of started line %s (%r -> %r, "
                         "moved %s of a scope) and was accepted (%s)"
                         % (rec["tick"], rec["info"]["target"], dict(rec["old_lines"]).get(rec["info"]["target"]),
                            dict(rec["new_lines"]).get(rec["info"]["target"]), rec["info"].get("reindent"), rec["ret"]))
                elif rec["info"]["started_macro_edit"] and k != "change_started":
                    viol("reject-missing:started-macro", "edit (%s) at tick %d changed the source of macro line(s) %s that had started "
                         "executing (state: started=%s executed=%s) and was accepted (%s); new lines %s"
                         % (k, rec["tick"], rec["info"]["started_macro_edit"], sorted(before["started"]), sorted(before["executed"]),
                            rec["ret"], [l for l in rec["new_lines"] if l not in rec["old_lines"]][:4]))
                else:
                    viol("reject-missing", "edit at tick %d changed started line %s (%r) and was accepted (%s)"
                         % (rec["tick"], rec["info"]["target"], dict(rec["new_lines"]).get(rec["info"]["target"]), rec["ret"]))
            if k == "ws" and rec["info"]["touched"]:
                cl.append("ws-on-started:accepted")
            present = {l[0] for l in rec["new_lines"]} | {"root"}
            lost_e = (before["executed"] & present) - after["executed"]
            lost_s = (before["started"] & present) - (after["started"] | after["executed"] | after["failed"])
            same_text = {l[0] for l in rec["new_lines"] if l in rec["old_lines"]}       # an edited failed line may stop being failed
            lost_f = (before["failed"] & present & same_text) - after["failed"]
            all_before = before["started"] | before["executed"] | before["failed"]
            all_after = after["started"] | after["executed"] | after["failed"]
            if all_before and not all_after:
                viol(SIG_MERGE_DISCARDS, "accepted edit (%s, %s) at tick %d: method state before started=%s executed=%s, after the edit "
                     "every list is empty" % (k, rec["ret"], rec["tick"], sorted(before["started"]), sorted(before["executed"])))
                merge_broken_at = rec["tick"]
                continue
            if lost_e:
                viol("lost-state:executed", "edit at tick %d (%s): executed ids %s no longer reported" % (rec["tick"], k, sorted(lost_e)))
            if lost_s:
                viol("lost-state:started", "edit at tick %d (%s): started ids %s no longer reported" % (rec["tick"], k, sorted(lost_s)))
            if lost_f:
                viol("lost-state:failed", "edit at tick %d (%s): failed ids %s no longer reported" % (rec["tick"], k, sorted(lost_f)))
            if all_before and rec["ret"] != "merge_method":
                viol("replaced-instead-of-merged", "edit at tick %d during an active run with started lines %s was applied as %r"
                     % (rec["tick"], sorted(all_before), rec["ret"]))
        else:
            cl.append("rejected:%s" % k)
            if rec["info"]["started_macro_edit"]:
                cl.append("rejected:started-macro-edit")
            stated = rec["info"]["expect_reject"] or (k == "ws" and rec["info"]["touched"])
            if not stated:
                cl.append("rejected-not-started-edit:%s" % k)
            if rec["ms_after"] != before:
                viol("reject-side-effect:method-state", "rejected edit at tick %d (%s) changed the method state %r -> %r"
                     % (rec["tick"], k, before, rec["ms_after"]))
            if rec["text_after"] != rec["old_lines"]:
                viol("reject-side-effect:method-text", "rejected edit at tick %d (%s) changed the method text" % (rec["tick"], k))
            if stated and twins < 2:
                twins += 1
                T = E.run_script(lines0, traj, ops, edit_cmds=EDIT_CMDS, inj_cmds=INJ_CMDS, skip_op=rec["op"], n_ticks=A["n_ticks"])
                ea, et = E.norm_events(A["events"]), E.norm_events(T["events"])
                if ea != et or A["final_ms"] != T["final_ms"] or A["final_lines"] != T["final_lines"]:
                    d = next((i for i, (x, y) in enumerate(zip(ea, et)) if x != y), min(len(ea), len(et)))
                    viol("reject-side-effect:run", "run with the rejected edit at tick %d (%s) differs from the twin without it; first "
                         "difference: %r vs %r" % (rec["tick"], k, ea[d] if d < len(ea) else None, et[d] if d < len(et) else None))
                cl.append("twin-compared")
    cl.append("edits:%d" % len(A["edits"]))
    cl.append("accepted-edits:%d" % n_acc)
    if A["injects"]:
        cl.append("with-injection")
    if any(i["refused"] for i in A["injects"]):
        cl.append("injection-refused(not C01's subject)")

    _running_command_clause(A, viol, cl, merge_broken_at is not None and EXCLUDE_KNOWN_MERGE_DISCARDS_STATE)

    if merge_broken_at is not None and EXCLUDE_KNOWN_MERGE_DISCARDS_STATE:
        info["excluded"] += 1
        cl.append("downstream-excluded")
        return out, info

    # ---- (a) no non-repeating line produces its effect twice ------------------------------------------------------
    starts, lifeA = E.effects(A["events"])
    counts: dict = {}
    for _, key in starts:
        counts[key] = counts.get(key, 0) + 1
    keyinfo: dict = {}
    for ver in A["versions"]:
        S = E.Struct(ver)
        for i, (lid, text) in enumerate(ver):
            k = E.line_key(text)
            if k is not None and k not in keyinfo:
                keyinfo[k] = (lid, S.info(i))
    for key in sorted(counts):
        if counts[key] > 1 and key in keyinfo and not keyinfo[key][1]["repeating"]:
            ticks = [t for t, k in starts if k == key]
            viol("rerun:%s" % _kind_of_key(key), "line %s (%s) produced its effect %d times (ticks %s); edits at ticks %s"
                 % (keyinfo[key][0], key, counts[key], ticks, [r["tick"] for r in A["edits"] if r["accepted"]]))
    final_keys = {E.line_key(t) for _, t in A["final_lines"]}
    for key in sorted(counts):
        if key in keyinfo and key not in final_keys and not keyinfo[key][1]["repeating"]:    # Alarm/Macro bodies are reset
            viol("effect-of-removed-line", "effect %s of line %s which was not started when an edit changed/removed it"
                 % (key, keyinfo[key][0]))

    # ---- (c) differential against a fresh load of the final method ------------------------------------------------
    S = E.Struct(A["final_lines"])
    reason = None
    if n_acc == 0:
        reason = "no-accepted-edit"
    elif any(p[0] > 0 for p in traj):
        reason = "inputs-change"
    elif not A["quiet"]:
        reason = "edited-run-not-quiescent"
    elif S.has_interrupt_in_block():
        reason = "interrupt-in-block"
    if reason is None:
        # the fresh run goes on until IT is quiescent (timing is not compared; e.g. an edit applied before the program started
        # replaces the command queue, so a user Pause queued in that tick exists only in the fresh run)
        B = E.run_script(A["final_lines"], traj, ops, edit_cmds=EDIT_CMDS, inj_cmds=INJ_CMDS, drop_edits=True, drop_injects=True)
        startsB, lifeB = E.effects(B["events"])
        errA = [e[2:] for e in A["error_events"]]
        errB = [e[2:] for e in B["error_events"]]
        if errB:
            reason = "fresh-run-has-method-error"      # the reference itself fails (not an edit matter; C13's subject)
        elif not B["quiet"] or B["final_state"] != "Running":
            reason = "fresh-run-not-quiescent"
        else:
            cl.append("c-compared")
            if errA:
                viol("diff:method-error", "edited run has method errors %s, the fresh load of the final method has none" % (errA[:1],))
            key2line = {}
            for i, (lid, text) in enumerate(A["final_lines"]):
                k = E.line_key(text)
                if k is not None:
                    key2line[k] = (lid, S.info(i))
            skip_macro = S.macro_called_from_interrupt()

            def seqs(st_):
                d: dict = {}
                for _, key in st_:
                    if key not in key2line:
                        continue
                    inf = key2line[key][1]
                    if inf["in_alarm"] or (inf["in_macro"] and skip_macro):
                        continue
                    d.setdefault(inf["thread"], []).append(key)
                return d
            sa, sb = seqs(starts), seqs(startsB)
            for th in sorted(set(sa) | set(sb)):
                if sa.get(th, []) != sb.get(th, []):
                    name = "main" if th == "main" else ("macro" if th.startswith("macro:") else "watch")
                    viol("diff:%s" % name, "thread %s: edited run %s, fresh load of the final method %s (edits at ticks %s)"
                         % (th, sa.get(th, []), sb.get(th, []), [r["tick"] for r in A["edits"] if r["accepted"]]))
            robust = {lid for i, (lid, _) in enumerate(A["final_lines"]) if not S.info(i)["in_alarm"] and S.ins[i] != "Alarm"
                      and not (S.info(i)["in_macro"] and skip_macro)}
            ea, eb = A["final_ms"]["executed"] & robust, B["final_ms"]["executed"] & robust
            if ea != eb:
                viol("diff:executed-set", "executed lines differ: only in the edited run %s, only in the fresh run %s"
                     % (sorted(ea - eb), sorted(eb - ea)))
            for key in sorted(lifeB):
                if key in lifeA and key in key2line and lifeB[key]["fin"] >= 1 and lifeA[key]["fin"] == 0:
                    viol("diff:cmd-not-finalized", "command %s of line %s: fresh run finalized it, the edited run never did "
                         "(%s vs %s)" % (key, key2line[key][0], lifeA[key], lifeB[key]))
    if reason is not None:
        cl.append("c-skipped:%s" % reason)
    return out, info


def check_case(case):
    if not _valid(case):
        return []
    return run_case(case)[0]


def run_shard(col, cfg):
    def body(case):
        vs, info = run_case(case)
        if info["excluded"]:
            col.count("excluded_known:%s" % SIG_MERGE_DISCARDS, info["excluded"])
        kinds = G.count_kinds(case["tree"])
        classes = sorted(set(info["classes"]))
        if kinds.get("_depth", 0) >= 2:
            classes.append("method-nested")
        for k in ("watch", "alarm", "macro", "block"):
            if kinds.get(k):
                classes.append("method-has-%s" % k)
        lines = G.render(case["tree"])
        col.record(case, info["nontrivial"], classes=classes, violations=vs,
                   sample={"method": G.text_of(lines), "traj": case["traj"], "ops": case["ops"]})
    # batches with derived seeds: after the budget has run out Hypothesis would still generate (not run) every remaining
    # example of a call, so a shard stops between batches instead
    n, batch, b = max(1, cfg["examples"] // col.nshards), 200, 0
    while b * batch < n and not col.expired():
        hyp_run(cases(cfg), body, min(batch, n - b * batch), shard_seed(col.seed, col.shard) * 1000 + b, col)
        b += 1
