"""C22 — command argument patterns accept exactly their documented language.

Patterns under test (openpectus/lang/exec/regex.py): RegexNumber, RegexNumberOptional, RegexCategorical,
used exactly as RegexNamedArgumentParser (uod.py) uses them: re.search(pattern, argument).groupdict().
Introspection under test (uod.py): RegexNamedArgumentParser.get_units / get_exclusive_options /
get_additive_options, also after the serialize()/deserialize() round trip the editor performs.

Oracle = two hand written recognisers per pattern kind, bracketing the documented language:

  strict  : strings the statement / docstrings / shipped tests say MUST be accepted
  liberal : strict plus every spelling on which the statement is silent (counted, never judged)

  strict(c)        and regex rejects  -> rejects:<class>
  not liberal(c)   and regex accepts  -> accepts:<class>
  regex accepts and liberal(c)        -> captured groups must be one of the recogniser's parses, must
                                         be the generated parts when the parse is unique (capture:*),
                                         float(number) must work (documented guarantee)

Number, strict : [ASCII spaces] ['-' unless non_negative] (D+ | D+.D+ | .D+ ; D+ only when int_only)
                 [ASCII spaces] (one declared unit, required, iff units were declared) [ASCII spaces]
Number, liberal additionally: any str.isspace() character as white space, trailing-dot numbers "12."
                 (not when int_only), a '+' sign, non-ASCII decimal digits, a bare number although
                 units were declared (statement: "optionally followed by"; tests: rejected).
Categorical, strict : exactly one exclusive option, or >=1 additive options joined by single '+' (a list: the
                 statement and the code comment "one or more additive options joined by single '+'" put no bound on its
                 length and do not ask for distinct options, so "A+A" and "A+B+A" are members).
Categorical, liberal additionally: white space around the value.
Everything else (empty, "AB", "A++B", "+A", "A+", exclusive+additive, exponent forms, second unit,
undeclared unit, doubled sign, ...) must be rejected.
"""
from __future__ import annotations

import re

from hypothesis import strategies as st

from vp.core.framework import Violation, hyp_run, shard_seed

ID = "C22"
LEVEL = "exploration"
ENGINE = "pure"
DESIGN_REF = "DESIGN.md §3 C22"
TECHNIQUE = "language-equivalence testing: generated patterns x generated members/near-misses against hand-written strict/liberal recognisers; introspection round trip"
RULE = ("a case = (pattern kind, unit/option lists drawn from an alphabet with regex metacharacters and non-ASCII, flags, "
        "one candidate string built from parts by a named near-miss recipe). Non-trivial = the candidate is not a plain member "
        "of the strict documented language (near-miss or unjudged spelling) or some list item contains a regex metacharacter. Distinct = distinct case JSON.")
ASSUMPTIONS = [
    "units/options are non-empty strings without leading/trailing white space, without control characters and with "
    "plain spaces as the only interior white space; options never contain '+' (the documented separator); lists have no duplicates",
    "at least one of exclusive_options/additive_options is a non-empty list (the other may be None or [])",
    "patterns are applied the way RegexNamedArgumentParser.parse does: re.search(pattern, arg)",
    "spellings the statement is silent on are classified, not judged: trailing-dot numbers, '+' sign, non-ASCII digits, "
    "non-space white space, a bare number when units are declared, white space around a categorical value",
    "exponent forms (1e3), inf/nan, thousands separators and decimal commas are not 'decimal numbers' and must be rejected",
]
TIERS = {
    "quick": {"examples": 4000, "budget_s": 150},
    "thorough": {"examples": 120000, "budget_s": 850},
}

META = set("|()[]{}.*?+\\^$/%-")


# ---- domain check -------------------------------------------------------------------------------

def _item_ok(s, forbid_plus) -> bool:
    if not isinstance(s, str) or not s or s != s.strip():
        return False
    if forbid_plus and "+" in s:
        return False
    for ch in s:
        if ch == " ":
            continue
        if ch.isspace() or not ch.isprintable():
            return False
    return True


def _list_ok(lst, forbid_plus) -> bool:
    return isinstance(lst, list) and all(_item_ok(x, forbid_plus) for x in lst) and len(set(lst)) == len(lst) and len(lst) <= 8


def in_domain(case) -> bool:
    if not isinstance(case, dict) or not isinstance(case.get("cand"), str):
        return False
    k = case.get("kind")
    if k == "number":
        u = case.get("units")
        if not (u is None or _list_ok(u, False)):
            return False
        return all(isinstance(case.get(f), bool) for f in ("non_negative", "int_only", "optional"))
    if k == "categorical":
        e, a = case.get("excl"), case.get("add")
        if not (e is None or _list_ok(e, True)) or not (a is None or _list_ok(a, True)):
            return False
        return bool(e) or bool(a)
    return False


# ---- recognisers ---------------------------------------------------------------------------------

_ASCII_D = "0123456789"


def _number_forms(s: str, non_negative: bool, int_only: bool):
    """classify a number token -> None (not a number) | 'strict' | 'liberal'"""
    if not s:
        return None
    level = "strict"
    body = s
    if body[0] == "-":
        if non_negative:
            return None
        body = body[1:]
    elif body[0] == "+":
        level = "liberal"
        body = body[1:]
    if not body:
        return None
    if body.count(".") > 1:
        return None
    ip, dot, fp = body.partition(".")
    for ch in ip + fp:
        if ch in _ASCII_D:
            continue
        if ch.isdecimal():
            level = "liberal"
            continue
        return None
    if not dot:
        return level if ip else None
    if int_only:
        return None
    if not ip and not fp:
        return None
    if ip and not fp:
        return "liberal"      # "12."
    return level


def _ws_level(s: str):
    """None if s is not all white space, else 'strict' (ASCII spaces only) / 'liberal'."""
    if all(ch == " " for ch in s):
        return "strict"
    if all(ch.isspace() for ch in s):
        return "liberal"
    return None


def number_parses(cand: str, units, non_negative: bool, int_only: bool, optional: bool):
    """all (level, number, unit) readings of cand under the liberal language; unit None = no unit group."""
    out = []
    if optional and _ws_level(cand) is not None:
        out.append((_ws_level(cand), None, None))
    core_l = cand.lstrip()
    lead = cand[: len(cand) - len(core_l)]
    core = core_l.rstrip()
    trail = core_l[len(core):]
    lv_outer = "strict" if (_ws_level(lead) == "strict" and _ws_level(trail) == "strict") else "liberal"
    if not core:
        return out
    cands = []
    if units:
        for u in units:
            if core.endswith(u) and len(core) > len(u):
                rest = core[: len(core) - len(u)]
                num = rest.rstrip()
                mid = rest[len(num):]
                cands.append((num, u, _ws_level(mid)))
        cands.append((core, None, "strict"))      # bare number although units declared: liberal only
    else:
        cands.append((core, None, "strict"))
    for num, u, lv_mid in cands:
        lv_num = _number_forms(num, non_negative, int_only)
        if lv_num is None:
            continue
        level = "strict" if (lv_num == "strict" and lv_mid == "strict" and lv_outer == "strict") else "liberal"
        if units and u is None:
            level = "liberal"
        out.append((level, num, u))
    return out


def categorical_parses(cand: str, excl, add):
    """-> list of (level, option_text)"""
    excl = excl or []
    add = add or []
    core = cand.strip()
    outer = "strict" if core == cand else "liberal"
    out = []
    if not core:
        return out
    if core in excl:
        out.append((outer, core))
    parts = core.split("+")
    if add and all(p in add for p in parts):
        out.append((outer, core))
    return out


# ---- system under test ----------------------------------------------------------------------------

def build_pattern(case) -> str:
    from openpectus.lang.exec import regex as R
    if case["kind"] == "number":
        fn = R.RegexNumberOptional if case["optional"] else R.RegexNumber
        return fn(units=case["units"], non_negative=case["non_negative"], int_only=case["int_only"])
    return R.RegexCategorical(exclusive_options=case["excl"], additive_options=case["add"])


def _first_meta(items) -> str:
    joined = "".join(items)
    if "|" in joined:
        return "|"
    for ch in "()\\[]{}.*?+^$/% ":
        if ch in joined:
            return {" ": "space"}.get(ch, ch)
    if any(ord(ch) > 127 for ch in joined):
        return "non-ascii"
    return "plain"


def _introspect_cause(case, name, want) -> str:
    """root-cause attribution for a wrong introspection result, by experiment on simplified variants of the same pattern:
    'optional-wrapper' (same lists are fine in the non-optional pattern), 'structure' (fails even with plain alphanumeric
    items), else the responsible metacharacter ('|' first)."""
    from openpectus.lang.exec.uod import RegexNamedArgumentParser

    def ok(c) -> bool:
        try:
            p = RegexNamedArgumentParser(build_pattern(c))
            if name == "units":
                return p.get_units() == list(c["units"] or [])
            if name == "exclusive":
                return p.get_exclusive_options() == list(c["excl"] or [])
            return p.get_additive_options() == list(c["add"] or [])
        except Exception:
            return False

    plain = dict(case)
    n = 0
    for key in ("units", "excl", "add"):
        if case.get(key):
            plain[key] = ["x%d" % (n + i) for i in range(len(case[key]))]
            n += len(case[key])
    if not ok(plain):
        if case["kind"] == "number" and case["optional"] and ok(dict(plain, optional=False)):
            return "optional-wrapper"
        return "structure"
    if case["kind"] == "number" and case["optional"] and ok(dict(case, optional=False)):
        return "optional-wrapper"
    all_items = [x for key in ("units", "excl", "add") for x in (case.get(key) or [])]
    return _first_meta(all_items)



def near_miss_class(case) -> str:
    """root-cause oriented class of a candidate that is outside the liberal language (used in signatures)."""
    cand = case["cand"]
    if case["kind"] == "categorical":
        excl, add = case["excl"] or [], case["add"] or []
        core = cand.strip()
        if not core:
            return "empty"
        parts = core.split("+")
        nonempty = [p for p in parts if p]
        if not nonempty:
            return "lone-plus"
        # the "(A|B|\\+)+" family: pieces are additive options or concatenations of them; anomalies by fixed priority
        if add and all(p in add or _is_concat(p, add) for p in nonempty):
            if any(p not in add for p in nonempty):
                return "missing-plus"
            if "++" in core:
                return "doubled-plus"
            if core.startswith("+"):
                return "leading-plus"
            if core.endswith("+"):
                return "trailing-plus"
        if len(parts) > 1 and any(p in excl for p in parts) and all((p in excl or p in add) for p in parts):
            return "exclusive-combined"
        if excl and _is_concat(core, excl):
            return "exclusive-concatenated"
        return "other"
    # number
    core = cand.strip()
    if not core:
        return "empty"
    if re.search(r"[0-9][eE][+-]?[0-9]", core):
        return "exponent"
    if core.startswith(("--", "-+", "+-", "++")):
        return "doubled-sign"
    if core.startswith("-") and case["non_negative"]:
        return "negative-when-non-negative"
    if case["int_only"] and re.match(r"^[+-]?([0-9]*\.[0-9]*)", core):
        return "fraction-when-int-only"
    units = case["units"] or []
    if not units and re.match(r"^-?([0-9]+\.?[0-9]*|\.[0-9]+)\s*\S", core):
        return "unit-when-none-declared"
    if units:
        hits = [u for u in units if core.endswith(u)]
        if not hits:
            return "undeclared-unit"
        if any(core[: len(core) - len(u)].rstrip().endswith(v) for u in hits for v in units):
            return "second-unit"
    if re.search(r"[0-9]\s+[0-9.]", core):
        return "space-inside-number"
    return "other"


def _is_concat(s: str, words) -> bool:
    if not s:
        return False
    ok = [False] * (len(s) + 1)
    ok[0] = True
    for i in range(len(s)):
        if ok[i]:
            for w in words:
                if s.startswith(w, i):
                    ok[i + len(w)] = True
    return ok[len(s)] and s not in words


def member_class(case, parse) -> str:
    if case["kind"] == "categorical":
        core = case["cand"].strip()
        if core in (case["excl"] or []):
            return "exclusive"
        if "+" not in core:
            return "additive-single"
        parts = core.split("+")
        if len(parts) > len(case["add"] or []):
            return "additive-list-longer-than-option-count"
        return "additive-list" if len(set(parts)) == len(parts) else "additive-list-with-repeat"
    _, num, unit = parse
    if num is None:
        return "optional-empty"
    f = "int" if "." not in num else ("leading-dot" if num.lstrip("-").startswith(".") else "fraction")
    return "%s%s%s" % ("neg-" if num.startswith("-") else "", f, "-unit" if unit is not None else "")


# ---- oracle on one case -----------------------------------------------------------------------------

def check_case(case) -> list[Violation]:
    if not in_domain(case):
        return []
    from openpectus.lang.exec.uod import RegexNamedArgumentParser
    out: list[Violation] = []
    kind = case["kind"]
    try:
        pattern = build_pattern(case)
        re.compile(pattern)
    except Exception as e:   # documented: only TypeError for two None lists, which is outside the domain
        return [Violation("build:%s:%s" % (kind, type(e).__name__), "building/compiling the pattern raised %s: %s" % (type(e).__name__, e), case)]

    cand = case["cand"]
    parser = RegexNamedArgumentParser(pattern)
    groups = parser.parse(cand)
    accepted = groups is not None
    if accepted != parser.validate(cand):
        out.append(Violation("parse-validate-disagree", "parse() and validate() disagree on %r" % cand, case))

    if kind == "number":
        parses = number_parses(cand, case["units"], case["non_negative"], case["int_only"], case["optional"])
    else:
        parses = categorical_parses(cand, case["excl"], case["add"])
    strict = [p for p in parses if p[0] == "strict"]

    if strict and not accepted:
        out.append(Violation("rejects:%s:%s" % (kind, member_class(case, strict[0])),
                             "pattern %r rejects %r which is in the documented language" % (pattern, cand), case))
    if accepted and not parses:
        out.append(Violation("accepts:%s:%s" % (kind, near_miss_class(case)),
                             "pattern %r accepts %r which is outside the documented language (captured %r)" % (pattern, cand, groups), case))
    if accepted and parses:
        if kind == "number":
            want_keys = {"number"} | ({"number_unit"} if case["units"] else set())
            if set(groups) != want_keys:
                out.append(Violation("capture:number:groups", "groups %r, expected exactly %r" % (sorted(groups), sorted(want_keys)), case))
            got = (groups.get("number"), groups.get("number_unit"))
            allowed = [(p[1], p[2]) for p in parses]
            if got not in allowed:
                out.append(Violation("capture:number:%s" % ("unit" if got[0] in [a[0] for a in allowed] else "number"),
                                     "%r captured as %r, possible readings %r" % (cand, got, allowed), case))
            if got[0] is not None:
                try:
                    float(got[0])
                except ValueError:
                    out.append(Violation("capture:number:not-float", "captured number %r of %r is not accepted by float()" % (got[0], cand), case))
        else:
            if set(groups) != {"option"}:
                out.append(Violation("capture:categorical:groups", "groups %r, expected exactly ['option']" % sorted(groups), case))
            elif groups["option"] not in [p[1] for p in parses]:
                out.append(Violation("capture:categorical:option", "%r captured as %r, expected %r" % (cand, groups["option"], parses[0][1]), case))

    # ---- introspection: lists derived from the pattern == lists it was built from ----------------
    for via in ("direct", "serialized"):
        p = parser if via == "direct" else RegexNamedArgumentParser.deserialize(parser.serialize())
        if p is None:
            out.append(Violation("introspect:deserialize-none", "deserialize(serialize()) returned None", case))
            continue
        if kind == "number":
            checks = [("units", p.get_units, list(case["units"] or []))]
            empties = [("exclusive", p.get_exclusive_options), ("additive", p.get_additive_options)]
        else:
            checks = [("exclusive", p.get_exclusive_options, list(case["excl"] or [])),
                      ("additive", p.get_additive_options, list(case["add"] or []))]
            empties = [("units", p.get_units)]
        for name, fn, want in checks:
            try:
                got = fn()
            except Exception as e:
                out.append(Violation("introspect:%s:raised:%s" % (name, type(e).__name__),
                                     "get_%s on %r raised %s: %s" % (name, pattern, type(e).__name__, e), case))
                continue
            if got != want:
                out.append(Violation("introspect:%s:%s" % (name, _introspect_cause(case, name, want)),
                                     "pattern %r built from %s=%r reports %r" % (pattern, name, want, got), case))
        for name, fn in empties:
            try:
                got = fn()
            except Exception as e:
                out.append(Violation("introspect:%s:raised:%s" % (name, type(e).__name__), "get_%s on %r raised %s" % (name, pattern, e), case))
                continue
            if got != []:
                out.append(Violation("introspect:%s:phantom" % name, "pattern of kind %s reports %s=%r" % (kind, name, got), case))
    # de-duplicate identical signatures (direct + serialized give the same answer)
    seen, uniq = set(), []
    for v in out:
        if v.sig not in seen:
            seen.add(v.sig)
            uniq.append(v)
    return uniq


# ---- generators ---------------------------------------------------------------------------------------

ITEM_ALPHABET = list("ABab019") + list("|()+.*?[]\\/%") + [" ", "é", "µ", "°", "Ω", "٣", "-", "_", "^", "$", "{", "}"]
REAL_UNITS = ["s", "min", "h", "L", "mL", "L/h", "L/min", "kg", "g", "%", "m2", "dm2", "cm2", "(L/h)/%", "mS/cm", "bar", "degC", "°C", "CV", "AU", "L/m2/h/bar"]
REAL_OPTS = ["Open", "Closed", "VA01", "VA02", "VA03", "A", "B", "C", "1", "2", "3", "On", "Off", "Inlet A", "AB"]
WS_STRICT = ["", "", " ", "  "]
WS_LIBERAL = ["\t", "\n", " ", "\r\n", " \t", "\x0b", " ", "\x1f"]


def _clean_item(s: str, forbid_plus: bool) -> str:
    if forbid_plus:
        s = s.replace("+", "")
    s = s.strip()
    return s


@st.composite
def items(draw, real, forbid_plus, max_n=5):
    n = draw(st.integers(1, max_n))
    out = []
    for _ in range(n):
        if draw(st.integers(0, 9)) < 5:
            s = draw(st.sampled_from(real))
        else:
            s = _clean_item("".join(draw(st.lists(st.sampled_from(ITEM_ALPHABET), min_size=1, max_size=4))), forbid_plus)
        if s and s not in out:
            out.append(s)
    if not out:
        out = [draw(st.sampled_from(real))]
    # prefix-related pairs on purpose (k / kg, A / AB)
    if draw(st.integers(0, 9)) == 0 and len(out) < max_n:
        ext = out[0] + draw(st.sampled_from(["g", "B", "2", "/h", ")"]))
        if ext not in out:
            out.append(ext)
    return out


NUMBER_RECIPES = ["member", "member", "member", "bare", "undeclared-unit", "second-unit", "exponent", "doubled-sign",
                  "plus-sign", "negative", "trailing-dot", "lone-dot", "two-dots", "nonascii-digit", "ws-liberal",
                  "trailing-newline", "space-inside", "empty", "ws-only", "unit-only", "comma", "word", "unit-case",
                  "unit-prefix", "sign-space", "random"]
CAT_RECIPES = ["member", "member", "member", "missing-plus", "doubled-plus", "leading-plus", "trailing-plus", "empty",
               "exclusive-combined", "exclusive-concatenated", "repeated", "long-list", "space-around", "space-inside",
               "trailing-newline", "unknown-option", "case-changed", "prefix", "lone-plus", "random"]


@st.composite
def digits(draw, lo=1, hi=6):
    return draw(st.text(_ASCII_D, min_size=lo, max_size=hi))


@st.composite
def number_token(draw, non_negative, int_only):
    sign = "" if non_negative else draw(st.sampled_from(["", "", "-"]))
    form = "int" if int_only else draw(st.sampled_from(["int", "frac", "leaddot"]))
    if form == "int":
        body = draw(digits())
    elif form == "frac":
        body = draw(digits()) + "." + draw(digits())
    else:
        body = "." + draw(digits())
    return sign + body


@st.composite
def number_cases(draw):
    has_units = draw(st.integers(0, 9)) < 7
    units = draw(items(REAL_UNITS, False)) if has_units else draw(st.sampled_from([None, None, []]))
    non_negative = draw(st.booleans())
    int_only = draw(st.integers(0, 3)) == 0
    optional = draw(st.integers(0, 5)) == 0
    out = []
    for recipe in NUMBER_RECIPES:
        num = draw(number_token(non_negative, int_only))
        unit = draw(st.sampled_from(units)) if units else ""
        lead, mid, trail = draw(st.sampled_from(WS_STRICT)), draw(st.sampled_from(WS_STRICT)), draw(st.sampled_from(WS_STRICT))
        if not units:
            mid = ""
        other_units = [u for u in REAL_UNITS + ["foo", "x"] if not units or u not in units]

        def join(n=None, u=None, l=None, m=None, t=None):
            return (lead if l is None else l) + (num if n is None else n) + (mid if m is None else m) + (unit if u is None else u) + (trail if t is None else t)

        if recipe == "member":
            cand = join()
        elif recipe == "bare":
            cand = join(u="", m="")
        elif recipe == "undeclared-unit":
            cand = join(u=draw(st.sampled_from(other_units)), m=draw(st.sampled_from(["", " "])))
        elif recipe == "second-unit":
            u2 = draw(st.sampled_from(units)) if units else draw(st.sampled_from(other_units))
            cand = join(u=(unit or u2) + draw(st.sampled_from(["", " "])) + u2, m=mid or "")
        elif recipe == "exponent":
            cand = join(n=num + draw(st.sampled_from(["e3", "E3", "e-3", "e+3", "e0"])))
        elif recipe == "doubled-sign":
            cand = join(n=draw(st.sampled_from(["--", "-+", "+-", "++"])) + num.lstrip("-"))
        elif recipe == "plus-sign":
            cand = join(n="+" + num.lstrip("-"))
        elif recipe == "negative":
            cand = join(n="-" + num.lstrip("-"))
        elif recipe == "trailing-dot":
            cand = join(n=num.split(".")[0] + ".")
        elif recipe == "lone-dot":
            cand = join(n=draw(st.sampled_from([".", "-.", "-", ""])))
        elif recipe == "two-dots":
            cand = join(n=num.split(".")[0] + draw(st.sampled_from(["..5", ".5.", ".5.5"])))
        elif recipe == "nonascii-digit":
            cand = join(n=num[:-1] + draw(st.sampled_from(["٣", "３", "²", "൩", "Ⅷ"])))
        elif recipe == "ws-liberal":
            w = draw(st.sampled_from(WS_LIBERAL))
            where = draw(st.sampled_from(["l", "m", "t"]))
            if where == "m" and not units:
                where = "t"
            cand = join(l=w if where == "l" else None, m=w if where == "m" else None, t=w if where == "t" else None)
        elif recipe == "trailing-newline":
            cand = join(t="") + draw(st.sampled_from(["\n", "\n\n", "\nx", "\n1"]))
        elif recipe == "space-inside":
            k = draw(st.integers(1, max(1, len(num) - 1)))
            cand = join(n=num[:k] + " " + num[k:]) if len(num) > 1 else join(n=num + " " + num)
        elif recipe == "empty":
            cand = ""
        elif recipe == "ws-only":
            cand = draw(st.sampled_from([" ", "  ", "\t", "\n", " \n "]))
        elif recipe == "unit-only":
            cand = join(n="")
        elif recipe == "comma":
            cand = join(n=num.replace(".", ",") if "." in num else num + ",5")
        elif recipe == "word":
            cand = join(n=draw(st.sampled_from(["inf", "nan", "-inf", "NaN", "0x1F", "1_000", "1f", "abc", "1/2"])))
        elif recipe == "unit-case":
            cand = join(u=unit.swapcase() if unit else "")
        elif recipe == "unit-prefix":
            cand = join(u=(unit[:-1] if len(unit) > 1 else unit + unit) if unit else "")
        elif recipe == "sign-space":
            cand = join(n="- " + num.lstrip("-"))
        else:
            cand = "".join(draw(st.lists(st.sampled_from(list("0123456789.-+ eE") + ([unit] if unit else []) + ["\n", "k", "%"]), min_size=0, max_size=8)))
        out.append(({"kind": "number", "units": units, "non_negative": non_negative, "int_only": int_only,
                     "optional": optional, "cand": cand}, recipe))
    return out


@st.composite
def categorical_cases(draw):
    shape = draw(st.sampled_from(["both", "both", "both", "excl-only", "add-only"]))
    excl = draw(items(REAL_OPTS, True, 3)) if shape != "add-only" else draw(st.sampled_from([None, []]))
    add = draw(items(REAL_OPTS, True, 4)) if shape != "excl-only" else draw(st.sampled_from([None, []]))
    if excl and add:
        if draw(st.integers(0, 4)) != 0:
            add = [a for a in add if a not in excl] or None
            if not add and not excl:
                excl = ["Closed"]
    out = []
    for recipe in CAT_RECIPES:
        e_pick = draw(st.sampled_from(excl)) if excl else None
        a_list = draw(st.lists(st.sampled_from(add), min_size=1, max_size=4, unique=True)) if add else []
        base_add = "+".join(a_list)
        member = draw(st.sampled_from([x for x in [e_pick, base_add] if x]))

        if recipe == "member":
            cand = member
        elif recipe == "missing-plus":
            src = a_list if len(a_list) > 1 else (a_list + a_list if a_list else [e_pick, e_pick])
            cand = "".join(src)
        elif recipe == "doubled-plus":
            src = a_list if len(a_list) > 1 else ((a_list * 2) if a_list else [e_pick, e_pick])
            cand = src[0] + draw(st.sampled_from(["++", "+++"])) + "+".join(src[1:])
        elif recipe == "leading-plus":
            cand = "+" + member
        elif recipe == "trailing-plus":
            cand = member + "+"
        elif recipe == "empty":
            cand = draw(st.sampled_from(["", "", " ", "\n"]))
        elif recipe == "exclusive-combined":
            e = e_pick or "Closed"
            other = base_add or e
            cand = draw(st.sampled_from([e + "+" + other, other + "+" + e]))
        elif recipe == "exclusive-concatenated":
            e = e_pick or member
            cand = e + draw(st.sampled_from([e, base_add or e]))
        elif recipe == "repeated":
            cand = (a_list[0] + "+" + "+".join(a_list)) if a_list else (e_pick + "+" + e_pick)
        elif recipe == "long-list":
            # a list of additive options of any length, options drawn freely (longer than the number of options too)
            cand = "+".join(draw(st.lists(st.sampled_from(add), min_size=1, max_size=9))) if add else (e_pick + "+" + e_pick + "+" + e_pick)
        elif recipe == "space-around":
            w = draw(st.sampled_from([" ", "  ", "\t", " "]))
            cand = draw(st.sampled_from([w + member, member + w, w + member + w]))
        elif recipe == "space-inside":
            cand = (a_list[0] + draw(st.sampled_from([" +", "+ ", " + ", " "])) + a_list[-1]) if a_list else (e_pick[:1] + " " + e_pick[1:])
        elif recipe == "trailing-newline":
            cand = member + draw(st.sampled_from(["\n", "\n\n", "\nx", "\n+" + member]))
        elif recipe == "unknown-option":
            cand = draw(st.sampled_from(["Zz", "VA09", "Q+" + member, member + "+Q", "?"]))
        elif recipe == "case-changed":
            cand = member.swapcase()
        elif recipe == "prefix":
            cand = draw(st.sampled_from([member[:-1], member + member[-1:], member[1:]]))
        elif recipe == "lone-plus":
            cand = draw(st.sampled_from(["+", "++", "+ +"]))
        else:
            pool = (excl or []) + (add or []) + ["+", "+", " ", "x", "\n"]
            cand = "".join(draw(st.lists(st.sampled_from(pool), min_size=0, max_size=5)))
        out.append(({"kind": "categorical", "excl": excl, "add": add, "cand": cand}, recipe))
    return out


def cases():
    return st.one_of(number_cases(), categorical_cases())


def _has_meta(case) -> bool:
    lists = [case.get("units"), case.get("excl"), case.get("add")]
    return any(ch in META for l in lists if l for s in l for ch in s)


def classify(case, recipe):
    cl = ["kind:" + case["kind"], "recipe:%s:%s" % (case["kind"], recipe)]
    if case["kind"] == "number":
        parses = number_parses(case["cand"], case["units"], case["non_negative"], case["int_only"], case["optional"])
        cl.append("units:%s" % ("declared" if case["units"] else "none"))
        for f in ("non_negative", "int_only", "optional"):
            if case[f]:
                cl.append("flag:" + f)
    else:
        parses = categorical_parses(case["cand"], case["excl"], case["add"])
        cl.append("lists:%s" % ("both" if case["excl"] and case["add"] else ("excl-only" if case["excl"] else "add-only")))
    if any(p[0] == "strict" for p in parses):
        cl.append("expect:accept")
    elif parses:
        cl.append("expect:unjudged")
    else:
        cl.append("expect:reject")
    if len(parses) > 1:
        cl.append("ambiguous-parse")
    if _has_meta(case):
        cl.append("list-has-metachar")
    if any("|" in s for l in (case.get("units"), case.get("excl"), case.get("add")) if l for s in l):
        cl.append("list-has-pipe")
    return cl


def run_shard(col, cfg):
    n = max(1, cfg["examples"] // col.nshards)

    def body(xs):
        for case, recipe in xs:
            if not in_domain(case):
                raise AssertionError("generator produced an out-of-domain case: %r" % (case,))
            vs = check_case(case)
            cl = classify(case, recipe)
            nontrivial = "expect:accept" not in cl or _has_meta(case)
            col.record(case, nontrivial, classes=cl, violations=vs)

    hyp_run(cases(), body, n, shard_seed(col.seed, col.shard), col)


def shrink_hints(case):
    # simplify list items to plain letters one at a time, keep the candidate consistent
    for key in ("units", "excl", "add"):
        lst = case.get(key)
        if not lst:
            continue
        for i, it in enumerate(lst):
            for repl in ("A", "B", "g"):
                if repl not in lst and len(repl) <= len(it) and repl != it:
                    c = dict(case)
                    c[key] = lst[:i] + [repl] + lst[i + 1:]
                    c["cand"] = case["cand"].replace(it, repl)
                    yield c
    for key in ("non_negative", "int_only", "optional"):
        if case.get(key):
            c = dict(case)
            c[key] = False
            yield c
