"""C34 — CSV export is a faithful sample-and-hold of the plot log.

Subject : openpectus.aggregator.csv_generator.generate_csv_string(Dto.PlotLog, Dto.RecentRun) — the function the
          route GET /recent_runs/{id}/csv_json calls with Dto.PlotLog.model_validate(db plot log).
Domain  : plot logs with 1..6 tags (entries keyed by tag name, as the ORM's attribute_keyed_dict does), each with 0..7
          recorded (tick_time, value) pairs; values int / float / str / None (a recorded None is what the repository
          stores for a tag without value); times taken from a small grid so that tags interleave, start late, share
          times and repeat a time inside one tag; the stored order of a tag's values is sorted or shuffled.
Oracle  : reference sample-and-hold written from the statement:
            rows  = the distinct recorded times in increasing order (one row each);
            cell  = value of that tag with the greatest time <= row time, '' if there is none
                    (if a tag recorded several values AT that greatest time, any of them is accepted — the statement
                    does not order them);
          compared cell by cell with the data section of the CSV text parsed back by csv.reader; header row must name
          the tags in entry order; row count must equal the number of distinct times.
          Text of a value = what csv.writer documents: str(v) (repr for floats), '' for None.
Signatures classify a wrong cell by what it shows:
    future-value:before-first   expected empty (tag had no value yet) but a later value of the tag is shown
    future-value:ahead          a value recorded after the row time is shown although an earlier one exists
    stale-value:repeated-time   an older value is shown and the tag recorded two values at one time before/at this row
    stale-value                 an older value is shown (no repeated time involved)
    empty-instead-of-value      empty although the tag had a value
    foreign-value               text is no recorded value of this tag
"""
from __future__ import annotations

import csv
import io

from hypothesis import strategies as st

from vp.core.framework import Violation, hyp_run, shard_seed

# imported at module level on purpose: the runner imports this module before it forks the shard workers, so the (slow)
# import of the aggregator package happens once in the parent instead of concurrently in every worker
import openpectus.aggregator.routers.dto as Dto
from openpectus.aggregator.csv_generator import generate_csv_string

ID = "C34"
LEVEL = "exploration"
ENGINE = "pure"
DESIGN_REF = "DESIGN.md §3 C34"
TECHNIQUE = "Hypothesis-generated plot logs against a reference sample-and-hold, CSV text parsed back with csv.reader and compared cell by cell"
RULE = ("a case is 1..6 tags with 0..7 recorded (time, value) pairs each, times on a 0.5 s grid (optionally epoch sized), "
        "values int/float/str/None, stored order sorted or shuffled. Non-trivial = at least two non-empty tags whose first "
        "recorded times differ, or some time recorded more than once (in one tag or across tags). Distinct = distinct case JSON.")
ASSUMPTIONS = [
    "the dict key of PlotLog.entries equals the entry's name (attribute_keyed_dict('name') in the ORM model)",
    "tick times and float values are finite; strings contain no NUL; bool values do not occur (TagValue.value is float|int|str|None)",
    "several values of one tag recorded at exactly the same time: the statement does not say which is 'latest', any of them is accepted",
    "the CSV has no time column, so 'strictly increasing time order' is decided through the cell contents: row i must be the "
    "sample-and-hold at the i-th distinct time and the number of rows must equal the number of distinct times",
    "a recorded value None and a recorded empty string both read back as an empty cell (CSV cannot distinguish them)",
]
TIERS = {
    "quick": {"examples": 1000, "budget_s": 150},
    "thorough": {"examples": 30000, "budget_s": 800},
}

N_META_ROWS = 15   # 14 metadata rows + 1 empty row, then the header row


def _fmt(v) -> str:
    if v is None:
        return ""
    if isinstance(v, float):
        return repr(v)
    return str(v)


def _valid_case(case) -> bool:
    if not isinstance(case, dict) or not isinstance(case.get("entries"), list) or not case["entries"]:
        return False
    names = set()
    for e in case["entries"]:
        if not (isinstance(e, dict) and isinstance(e.get("name"), str) and e["name"] and isinstance(e.get("values"), list)):
            return False
        if "\x00" in e["name"] or e["name"] in names:
            return False
        names.add(e["name"])
        if not (e.get("unit") is None or (isinstance(e["unit"], str) and "\x00" not in e["unit"])):
            return False
        for tv in e["values"]:
            if not (isinstance(tv, list) and len(tv) == 2):
                return False
            t, v = tv
            if isinstance(t, bool) or not isinstance(t, (int, float)) or t != t or abs(t) == float("inf"):
                return False
            if isinstance(v, bool) or not (v is None or isinstance(v, (int, float, str))):
                return False
            if isinstance(v, float) and (v != v or abs(v) == float("inf")):
                return False
            if isinstance(v, int) and abs(v) > 2 ** 62:
                return False
            if isinstance(v, str) and "\x00" in v:
                return False
    return True


def _value_type(values):
    PVT = Dto.ProcessValueType
    for _, v in values:
        if isinstance(v, str):
            return PVT.STRING
        if isinstance(v, float):
            return PVT.FLOAT
        if isinstance(v, int):
            return PVT.INT
    return PVT.NONE


def _recent_run():
    import datetime
    d = datetime.datetime(2024, 1, 2, 3, 4, 5)
    return Dto.RecentRun(engine_id="eng", run_id="run", started_date=d, completed_date=d, uod_name="uod", uod_filename="f.py",
                         uod_author_name="a", uod_author_email="a@b", engine_computer_name="pc", engine_version="1",
                         engine_hardware_str="hw", aggregator_computer_name="agg", aggregator_version="1", contributors=[])


def reference(case):
    """-> (times, rows) where rows[i][j] is the set of acceptable cell texts."""
    times = sorted({float(t) for e in case["entries"] for t, _ in e["values"]})
    rows = []
    for T in times:
        row = []
        for e in case["entries"]:
            past = [(float(t), v) for t, v in e["values"] if float(t) <= T]
            if not past:
                row.append({""})
            else:
                tmax = max(t for t, _ in past)
                row.append({_fmt(v) for t, v in past if t == tmax})
        rows.append(row)
    return times, rows


def _classify(e, T, actual: str) -> str:
    vals = [(float(t), v) for t, v in e["values"]]
    past = [(t, v) for t, v in vals if t <= T]
    future_txt = {_fmt(v) for t, v in vals if t > T}
    past_txt = {_fmt(v) for t, v in past}
    if actual in past_txt:          # (a recorded None / '' shown late is a stale value, not a missing one)
        ts = [t for t, _ in past]
        return "stale-value:repeated-time" if len(set(ts)) != len(ts) else "stale-value"
    if actual == "" and past:
        return "empty-instead-of-value"
    if actual in future_txt:
        return "future-value:before-first" if not past else "future-value:ahead"
    return "foreign-value"


def check_case(case) -> list[Violation]:
    if not _valid_case(case):
        return []
    entries = {}
    for e in case["entries"]:
        entries[e["name"]] = Dto.PlotLogEntry(
            name=e["name"], value_unit=e.get("unit"), value_type=_value_type(e["values"]),
            values=[Dto.PlotLogEntryValue(value=v, tick_time=float(t)) for t, v in e["values"]])
    plot_log = Dto.PlotLog(entries=entries)
    # harness self-check: the DTO must hold exactly the generated values (no coercion by the union type)
    for e in case["entries"]:
        got = [(x.tick_time, x.value, type(x.value)) for x in plot_log.entries[e["name"]].values]
        want = [(float(t), v, type(v)) for t, v in e["values"]]
        assert got == want, "harness: Dto.PlotLogEntryValue changed a generated value: %r vs %r" % (got, want)
    try:
        text = generate_csv_string(plot_log, _recent_run()).getvalue()
    except Exception as ex:   # the subject (not the harness) failed: every plot log in the domain must be exportable
        import traceback
        where = traceback.extract_tb(ex.__traceback__)[-1]
        return [Violation("export-raises:%s:%s" % (type(ex).__name__, where.name), "generate_csv_string raised %s: %s (at %s:%s)"
                          % (type(ex).__name__, ex, where.filename.rsplit("/", 1)[-1], where.lineno), case)]
    parsed = list(csv.reader(io.StringIO(text, newline="")))
    out: list[Violation] = []
    if len(parsed) < N_META_ROWS + 1 or parsed[N_META_ROWS - 1] != []:
        return [Violation("layout:metadata", "metadata block is not 14 rows + empty row: %r" % (parsed[:N_META_ROWS + 1],), case)]
    header, data = parsed[N_META_ROWS], parsed[N_META_ROWS + 1:]
    want_header = [e["name"] + (" [%s]" % e["unit"] if e.get("unit") is not None else "") for e in case["entries"]]
    if header != want_header:
        out.append(Violation("header", "header row %r, expected %r" % (header, want_header), case))
    times, rows = reference(case)
    if len(data) != len(rows):
        out.append(Violation("row-count:%s" % ("fewer" if len(data) < len(rows) else "more"),
                             "%d data rows for %d distinct recorded times" % (len(data), len(rows)), case))
    seen = set()
    for i, (T, want) in enumerate(zip(times, rows)):
        if i >= len(data):
            break
        got = data[i]
        if len(got) != len(want):
            # csv.reader yields [] for a completely empty line: a single-tag row holding None is written as '""' so this is real
            if "row-width" not in seen:
                seen.add("row-width")
                out.append(Violation("row-width", "row %d (t=%r) has %d cells for %d tags: %r" % (i, T, len(got), len(want), got), case))
            continue
        for j, (cell, acc) in enumerate(zip(got, want)):
            if cell not in acc:
                kind = _classify(case["entries"][j], T, cell)
                if kind not in seen:
                    seen.add(kind)
                    out.append(Violation("cell:" + kind, "row %d (time %r) tag %r shows %r, sample-and-hold gives %s; recorded (time, value) of the tag: %r"
                                         % (i, T, case["entries"][j]["name"], cell, " or ".join(sorted(map(repr, acc))),
                                            sorted(((float(t), v) for t, v in case["entries"][j]["values"]), key=lambda p: p[0])), case))
    return out


# ---- generator ------------------------------------------------------------------------------------------

_STR_VALUES = ["Run", "Hold", "a,b", 'q"t', "", " x", "l1\nl2", "7", "Rising", "é"]


@st.composite
def plot_logs(draw):
    n = draw(st.integers(1, 6))
    base = draw(st.sampled_from([0.0, 0.0, 100.0, 1700000000.0]))
    grid = draw(st.integers(3, 12))
    shuffle_mode = draw(st.sampled_from(["sorted", "sorted", "shuffled"]))
    entries = []
    for i in range(n):
        kind = draw(st.sampled_from(["int", "float", "str", "mixed"]))
        k = draw(st.integers(0, 7))
        start = draw(st.integers(0, grid // 2))     # late start
        allow_repeat = draw(st.integers(0, 3)) == 0
        if not allow_repeat:
            k = min(k, grid - start + 1)
        ts = draw(st.lists(st.integers(start, grid), min_size=k, max_size=k, unique=not allow_repeat))
        if shuffle_mode == "sorted":
            ts = sorted(ts)
        vals = []
        for q, t in enumerate(ts):
            vk = kind if kind != "mixed" else draw(st.sampled_from(["int", "float", "str", "none"]))
            if vk == "int":
                v = draw(st.integers(-5, 5)) * 10 + q          # distinct inside one tag so that a wrong cell is classifiable
            elif vk == "float":
                v = draw(st.sampled_from([0.5, 1.0, 2.25, -3.75, 1e-07, 12345.678, 1e+20])) + float(q)
            elif vk == "str":
                v = draw(st.sampled_from(_STR_VALUES))
                if draw(st.integers(0, 4)):
                    v = "%s#%d" % (v, q)
            else:
                v = None
            vals.append([base + t * 0.5, v])
        unit = draw(st.sampled_from([None, None, "L/h", "%", "a,b"]))
        entries.append({"name": "T%d" % i if draw(st.integers(0, 5)) else "Tag, %d" % i, "unit": unit, "values": vals})
    return {"entries": entries}


def _classes(case):
    es = case["entries"]
    firsts = [min(t for t, _ in e["values"]) for e in es if e["values"]]
    all_t = [t for e in es for t, _ in e["values"]]
    cl = ["tags:%d" % len(es)]
    late = len(set(firsts)) > 1
    if late:
        cl.append("late-start (first times differ)")
    rep_within = any(len({t for t, _ in e["values"]}) != len(e["values"]) for e in es)
    if rep_within:
        cl.append("repeated-time-within-tag")
    if len(set(all_t)) != len(all_t) and not rep_within:
        cl.append("shared-time-across-tags-only")
    if any(not e["values"] for e in es):
        cl.append("has-empty-tag")
    if any([t for t, _ in e["values"]] != sorted(t for t, _ in e["values"]) for e in es):
        cl.append("stored-unsorted")
    if any(v is None for e in es for _, v in e["values"]):
        cl.append("has-None-value")
    if any(isinstance(v, str) for e in es for _, v in e["values"]):
        cl.append("has-str-value")
    nontrivial = late or len(set(all_t)) != len(all_t)
    return cl, nontrivial


def run_shard(col, cfg):
    def body(case):
        assert _valid_case(case), "harness: generator produced a case outside the domain"
        vs = check_case(case)
        cl, nontrivial = _classes(case)
        col.record(case, nontrivial, classes=cl + (["violating"] if vs else ["clean"]), violations=vs)

    hyp_run(plot_logs(), body, cfg["examples"], shard_seed(col.seed, col.shard), col)


def shrink_hints(case):
    es = case["entries"]
    for i in range(len(es)):
        yield {"entries": es[:i] + es[i + 1:]}
    for i, e in enumerate(es):
        for j in range(len(e["values"])):
            yield {"entries": es[:i] + [dict(e, values=e["values"][:j] + e["values"][j + 1:])] + es[i + 1:]}
    # canonical names / no units / times ranked / values small ints
    yield {"entries": [dict(e, name="T%d" % i, unit=None) for i, e in enumerate(es)]}
    ts = sorted({t for e in es for t, _ in e["values"]})
    rank = {t: float(i) for i, t in enumerate(ts)}
    yield {"entries": [dict(e, values=[[rank[t], v] for t, v in e["values"]]) for e in es]}
    c = 0
    new = []
    for e in es:
        vs = []
        for t, v in e["values"]:
            c += 1
            vs.append([t, c])
        new.append(dict(e, values=vs))
    yield {"entries": new}
