"""C33 — push notifications reach exactly the entitled subscribers.

System under test: the real `WebPushPublisher.publish_message` / `_get_subscriptions_for_topic`, the real
`WebPushRepository` (store_notifications_preferences, store_subscription, get_*), the real sqlalchemy models, on a
sqlite database file in a `tempfile.mkdtemp()` directory (one per shard, rows deleted between cases), set up like
/repo/openpectus/test/aggregator/ does (`database.configure_db` + `DBModel.metadata.create_all`).  Only two things are
replaced: `_post_webpush` (crypto + HTTP) by a recorder and `wp` by a truthy stub; `webpush_publisher.time` is a
virtual clock so the "older than 5 minutes" rule is deterministic.

Case = {"users": [user...], "publishes": [publish...]}
    user    = {"id": str, "prefs": [pref...], "subs": 0..3}      prefs are POSTED IN ORDER (the last one is what is
              recorded; an empty list = the user subscribed but never stored preferences)
    pref    = {"roles": [str], "scope": scope, "topics": [topic], "units": [engine id]}
    publish = {"unit": {"id": str, "required_roles": [str], "contributors": [[id|None, name]...]},
               "topic": topic, "contributor_id": str|None, "age_s": number|None}
Preferences and subscriptions are written through the repository exactly as the routes do
(`str(user_id)`, roles from the token, sets).  Every subscription gets a unique endpoint.

Oracle = model written from the statement (DESIGN Appendix A.6):
    entitled(user) <=> recorded prefs exist
                       and topic in prefs.topics
                       and (unit.required_roles is empty or unit.required_roles & prefs.roles)
                       and (scope = ACCESS  or (scope = CONTRIBUTED and user in {c.id for c in unit.contributors})
                                            or (scope = SPECIFIC and unit.id in prefs.units))
                       and not (topic = NEW_CONTRIBUTOR and user = notification.data.contributor_id)
    not-entitled:<first failing clause>   a notified subscription belongs to a user who is not entitled
    duplicate                             a subscription was notified more than once by one publish
    missed:<scope>                        a fresh (< 5 min old) notification did not reach a subscription of an entitled user
    publish-raises:<Type>                 publish_message raised
Notifications older than 5 minutes are documented to be dropped: only the "sent only to entitled" clauses are judged.
The anonymous identity ("None" user id vs. contributor id None) under scope CONTRIBUTED is ambiguous in the statement:
both outcomes are accepted and the case is counted (class `anon-contributed-ambiguous`).
"""
from __future__ import annotations

import os
import shutil
import tempfile

from hypothesis import strategies as st

from vp.core.framework import Violation, hyp_run, shard_seed

ID = "C33"
LEVEL = "exploration"
ENGINE = "aggregator_harness"
DESIGN_REF = "DESIGN.md §3 C33, Appendix A.6"
TECHNIQUE = ("model-based oracle (entitlement predicate from the statement) against the real publisher + repository on "
             "sqlite with a recording sender")
RULE = ("Hypothesis generates 1-7 users (ids incl. case variants and the anonymous 'None'), role sets, 0-2 successive "
        "preference posts (scope x topics x listed units), 0-3 subscriptions each, and 1-3 publishes (unit id, required "
        "roles, contributors, topic, contributor id, age). Non-trivial = in one publish at least one subscribed user is "
        "excluded by roles, at least one by preferences (topic or scope) and at least one is entitled. "
        "Distinct = distinct case JSON.")
ASSUMPTIONS = [
    "notification.data.contributor_id is set exactly for NEW_CONTRIBUTOR notifications (the only caller that sets it: "
    "Aggregator.publish_new_contributor_notification, which also never passes a None id)",
    "user ids are the strings the routes store (str(oid) or 'None'); role names, unit ids and user ids are compared "
    "exactly (case-sensitive), as the statement gives no normalisation",
    "'recorded roles' = the user_roles stored with the user's latest preference post",
    "a user without a stored preference row has selected no topic",
    "sqlite file database in a temp directory; foreign keys are not enforced by sqlite (as in production)",
]
TIERS = {
    "quick": {"cases": 4000, "budget_s": 170},
    "thorough": {"cases": 90000, "budget_s": 850},
}

T0 = 1_700_000_000.0
SCOPES = ["process_units_i_have_access_to", "process_units_with_runs_ive_contributed_to", "specific_process_units"]
TOPICS = ["run_start", "run_stop", "run_pause", "block_start", "notification_cmd", "watch_triggered", "new_contributor",
          "method_error", "network_errors"]
ROLES = ["A", "B", "C", "a", "AB", "Daemon"]
USER_IDS = ["u1", "u2", "u3", "u4", "U1", "u1 ", "u10", "None", "3f2c-oid"]
UNIT_IDS = ["PC1_UodA", "PC1_UodB", "pc1_uoda", "PC1_UodA2", "PC%201_Uod%2FA", "PC1"]


# ---- domain guard -------------------------------------------------------------------------------------

def _strs(x, pool=None, maxlen=8):
    return isinstance(x, list) and len(x) <= maxlen and all(isinstance(s, str) and 0 < len(s) <= 60 and (pool is None or s in pool) for s in x)


def _case_ok(case) -> bool:
    if not isinstance(case, dict):
        return False
    users, pubs = case.get("users"), case.get("publishes")
    if not isinstance(users, list) or not isinstance(pubs, list) or not (1 <= len(pubs) <= 6) or len(users) > 12:
        return False
    seen = set()
    for u in users:
        if not isinstance(u, dict) or not isinstance(u.get("id"), str) or not (0 < len(u["id"]) <= 60) or u["id"] in seen:
            return False
        seen.add(u["id"])
        if isinstance(u.get("subs"), bool) or not isinstance(u.get("subs"), int) or not (0 <= u["subs"] <= 4):
            return False
        if not isinstance(u.get("prefs"), list) or len(u["prefs"]) > 3:
            return False
        for p in u["prefs"]:
            if not isinstance(p, dict) or not _strs(p.get("roles")) or p.get("scope") not in SCOPES \
                    or not _strs(p.get("topics"), TOPICS, 9) or not _strs(p.get("units")):
                return False
    for p in pubs:
        if not isinstance(p, dict) or p.get("topic") not in TOPICS:
            return False
        unit = p.get("unit")
        if not isinstance(unit, dict) or not isinstance(unit.get("id"), str) or not unit["id"] or not _strs(unit.get("required_roles")):
            return False
        cs = unit.get("contributors")
        if not isinstance(cs, list) or len(cs) > 8:
            return False
        for c in cs:
            if not (isinstance(c, list) and len(c) == 2 and (c[0] is None or (isinstance(c[0], str) and c[0])) and isinstance(c[1], str)):
                return False
        cid = p.get("contributor_id")
        if p["topic"] == "new_contributor":
            if not isinstance(cid, str) or not cid:
                return False
        elif cid is not None:
            return False
        age = p.get("age_s")
        if age is not None and (isinstance(age, bool) or not isinstance(age, (int, float)) or not (0 <= age <= 10**6)):
            return False
    return True


# ---- model --------------------------------------------------------------------------------------------

def _why_not(user, pub):
    """None if entitled, else the first failing clause; 'ambiguous' for the anonymous-contributor corner."""
    if not user["prefs"]:
        return "no-preferences"
    p = user["prefs"][-1]
    unit = pub["unit"]
    if pub["topic"] not in p["topics"]:
        return "topic"
    req = set(unit["required_roles"])
    if req and not (req & set(p["roles"])):
        return "roles"
    scope = p["scope"]
    if scope == SCOPES[1]:
        ids = [c[0] for c in unit["contributors"]]
        if user["id"] not in ids:
            if user["id"] == "None" and None in ids:
                return "ambiguous"
            return "scope-contributed"
    elif scope == SCOPES[2]:
        if unit["id"] not in p["units"]:
            return "scope-specific"
    if pub["topic"] == "new_contributor" and pub["contributor_id"] == user["id"]:
        return "is-the-new-contributor"
    return None


# ---- system under test ----------------------------------------------------------------------------------

_ctx: dict = {}


class _TimeProxy:
    def __init__(self, real):
        self._real = real

    def __getattr__(self, name):
        return getattr(self._real, name)

    def time(self):
        return T0


def _setup():
    if _ctx:
        return _ctx
    import asyncio
    import openpectus.aggregator.data.models as DMdl
    import openpectus.aggregator.webpush_publisher as WP
    from openpectus.aggregator.data import database

    from sqlalchemy import event
    tmp = tempfile.mkdtemp(prefix="c33-")
    database.configure_db("sqlite:///" + os.path.join(tmp, "c33.sqlite3"))

    @event.listens_for(database._engine, "connect")
    def _fast_sqlite(dbapi_connection, _record):   # durability is irrelevant for a scratch database; semantics unchanged
        cur = dbapi_connection.cursor()
        cur.execute("PRAGMA synchronous=OFF")
        cur.execute("PRAGMA journal_mode=MEMORY")
        cur.close()
    DMdl.DBModel.metadata.create_all(database._engine)  # type: ignore
    keys = os.path.join(tmp, "keys")
    os.makedirs(keys)
    saved_env = os.environ.pop("WEBPUSH_SUBSCRIBER_EMAIL", None)   # no real WebPush object: no crypto, no network
    try:
        pub = WP.WebPushPublisher(keys)
    finally:
        if saved_env is not None:
            os.environ["WEBPUSH_SUBSCRIBER_EMAIL"] = saved_env
    pub.wp = object()   # truthy stub: publish_message only tests it for None; _post_webpush (its only user) is replaced
    rec: list = []

    async def recorder(subscription, web_push_repository, notification):
        rec.append((subscription.id, subscription.user_id, subscription.endpoint))
    pub._post_webpush = recorder
    _ctx.update(tmp=tmp, pub=pub, rec=rec, loop=asyncio.new_event_loop(), WP=WP, saved_time=WP.time)
    WP.time = _TimeProxy(WP.time)
    return _ctx


def _teardown():
    if not _ctx:
        return
    from openpectus.aggregator.data import database
    _ctx["WP"].time = _ctx["saved_time"]
    _ctx["loop"].close()
    if database._engine is not None:
        database._engine.dispose()
    shutil.rmtree(_ctx["tmp"], ignore_errors=True)
    _ctx.clear()


def evaluate(case):
    """-> (violations, classes, nontrivial)"""
    import openpectus.aggregator.data.models as DMdl
    import openpectus.aggregator.models as Mdl
    from openpectus.aggregator.data import database
    from openpectus.aggregator.data.repository import WebPushRepository
    from sqlalchemy import delete
    from webpush.types import AnyHttpUrl, WebPushKeys, WebPushSubscription

    c = _setup()
    pub, rec, loop = c["pub"], c["rec"], c["loop"]
    out: list[Violation] = []
    classes: set[str] = set()
    nontrivial = False
    owner: dict[str, int] = {}     # endpoint -> user index

    with database.create_scope():
        session = database.scoped_session()
        session.execute(delete(DMdl.WebPushSubscription))
        session.execute(delete(DMdl.WebPushNotificationPreferences))
        session.commit()
        repo = WebPushRepository(session)
        for ui, u in enumerate(case["users"]):
            for p in u["prefs"]:
                repo.store_notifications_preferences(Mdl.WebPushNotificationPreferences(
                    user_id=u["id"], user_roles=set(p["roles"]), scope=Mdl.NotificationScope(p["scope"]),
                    topics={Mdl.NotificationTopic(t) for t in p["topics"]}, process_units=set(p["units"])))
            if len(u["prefs"]) > 1:
                classes.add("prefs-updated")
            for k in range(u["subs"]):
                endpoint = str(AnyHttpUrl("https://push.example.org/send/%d/%d" % (ui, k)))
                owner[endpoint] = ui
                repo.store_subscription(WebPushSubscription(endpoint=AnyHttpUrl(endpoint), keys=WebPushKeys(auth="auth%d" % k, p256dh="key%d" % k)), u["id"])
            if u["subs"] and not u["prefs"]:
                classes.add("subscribed-without-preferences")

    for pi, pb in enumerate(case["publishes"]):
        unit = pb["unit"]
        ed = Mdl.EngineData(engine_id=unit["id"], computer_name="pc", engine_version="1", uod_name="uod", uod_author_name="",
                            uod_author_email="", uod_filename="", location="")
        ed.required_roles = set(unit["required_roles"])
        ed.contributors = {Mdl.Contributor(id=cid, name=name) for cid, name in unit["contributors"]}
        stale = pb["age_s"] is not None and pb["age_s"] > 5 * 60
        ts = None if pb["age_s"] is None else int((T0 - pb["age_s"]) * 1000)
        data = Mdl.WebPushData(process_unit_id=unit["id"], contributor_id=pb["contributor_id"])
        notification = Mdl.WebPushNotification(title="uod", body="text", data=data, timestamp=ts)
        del rec[:]
        try:
            loop.run_until_complete(pub.publish_message(notification, Mdl.NotificationTopic(pb["topic"]), ed))
        except Exception as e:   # code under test raising on an in-domain input is reported, never swallowed
            out.append(Violation("publish-raises:" + type(e).__name__, "publish %d raised %s: %s" % (pi, type(e).__name__, e), case))
            continue
        got = [r[2] for r in rec]
        classes.add("topic:" + pb["topic"])
        classes.add("stale" if stale else "fresh")
        reasons = {}
        n_ent = 0
        for ui, u in enumerate(case["users"]):
            w = _why_not(u, pb)
            reasons[ui] = w
            if u["subs"]:
                classes.add("user:" + ("entitled" if w is None else w))
                if w is None:
                    n_ent += 1
                    classes.add("entitled-via:" + u["prefs"][-1]["scope"])
        subscribed = [ui for ui, u in enumerate(case["users"]) if u["subs"]]
        if (any(reasons[ui] == "roles" for ui in subscribed) and n_ent
                and any(reasons[ui] in ("topic", "scope-contributed", "scope-specific") for ui in subscribed)):
            nontrivial = True
        if any(reasons[ui] == "ambiguous" for ui in subscribed):
            classes.add("anon-contributed-ambiguous")
        seen = set()
        for ep in got:
            if ep not in owner:
                out.append(Violation("unknown-subscription", "publish %d notified %r which the case never stored" % (pi, ep), case))
                continue
            ui = owner[ep]
            if ep in seen:
                out.append(Violation("duplicate", "publish %d (%s) notified subscription %s of user %r more than once"
                                     % (pi, pb["topic"], ep, case["users"][ui]["id"]), case))
            seen.add(ep)
            w = reasons[ui]
            if w is not None and w != "ambiguous":
                out.append(Violation("not-entitled:" + w, "publish %d (%s, unit %r) notified user %r who is not entitled: %s"
                                     % (pi, pb["topic"], unit["id"], case["users"][ui]["id"], w), case))
        if not stale:
            for ep, ui in owner.items():
                if reasons[ui] is None and ep not in seen:
                    out.append(Violation("missed:" + case["users"][ui]["prefs"][-1]["scope"],
                                         "publish %d (%s, unit %r) did not notify subscription %s of entitled user %r"
                                         % (pi, pb["topic"], unit["id"], ep, case["users"][ui]["id"]), case))
        else:
            classes.add("stale:" + ("nothing-sent" if not got else "something-sent"))
    return out, sorted(classes), nontrivial


def check_case(case) -> list[Violation]:
    if not _case_ok(case):
        return []
    try:
        return evaluate(case)[0]
    finally:
        _teardown()


# ---- generator ---------------------------------------------------------------------------------------

_roles = st.lists(st.sampled_from(ROLES), max_size=3, unique=True)
_roles_nonempty = st.lists(st.sampled_from(ROLES), min_size=1, max_size=3, unique=True)
_topics = st.lists(st.sampled_from(TOPICS), max_size=9, unique=True)
_units_l = st.lists(st.sampled_from(UNIT_IDS), max_size=3, unique=True)
_pref = st.fixed_dictionaries({"roles": _roles, "scope": st.sampled_from(SCOPES), "topics": _topics, "units": _units_l})
_one_pref = st.lists(_pref, min_size=1, max_size=1)
_prefs = st.one_of(_one_pref, _one_pref, _one_pref, _one_pref, _one_pref, st.lists(_pref, min_size=2, max_size=2),
                   st.lists(_pref, min_size=2, max_size=2), st.builds(list))
_subs = st.sampled_from([0, 1, 1, 1, 2, 3])
_user_ids = st.lists(st.sampled_from(USER_IDS), min_size=1, max_size=7, unique=True)
_user_ids_many = st.lists(st.sampled_from(USER_IDS), min_size=4, max_size=8, unique=True)
# a contributor is (id, display name); the same user contributing again under a changed display name is a second element of
# EngineData.contributors (Contributor equality includes the name), so one id can occur more than once
_contrib_pairs = st.lists(st.tuples(st.sampled_from(USER_IDS[:8] + [None, "stranger"]), st.sampled_from(["NAME", "NAME", "NAME", "Name B."])),
                          max_size=5, unique=True)
_age = st.sampled_from([0, 0, 0, 1, 299, 301, 86400, None])
_unit = st.fixed_dictionaries({"id": st.sampled_from(UNIT_IDS), "required_roles": st.one_of(st.builds(list), _roles, _roles_nonempty, _roles_nonempty),
                               "contributors": _contrib_pairs.map(lambda ps: [[i, n] for i, n in ps])})
_topic_pick = st.sampled_from(TOPICS + ["new_contributor", "new_contributor"])
_idx = st.integers(0, 1 << 20)
_n_pub = st.integers(1, 3)
_bias = st.sampled_from([True, True, True, False])
_coin = st.booleans()
_plan = st.sampled_from(["entitled", "roles", "topic", "scope", "random", "random"])


@st.composite
def cases(draw):
    ids = draw(_user_ids_many if draw(_bias) else _user_ids)
    users = [{"id": i, "prefs": draw(_prefs), "subs": draw(_subs)} for i in ids]
    pubs = []
    for _ in range(draw(_n_pub)):
        topic = draw(_topic_pick)
        unit = draw(_unit)
        if draw(_bias):
            # steer towards the interesting region: push each user with recorded preferences into one of the classes
            # the statement distinguishes (everything not touched stays random)
            for u in users:
                if not u["prefs"]:
                    continue
                last = u["prefs"][-1]
                req = unit["required_roles"]
                plan = draw(_plan)
                if plan in ("entitled", "roles", "scope") and topic not in last["topics"]:
                    last["topics"] = last["topics"] + [topic]
                if plan == "topic":
                    last["topics"] = [t for t in last["topics"] if t != topic]
                if plan in ("entitled", "scope") and req and not (set(req) & set(last["roles"])):
                    last["roles"] = last["roles"] + [req[draw(_idx) % len(req)]]
                if plan == "roles":
                    last["roles"] = [r for r in last["roles"] if r not in req]
                if plan == "scope" and last["scope"] == SCOPES[0]:
                    last["scope"] = SCOPES[1 + draw(_idx) % 2]
                if plan == "entitled" and draw(_coin):
                    last["scope"] = SCOPES[0]
        cid = None
        if topic == "new_contributor":
            cid = (ids + ["stranger"])[draw(_idx) % (len(ids) + 1)]
            if draw(_bias):
                # the notification is published after the contributor was added (FromFrontend.add_contributor), possibly for
                # the second time under another display name
                unit = dict(unit, contributors=[c for c in unit["contributors"] if c != [cid, "NAME"]] + [[cid, "NAME"]]
                            + ([[cid, "Name B."]] if draw(_coin) and [cid, "Name B."] not in unit["contributors"] else []))
        pubs.append({"unit": unit, "topic": topic, "contributor_id": cid, "age_s": draw(_age)})
    return {"users": users, "publishes": pubs}


def run_shard(col, cfg):
    def body(case):
        vs, classes, nontrivial = evaluate(case)
        col.record(case, nontrivial, classes=classes, violations=vs)
    try:
        hyp_run(cases(), body, max(1, cfg["cases"] // col.nshards), shard_seed(col.seed, col.shard), col)
    finally:
        _teardown()
