"""C20 — a method the analyzer accepts does not fail on names, args or units.

Domain : generated UODs (UodBuilder: 1-5 tags with units from every quantity or none, optional totalizer / accumulated
         volume, 1-4 commands with RegexNumber / RegexCategorical / RegexText / no-argument / default parsers or a hand-written,
         unanchored / partly anchored regex as in the project's own tests; arguments with text around a matching core)  x  generated
         methods using those names with valid and near-miss names, arguments and units (Watch/Alarm conditions, Simulate,
         UOD commands, Wait/Pause/Hold/Base/Run counter ..., names that exist in an engine registry but are not P-code
         instructions such as Start / Unpause / system tag names).
System : the analyzer is fed exactly what the engine publishes: EngineMessageBuilder.create_uod_info().uod_definition
         (through its JSON wire form) -> lsp_analysis.build_tags / build_commands -> parse as lsp_analysis.analyze does ->
         SemanticCheckAnalyzer.  Lines the analyzer marks with an ERROR are removed (with their bodies) until the rest is
         analyzer-clean; that rest is then run on a real engine built around the same UOD, with tag values cycling
         low / high / every literal of the conditions so that every Watch/Alarm fires.
Oracle : (implication) analyzer reports no ERROR  =>  the run never enters the error state with a cause in
         {undefined tag, undefined command, invalid command argument, incomparable (or unknown) units in a condition};
         cause = classification of the exception chain handed to on_method_error; every other cause is counted, not judged.
         After any error the failing line is removed and the rest is run again (up to 4 runs), so one error does not hide
         the lines behind it.   signature  accepted-but-fails:<cause>:<construct>
"""
from __future__ import annotations

import re

from hypothesis import strategies as st

from vp.core.framework import Violation, hyp_run, shard_seed
from vp.harness import c20_h as H

# heavy imports once in the parent process, before the shard workers are forked
import openpectus.lsp.lsp_analysis  # noqa: E402,F401
import openpectus.lang.exec.analyzer  # noqa: E402,F401
import openpectus.engine.engine_message_builder  # noqa: E402,F401
import vp.harness.engine_h  # noqa: E402,F401

# The imports above leave a very large heap in the parent.  Hypothesis runs one gc.collect() per hyp_run; in a forked
# worker that full collection touches every inherited object (copy-on-write of the whole heap, ~15 s per shard on a loaded
# machine).  Freezing the parent's objects into the permanent generation before the fork keeps the workers' collections cheap.
import gc  # noqa: E402
gc.collect()
gc.freeze()

ID = "C20"
LEVEL = "exploration"
ENGINE = "engine_harness"
TECHNIQUE = "generated UODs x generated methods with near-miss names/arguments/units; differential analyzer (published definitions) vs engine run"
RULE = ("Hypothesis draws a UOD spec (tags with/without units, regex-number/categorical/text/no-arg/default/hand-written-regex commands, optional "
        "totalizer) and a method of 3-14 top-level constructs with 0-3 near-miss lines. Lines with analyzer ERRORs are removed until the "
        "method is analyzer-clean. Non-trivial = the clean method that is run contains >= 1 Watch/Alarm whose value carries a unit "
        "and >= 1 command with a regex argument parser. Distinct = distinct (UOD spec, method text).")
ASSUMPTIONS = [
    "only argument parsers the engine can publish are generated (regex based incl. hand-written regexes, none, default); a "
    "hand-written arg_parse_fn *function* is invisible to the analyzer by construction",
    "the cause of an engine error is read from the exception chain given to on_method_error (message patterns in c20_h.CAUSES)",
    "inside the evaluation of a condition ('Error evaluating condition: ...') an unknown unit and a failing conversion between "
    "the tag's unit and the limit's unit count as incompatible units; a non-numeric comparison value, a failing Simulate "
    "conversion and every other cause are counted but not judged",
    "the method text is parsed for the analyzer exactly as lsp_analysis.analyze does (ParserMethod.from_pcode, no UOD command names)",
]
TIERS = {"quick": {"examples": 3000, "budget_s": 100, "max_lines": 8},
         "thorough": {"examples": 60000, "budget_s": 1200, "max_lines": 14}}
JUDGED = ("undefined-tag", "undefined-command", "invalid-command-argument", "incomparable-units")
MAX_RUNS = 4
_COND_RE = re.compile(r"^\s*(?:\d+(?:\.\d+)?\s+)?(Watch|Alarm):")
_NUM_RE = re.compile(r"(?<![A-Za-z0-9_.])-?(?:\d+\.\d*|\.\d+|\d+)(?![A-Za-z0-9_])")
_HEAD_RE = re.compile(r"^\s*(?:\d+(?:\.\d+)?\s+)?([^:#]*?)\s*(?::(.*))?$")


@st.composite
def cases(draw, max_lines):
    spec = draw(H.uod_specs())
    lines = draw(H.methods(spec, max_lines))
    return {"uod": spec, "lines": lines}


def in_domain(case) -> bool:
    if not isinstance(case, dict) or not H.spec_ok(case.get("uod")) or not isinstance(case.get("lines"), list):
        return False
    if len(case["lines"]) > 80:
        return False
    for l in case["lines"]:
        if not isinstance(l, dict) or not isinstance(l.get("text"), str) or not isinstance(l.get("kind"), str) \
                or not isinstance(l.get("near"), bool):
            return False
        t = l["text"]
        if len(t) > 120 or not t.isprintable() or "\t" in t:
            return False
    return True


def _construct(spec, text: str) -> str:
    m = _HEAD_RE.match(text)
    head = (m.group(1) if m else text).strip()
    if head in ("Watch", "Alarm"):
        return head.lower()
    if head == "Simulate":
        return "simulate"
    if head == "Simulate off":
        return "simulate-off"
    for c in spec["commands"]:
        if c["name"] == head:
            return "uod-command:%s" % ("default" if c["arg"] is None else c["arg"]["kind"])
    if head in H.RESERVED_NAMES:
        return "internal:" + head
    return "unknown-name"


def _has_unit_condition(text: str) -> bool:
    if not _COND_RE.match(text):
        return False
    rhs = re.split(r"<=|>=|==|!=|<|>|=", text.split(":", 1)[1], maxsplit=1)
    return len(rhs) == 2 and bool(re.search(r"\d\s*[A-Za-z%°µ]", rhs[1]))


def run_case(case):
    spec = case["uod"]
    texts = [l["text"] for l in case["lines"]]
    kind_of = {}
    for l in case["lines"]:
        kind_of.setdefault(l["text"], (l["kind"], l["near"]))
    out: list[Violation] = []
    info = {"classes": set(), "runs": 0, "nontrivial": False, "clean_lines": 0}

    def viol(sig, msg):
        if not any(v.sig == sig for v in out):
            out.append(Violation(sig, msg, case))

    # ---- analysis with the published definitions; keep the analyzer-accepted part -------------------------------
    h0 = H.GenHarness(spec, ["Mark: a"])
    try:
        uod_def = H.published_definition(h0)
    finally:
        h0.close()
    cur = list(texts)
    for _ in range(12):
        items = H.analyze(uod_def, cur)
        err_lines = {ln for (ln, _iid, _msg, is_err) in items if is_err}
        if not err_lines:
            break
        for (ln, iid, _msg, is_err) in items:
            if is_err and 0 <= ln < len(cur):
                info["classes"].add("analyzer-error:%s" % iid)
        cur = H.drop_lines(cur, err_lines)
    else:
        info["classes"].add("analyzer-never-clean")
        return out, info
    if len(cur) == len(texts):
        info["classes"].add("analyzer:clean-as-generated")
    if not [l for l in cur if l.strip()]:
        info["classes"].add("analyzer:nothing-left")
        return out, info
    for t in cur:
        k, near = kind_of.get(t, ("?", False))
        if near:
            info["classes"].add("near-miss-accepted:%s" % k)
    info["clean_lines"] = len(cur)
    has_cond_unit = any(_has_unit_condition(t) for t in cur)
    has_regex_cmd = any(_construct(spec, t) in ("uod-command:number", "uod-command:categorical", "uod-command:text", "uod-command:noargs", "uod-command:regex")
                        for t in cur)
    info["nontrivial"] = has_cond_unit and has_regex_cmd
    if has_cond_unit:
        info["classes"].add("clean:condition-with-unit")
    if has_regex_cmd:
        info["classes"].add("clean:regex-command")

    # ---- run the accepted method; after an error drop the failing line and run the rest ------------------------------
    tag_names = [t["name"] for t in spec["tags"]]
    for _run in range(MAX_RUNS):
        if not [l for l in cur if l.strip()]:
            break
        # the analyzer must still accept what is run (dropping a line can change e.g. macro/unreachable-code findings)
        if any(is_err for (_ln, _iid, _msg, is_err) in H.analyze(uod_def, cur)):
            info["classes"].add("rerun-not-clean")
            break
        info["runs"] += 1
        literals = sorted({float(x) for t in cur if _COND_RE.match(t) for x in _NUM_RE.findall(t.split(":", 1)[1])})[:6]
        phases = [-1.0e6, 1.0e6] + literals
        n_ticks = min(260, max(60, 4 * len(cur) + 20) + 8 * len(phases))
        h = H.GenHarness(spec, cur)
        try:
            o = h.start()
            fired = 0
            for t in range(n_ticks):
                v = phases[(t // 8) % len(phases)]
                for name in tag_names:
                    h.set_tag(name, v)
                o = h.tick()
                if o.raised is not None or o.status == "Error":
                    break
            fired = len([e for e in h.events if e[1] == "scope_activate" and e[2] in ("Watch", "Alarm")])
            err = h.last_error
            raised = o.raised
        finally:
            h.close()
        n_cond = len([t for t in cur if _COND_RE.match(t)])
        if n_cond and err is None:
            info["classes"].add("all-conditions-fired" if fired >= n_cond else "some-condition-not-fired")
        if raised is not None:
            info["classes"].add("tick-raised:%s" % type(raised).__name__)
            break
        if err is None:
            info["classes"].add("run:no-error")
            break
        cause = H.classify_error(err)
        node = getattr(err, "node", None)
        ln = getattr(getattr(node, "position", None), "line", None)
        construct = None
        if not (isinstance(ln, int) and 0 <= ln < len(cur)):
            ln = None
            m = re.search(r"for command '([^']*)'", H.chain_text(err))
            if m:    # errors of the command manager name the command, not the line
                cand = [i for i, t in enumerate(cur) if (_HEAD_RE.match(t).group(1) or "").strip() == m.group(1)]
                if len(cand) == 1:
                    ln = cand[0]
                elif cand:
                    cs = {_construct(spec, cur[i]) for i in cand}
                    construct = cs.pop() if len(cs) == 1 else "uod-command"
        if ln is not None:
            construct = _construct(spec, cur[ln])
        construct = construct or "unlocated"
        info["classes"].add("engine-error:%s" % cause)
        if cause in JUDGED:
            viol("accepted-but-fails:%s:%s" % (cause, construct),
                 "the analyzer (fed with the definitions the engine publishes) reports no error for the method %r but running it "
                 "fails at line %s %r: %s" % (cur, ln, cur[ln] if ln is not None else None, H.chain_text(err)[-400:]))
        if ln is None:
            break
        cur = H.drop_lines(cur, {ln})
    return out, info


def check_case(case):
    if not in_domain(case):
        return []
    return run_case(case)[0]


def run_shard(col, cfg):
    def body(case):
        vs, info = run_case(case)
        classes = sorted(info["classes"])
        classes.append("runs:%d" % info["runs"])
        if case["uod"]["totalizer"]:
            classes.append("uod:totalizer")
        for c in case["uod"]["commands"]:
            classes.append("uod:cmd:%s" % ("default" if c["arg"] is None else c["arg"]["kind"]))
        if any(t["unit"] is None for t in case["uod"]["tags"]):
            classes.append("uod:unitless-tag")
        col.record(case, info["nontrivial"], classes=sorted(set(classes)), violations=vs,
                   sample={"uod": case["uod"], "method": [l["text"] for l in case["lines"]]})
    hyp_run(cases(cfg["max_lines"]), body, max(1, cfg["examples"] // col.nshards), shard_seed(col.seed, col.shard), col)


def shrink_hints(case):
    lines = case["lines"]
    for i, l in enumerate(lines):
        ind = len(l["text"]) - len(l["text"].lstrip(" "))
        j = i + 1
        while j < len(lines) and (len(lines[j]["text"]) - len(lines[j]["text"].lstrip(" "))) > ind:
            j += 1
        yield dict(case, lines=lines[:i] + lines[j:])
    for l in lines:
        if len(lines) > 1 and not l["text"].startswith(" "):
            yield dict(case, lines=[l])
    u = case["uod"]
    for i in range(len(u["tags"])):
        yield dict(case, uod=dict(u, tags=u["tags"][:i] + u["tags"][i + 1:]))
    for i in range(len(u["commands"])):
        yield dict(case, uod=dict(u, commands=u["commands"][:i] + u["commands"][i + 1:]))
    if u["totalizer"]:
        yield dict(case, uod=dict(u, totalizer=False))
