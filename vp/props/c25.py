"""C25 — composite hardware is transparent.

Domain : 1-4 fake hardware layers, 1-12 registers assigned arbitrarily to the layers (direction Read / Write / Both),
         operation lists of read_batch / write_batch (any sub-sequence of the readable / writable registers in any
         order, duplicates across batches; a read batch may name a register more than once, a write batch does not),
         single read / write, arbitrary JSON values, and transient layer faults (the next read / write access of one
         layer raises HardwareLayerException once).
         Layers either override the batch methods or rely on the HardwareLayerBase defaults (per-register calls).
Oracle : differential.  World A drives the real Composite_Hardware.  World B owns an identical set of fake layers and
         performs every batch register by register on the owning layer (`layer.read(r)` / `layer.write(v, r)`).
         Judged per operation:
           read-values:*      returned list differs (length, position, value) from world B
           layer-access:*     the sequence of register accesses (name and written value) a layer saw during the
                              operation differs from the batch order restricted to that layer (covers relative order,
                              double or missing accesses, values attached to the wrong register)
           memory:*           per-layer register memory after the operation differs
           exception:*        the composite raised (other than passing on the HardwareLayerException of a layer fault)
           fault:*            an operation during which a layer fault fired: when the composite call returns normally
                              the caller believes the batch was done, so returned values and every layer's memory must
                              equal world B's (which has no fault); when it passes the exception on, every register
                              holds its old or its new value (nothing foreign), and world B is re-synchronised
Non-trivial : at least one batch in which two layers are interleaved (the layer sequence of the batch is not grouped,
              e.g. L0 L1 L0).
"""
from __future__ import annotations

from hypothesis import strategies as st

from vp.core.framework import Violation, hyp_run, shard_seed

ID = "C25"
LEVEL = "exploration"
ENGINE = "pure"
DESIGN_REF = "DESIGN.md §3 C25"
TECHNIQUE = "differential testing: Composite_Hardware batches vs. per-register access on the owning fake layer"
RULE = ("a case = number of layers (1-4), per layer whether it overrides the batch methods, 1-12 registers with owning "
        "layer, direction and initial content, and 1-8 (quick) / 1-16 (thorough) operations (read_batch / write_batch "
        "over register sequences in arbitrary order - read batches may repeat a register, write batches do not -, single "
        "read / write; container type list or tuple; transient layer faults). "
        "Non-trivial = some batch interleaves >= 2 layers (its layer sequence is not grouped). "
        "Distinct = distinct case structure.")
ASSUMPTIONS = [
    "no register occurs twice inside one WRITE batch (the engine never does that; which of two values for one register "
    "wins is not stated). Read batches with a repeated register are in the domain: position for position is stated",
    "batches are passed as list or tuple (what callers pass); one-shot iterators are out of the domain",
    "fake layers raise only the injected transient HardwareLayerException, before touching any register of the call; "
    "connect/disconnect/validate forwarding is not part of the statement",
    "how many batch calls a layer receives per composite batch is not judged, only the register access sequence",
]
TIERS = {
    "quick": {"per_shard": 2500, "chunk": 2500, "max_ops": 8, "budget_s": 170},
    "thorough": {"per_shard": 100000, "chunk": 2500, "max_ops": 16, "budget_s": 840},
}

MAX_LAYERS = 4
MAX_REGS = 12
DIRS = ("r", "w", "rw")


def _is_json_value(v, depth=0) -> bool:
    if v is None or isinstance(v, (bool, int, str)):
        return True
    if isinstance(v, float):
        return v == v and v not in (float("inf"), float("-inf"))
    if isinstance(v, list) and depth < 2:
        return len(v) <= 4 and all(_is_json_value(x, depth + 1) for x in v)
    return False


def valid_case(case) -> bool:
    if not isinstance(case, dict) or set(case) != {"layers", "regs", "ops"}:
        return False
    layers, regs, ops = case["layers"], case["regs"], case["ops"]
    if not isinstance(layers, list) or not (1 <= len(layers) <= MAX_LAYERS) or not all(isinstance(b, bool) for b in layers):
        return False
    if not isinstance(regs, list) or not (1 <= len(regs) <= MAX_REGS):
        return False
    for r in regs:
        if not (isinstance(r, list) and len(r) == 3 and isinstance(r[0], int) and not isinstance(r[0], bool)
                and 0 <= r[0] < len(layers) and r[1] in DIRS and _is_json_value(r[2])):
            return False
    if not isinstance(ops, list) or len(ops) > 64:
        return False

    def idx_ok(i, need):
        return isinstance(i, int) and not isinstance(i, bool) and 0 <= i < len(regs) and need in regs[i][1]

    for op in ops:
        if not isinstance(op, list) or not op or not isinstance(op[0], str):
            return False
        k, a = op[0], op[1:]
        if k == "read":
            ok = len(a) == 1 and idx_ok(a[0], "r")
        elif k == "write":
            ok = len(a) == 2 and idx_ok(a[0], "w") and _is_json_value(a[1])
        elif k == "read_batch":
            ok = len(a) == 2 and a[1] in ("list", "tuple") and isinstance(a[0], list) and all(idx_ok(i, "r") for i in a[0])
        elif k == "fault":
            ok = (len(a) == 2 and isinstance(a[0], int) and not isinstance(a[0], bool) and 0 <= a[0] < len(layers)
                  and a[1] in ("r", "w"))
        elif k == "write_batch":
            ok = (len(a) == 2 and a[1] in ("list", "tuple") and isinstance(a[0], list)
                  and all(isinstance(p, list) and len(p) == 2 and idx_ok(p[0], "w") and _is_json_value(p[1]) for p in a[0])
                  and len({p[0] for p in a[0]}) == len(a[0]))
        else:
            ok = False
        if not ok:
            return False
    return True


def _build_world(case):
    from openpectus.engine.hardware import HardwareLayerBase, HardwareLayerException, Register, RegisterDirection

    class Layer(HardwareLayerBase):
        def __init__(self, ident: int):
            super().__init__()
            self.ident = ident
            self.mem: dict = {}
            self.log: list = []
            self.fail = {"r": False, "w": False}    # armed transient faults
            self.fired = 0

        def _fault(self, kind):
            if self.fail[kind]:
                self.fail[kind] = False
                self.fired += 1
                raise HardwareLayerException("injected transient %s fault on layer %d" % (kind, self.ident))

        def read(self, r):
            self._fault("r")
            self.log.append(("r", r.name))
            return self.mem[r.name]

        def write(self, value, r):
            self._fault("w")
            self.log.append(("w", r.name, value))
            self.mem[r.name] = value

        def __str__(self):
            return "Layer(%d)" % self.ident

    class BatchLayer(Layer):
        def read_batch(self, registers):
            self._fault("r")
            out = []
            for r in registers:
                self.log.append(("r", r.name))
                out.append(self.mem[r.name])
            return out

        def write_batch(self, values, registers):
            self._fault("w")
            for v, r in zip(values, registers, strict=True):
                self.log.append(("w", r.name, v))
                self.mem[r.name] = v

    layers = [(BatchLayer if b else Layer)(i) for i, b in enumerate(case["layers"])]
    dmap = {"r": RegisterDirection.Read, "w": RegisterDirection.Write, "rw": RegisterDirection.Both}
    regs = []
    for i, (li, d, init) in enumerate(case["regs"]):
        reg = Register("R%d" % i, dmap[d], hardware=layers[li])
        layers[li]._registers[reg.name] = reg
        layers[li].mem[reg.name] = init
        regs.append(reg)
    return layers, regs


def _interleaved(layer_seq) -> bool:
    seen, last = set(), None
    for x in layer_seq:
        if x != last and x in seen:
            return True
        seen.add(x)
        last = x
    return False


def analyse(case):
    """-> (violations, labels, nontrivial)"""
    from openpectus.engine.composite_hardware import Composite_Hardware

    out: list[Violation] = []
    seen: set[str] = set()
    labels: set[str] = set()

    def V(sig, msg):
        if sig not in seen:
            seen.add(sig)
            out.append(Violation(sig, msg, case))

    la, ra = _build_world(case)     # world A: through the composite
    lb, rb = _build_world(case)     # world B: register by register on the owning layer
    comp = Composite_Hardware()
    for r in ra:
        comp._registers[r.name] = r
    owner = [r[0] for r in case["regs"]]
    nontrivial = False
    from openpectus.engine.hardware import HardwareLayerException
    for n, op in enumerate(case["ops"]):
        k = op[0]
        if k == "fault":
            la[op[1]].fail[op[2]] = True
            continue
        for l in la + lb:
            del l.log[:]
        fired0 = sum(l.fired for l in la)
        mem0 = [dict(l.mem) for l in la]
        exc = None
        got = want = None
        if k in ("read", "read_batch"):
            idxs = [op[1]] if k == "read" else list(op[1])
        else:
            idxs = [op[1]] if k == "write" else [p[0] for p in op[1]]
        lseq = [owner[i] for i in idxs]
        if k.endswith("_batch"):
            nl = len(set(lseq))
            labels.add("batch-layers:%d" % nl)
            labels.add("batch-len:%s" % ("0" if not idxs else ("1-3" if len(idxs) <= 3 else ">3")))
            if _interleaved(lseq):
                nontrivial = True
                labels.add("interleaved-" + k)
            if len(set(idxs)) < len(idxs):
                labels.add("repeated-register-in-" + k)
        # ---- world B ---------------------------------------------------------------------------------
        if k == "read":
            want = lb[owner[op[1]]].read(rb[op[1]])
        elif k == "read_batch":
            want = [lb[owner[i]].read(rb[i]) for i in idxs]
        elif k == "write":
            lb[owner[op[1]]].write(op[2], rb[op[1]])
        else:
            for i, v in op[1]:
                lb[owner[i]].write(v, rb[i])
        # ---- world A ---------------------------------------------------------------------------------
        conv = (lambda x: x) if (not k.endswith("_batch") or op[2] == "list") else tuple
        try:
            if k == "read":
                got = comp.read(ra[op[1]])
            elif k == "read_batch":
                got = comp.read_batch(conv([ra[i] for i in idxs]))
            elif k == "write":
                comp.write(op[2], ra[op[1]])
            else:
                comp.write_batch(conv([p[1] for p in op[1]]), conv([ra[i] for i in idxs]))
        except Exception as e:  # raised by the code under test: judged, not swallowed
            exc = e
        where = "op #%d %s %s (layers %s)" % (n, k, ["R%d" % i for i in idxs], lseq)
        if sum(l.fired for l in la) > fired0:
            # ---- a transient layer fault fired during this operation ------------------------------------
            if isinstance(exc, HardwareLayerException):
                labels.add("fault:passed-on:" + k)
                foreign = [(a.ident, name, a.mem[name]) for a, b, m0 in zip(la, lb, mem0) for name in a.mem
                           if not _eq(a.mem[name], m0[name]) and not _eq(a.mem[name], b.mem[name])]
                if foreign:
                    V("fault:foreign-value:" + k, "%s passed the layer fault on, but (layer, register, value) %r is neither "
                      "the old nor the requested value" % (where, foreign[:4]))
                    break
                for a, b in zip(la, lb):      # the caller knows the operation failed: continue from what is there
                    b.mem = dict(a.mem)
                continue
            if exc is not None:
                V("exception:%s:%s" % (k, type(exc).__name__), "%s raised %s: %s" % (where, type(exc).__name__, exc))
                break
            labels.add("fault:masked:" + k)
            if k in ("read", "read_batch"):
                w = want if k == "read_batch" else [want]
                g = got if k == "read_batch" else [got]
                if not isinstance(g, list) or len(g) != len(w) or any(not _eq(x, y) for x, y in zip(g, w)):
                    V("fault:masked:read-values", "%s returned normally although a layer fault fired: %r, per-register reads "
                      "give %r" % (where, got, want))
                    break
            bad = [(a.ident, a.mem, b.mem) for a, b in zip(la, lb) if not _eq(a.mem, b.mem)]
            if bad:
                V("fault:masked:memory:" + k, "%s returned normally although a layer fault fired (the caller believes the "
                  "operation was done): layer %d memory %r, register-by-register gives %r" % ((where,) + bad[0]))
                break
            continue
        if exc is not None:
            V("exception:%s:%s" % (k, type(exc).__name__), "%s raised %s: %s" % (where, type(exc).__name__, exc))
            break
        # ---- compare -----------------------------------------------------------------------------------
        if k == "read":
            if not _eq(got, want):
                V("read-values:single", "%s returned %r, the owning layer returns %r" % (where, got, want))
        elif k == "read_batch":
            if not isinstance(got, list) or len(got) != len(want):
                V("read-values:length", "%s returned %r, per-register reads give %r" % (where, got, want))
            elif any(not _eq(g, w) for g, w in zip(got, want)):
                V("read-values:%s" % ("permuted" if sorted(map(repr, got)) == sorted(map(repr, want)) else "different"),
                  "%s returned %r, per-register reads give %r" % (where, got, want))
        bad_layer = False
        for a, b in zip(la, lb):
            if not _eq_log(a.log, b.log):
                bad_layer = True
                same_set = sorted(map(repr, a.log)) == sorted(map(repr, b.log))
                V("layer-access:%s:%s" % (k, "order" if same_set else "content"),
                  "%s: layer %d saw %r, batch order restricted to the layer is %r" % (where, a.ident, a.log, b.log))
            if not _eq(a.mem, b.mem):
                bad_layer = True
                V("memory:%s" % k, "%s: layer %d memory %r, register-by-register gives %r" % (where, a.ident, a.mem, b.mem))
        if bad_layer:
            break       # the worlds have diverged; later differences are consequences
    labels.add("layers:%d" % len(case["layers"]))
    labels.add("regs:%s" % ("1-3" if len(case["regs"]) <= 3 else ("4-8" if len(case["regs"]) <= 8 else "9-12")))
    if any(case["layers"]) and not all(case["layers"]):
        labels.add("mixed-layer-implementations")
    return out, labels, nontrivial


def _eq(a, b) -> bool:
    """structural equality that keeps 1 / 1.0 / True apart"""
    if type(a) is not type(b):
        return False
    if isinstance(a, (list, tuple)):
        return len(a) == len(b) and all(_eq(x, y) for x, y in zip(a, b))
    if isinstance(a, dict):
        return list(a.keys()) == list(b.keys()) and all(_eq(a[k], b[k]) for k in a)
    return a == b


def _eq_log(a, b) -> bool:
    return len(a) == len(b) and all(_eq(list(x), list(y)) for x, y in zip(a, b))


def check_case(case) -> list[Violation]:
    if not valid_case(case):
        return []
    return analyse(case)[0]


# ------------------------------------------------------------------------------------------------
# generator
# ------------------------------------------------------------------------------------------------

POOL = [None, True, False, 0, 1, -1, 2, 7, 1000, 0.5, -1.25, 1e300, 5e-324, 1.0, "", "a", "reset", "\u03a9", "1",
        [], [1, 2], ["a", None], [0.5]]
values = st.one_of(st.sampled_from(POOL), st.integers(-3, 1000))
reg_st = st.tuples(st.integers(0, MAX_LAYERS - 1), st.sampled_from(["rw", "rw", "r", "w"]), st.one_of(st.none(), values))


@st.composite
def cases(draw, max_ops: int):
    layers = draw(st.lists(st.booleans(), min_size=1, max_size=MAX_LAYERS))
    if len(layers) == 1 and draw(st.booleans()):
        layers = layers + [True]
    nl = len(layers)
    raw = draw(st.lists(reg_st, min_size=1, max_size=MAX_REGS))
    # distinct initial contents (100+i) unless an explicit value was drawn: makes a permuted result visible
    regs = [[li % nl, d, (100 + i) if init is None else init] for i, (li, d, init) in enumerate(raw)]
    readable = [i for i, r in enumerate(regs) if "r" in r[1]]
    writable = [i for i, r in enumerate(regs) if "w" in r[1]]
    kinds = (["read_batch"] * 4 + ["read"] if readable else []) + (["write_batch"] * 4 + ["write"] if writable else [])
    kinds = kinds + ["fault"]
    ops = []
    for k in draw(st.lists(st.sampled_from(kinds), min_size=1, max_size=max_ops)):
        if k == "fault":
            ops.append(["fault", draw(st.integers(0, nl - 1)), draw(st.sampled_from(["w", "w", "r"]) if writable else st.just("r"))])
        elif k == "read":
            ops.append(["read", draw(st.sampled_from(readable))])
        elif k == "write":
            ops.append(["write", draw(st.sampled_from(writable)), draw(values)])
        else:
            pool = readable if k == "read_batch" else writable
            # mostly long batches: a permutation cut at a length biased towards the full register set
            n = min(len(pool), draw(st.sampled_from([0, 1, 2, 3, 5, 8, 12, 12, 12])))
            idxs = list(draw(st.permutations(pool)))[:n]
            if k == "read_batch" and idxs and draw(st.integers(0, 3)) == 0:
                # a register named more than once in one read batch: position for position still applies
                for _ in range(draw(st.integers(1, 3))):
                    idxs.insert(draw(st.integers(0, len(idxs))), draw(st.sampled_from(idxs)))
            cont = draw(st.sampled_from(["list", "list", "tuple"]))
            if k == "read_batch":
                ops.append(["read_batch", idxs, cont])
            else:
                vals = draw(st.lists(values, min_size=n, max_size=n))
                ops.append(["write_batch", [[i, v] for i, v in zip(idxs, vals)], cont])
    return {"layers": layers, "regs": regs, "ops": ops}



def run_chunks(col, cfg, strategy, body):
    """Spend cfg['per_shard'] examples in chunks so that an expired budget stops generation after at most one chunk
    (hyp_run keeps generating examples after expiry).  Chunk 0 uses the plain shard seed."""
    left, i = int(cfg["per_shard"]), 0
    chunk = int(cfg.get("chunk", 1250))
    while left > 0 and not col.expired():
        n = min(chunk, left)
        hyp_run(strategy, body, n, shard_seed(col.seed, col.shard) + 7919000 * i, col)
        left -= n
        i += 1


def run_shard(col, cfg):
    def body(case):
        if not valid_case(case):
            raise AssertionError("generator produced a case outside its own domain: %r" % (case,))
        vs, labels, nontrivial = analyse(case)
        col.record(case, nontrivial, classes=sorted(labels), violations=vs)

    run_chunks(col, cfg, cases(cfg["max_ops"]), body)
