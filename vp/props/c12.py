"""C12 — cancel and force requests take effect exactly as offered.

Domain : generated methods (Watch, Alarm, Wait, thresholds, timed Pause/Hold, UOD commands of 1..6 iterations, blocks,
         macros) x input trajectories x cancel/force requests at generated ticks.  A request names the k-th item of the
         *current* run log (pool "all"), the k-th item without end state (pool "pending"), or - for the statement's
         'forced threshold instruction' clause only - the k-th instruction instance that is awaiting its threshold (pool
         "hidden": the run log does not render such instances, their instance id is taken from the tracking records), or
         the k-th pending item of a line that was already executed before in this run (pool "later": second call of a macro,
         second round of an Alarm body).  Half of the methods get an extra macro called 2-3 times or an always-true Alarm.
         Requests go through engine.cancel_instruction / engine.force_instruction exactly like
         EngineMessageHandlers.handle_cancelMsg / handle_forceMsg; an exception of the call is the rejection path.
Oracle :
  "offered" = the cancellable (cancel) / forcible (force) flag of the targeted item in the run log read immediately before
  the request.
  NOT offered  -> differential: a twin run of the same case in which exactly the not-offered requests are not sent must be
                  identical at every observation point (after every request slot and every tick): system state, method
                  status, pause/hold flags, all effects (Mark assignments, UOD command callbacks, output sets, hardware
                  writes, scope/block/runstate events, internal command starts) and the whole run log (names, states,
                  flags, progress, times).  Rejected or silently ignored are both fine; any divergence is a violation.
  offered and accepted (no exception):
     cancel, any item     : the cancelled instance performs nothing afterwards: no init/exec callback of a UOD command and
                            no start of an internal engine command (Pause/Hold) carrying the item's instance id after the call
     cancel, UOD command  : an initialised, not yet finalised command is finalised before cancel_instruction returns
                            (Engine.cancel_instruction docstring: "Cancel command instance and finalize it immidiately");
                            `finalized-late` = finalize in the next tick(s) without an exec callback in between (known finding),
                            `still-executing` = exec callbacks go on after the cancel, `not-finalized-within-bound` /
                            `never-finalized` = no finalize within FINALIZE_TICKS ticks / at all
     cancel, timed Pause/Hold whose command is running : directly after the call the run is no longer Paused / Holding
     cancel, Watch        : no scope activation of that Watch and no effect of any line of its body afterwards
     force, Watch         : the Watch is activated within WATCH_TICKS (5) interpreter ticks although nothing else changed
     force, Wait          : the Wait's run-log item is completed within WAIT_TICKS (3) interpreter ticks
     force, hidden threshold instance (accepted): the line has begun within WAIT_TICKS interpreter ticks
  offered and REJECTED: violation `<op>:<kind>:offered:rejected` when the node's live cancellable/forcible property still allows
     the operation; a stale offer (only the item's recorded flags offer it, the node has moved on) is counted.
  Stale-offer refusals, accepted requests on other kinds (Block, Alarm, Mark ...) and checks made inconclusive by
  the run itself (enclosing block ended, method error, run paused until the end of the case, Watch inside Alarm/Macro whose
  node is re-used by later invocations) are classified and counted, not judged.
Signatures: offered path `<op>:<kind>:offered:<symptom>`; not-offered path `<op>:<kind>:not-offered:<pending|concluded>:
  <accepted|rejected>:<symptom>`; a request that is *processed for an item that already has an end state* is one mechanism
  and is named `<op>:not-offered:concluded-item-<accepted|rejected>:<consequence>` whatever the node kind, consequence =
  runlog-unproducible | cancels-other-instance-of-same-command | applied-to-later-instance | effects-differ | ...
"""
from __future__ import annotations

import copy
import hashlib
import json

from hypothesis import strategies as st

from vp.core.framework import Violation, hyp_run, shard_seed
from vp.harness import pcode_gen as G
from vp.harness import c12_h as H

ID = "C12"
LEVEL = "exploration"
ENGINE = "engine_harness"
TECHNIQUE = ("Hypothesis-generated methods x cancel/force requests on the k-th current run-log item at generated ticks; "
             "differential twin run for not-offered requests, bounded-response effect checks for offered ones")
RULE = ("Hypothesis draws a method (Watch/Alarm/Wait/timed Pause+Hold/UOD commands/blocks/macros, 30 % with thresholds), an "
        "input trajectory, 25..max_ticks ticks and a salt from which the request sets are derived by hashing; every request set is "
        "one case: 1 request (most), 2-4 requests, or a pair of requests for the same item 1-2 ticks apart "
        "(tick, cancel|force, k, pool), k resolved at run time against the current run log. The generator places a request by "
        "choosing uniformly an item that is ever in the pool during a request-free probe run and then uniformly a tick of its "
        "stay in the pool. In addition `sweep_programs` small programs are swept literally: one single-request case for every "
        "(tick, run-log item or hidden instance, operation). Non-trivial = at least one request was sent to an item that had no end state yet (still pending). "
        "Distinct = distinct (method, trajectory, ticks, requests).")
ASSUMPTIONS = [
    "'offered' is read from the run log produced by engine.tracking.get_runlog() immediately before the request (what the engine sends to the aggregator)",
    "'rejected' = engine.cancel_instruction/force_instruction raises (EngineMessageHandlers turns any exception into an ErrorMessage reply)",
    "'finalized' for a cancelled UOD command is required before cancel_instruction returns (its docstring says immediately); "
    "a command that was never initialised needs no finalize but must not start afterwards",
    "'proceeds without waiting' is checked as bounded response: Watch activated within 5, Wait completed within 3, threshold line begun "
    "within 3 ticks in which the interpreter runs (run started, not paused/holding/stopping); a Watch whose condition is true from the "
    "start needs 2 such ticks, 4 when nested in another Watch/Alarm body",
    "instances awaiting a threshold are not rendered in the run log (test_runlog_item_awaiting_threshold_is_not_rendered); the "
    "'forced threshold instruction' clause is exercised with instance ids read from the tracking records (pool 'hidden'), only the "
    "accepted case is judged",
    "a Watch inside an Alarm or Macro body is re-visited by later invocations (the node's cancel/force flags are reset); its requests are classified only",
    "offered + rejected is a violation (<op>:<kind>:offered:rejected) when the targeted node's live cancellable/forcible property still allows the "
    "operation (the engine refuses what both its run log and its node state offer); when only the item's recorded flags offer it and the node has "
    "moved on (stale offer: activated, cancelled or forced since the flags were recorded) the refusal is counted, not judged - the statement fixes what "
    "accepted requests do and that not-offered requests change nothing; class 'stale-offer:refused:body-ran(counted, not judged)' counts the refused "
    "Watch cancels after which the body ran",
    "accepted requests on kinds the statement does not name (Block, Alarm, Mark, Base, running UOD command forced ...) are counted only",
    "inside Alarm/Macro bodies (node re-used per round/call) a forced Wait / threshold line that does not proceed is inconclusive (the instance can be "
    "orphaned when the enclosing Watch is re-registered by the next call/round); consequences of the two registered known mechanisms (stale item in a "
    "repeating scope accepted; forced UOD command cancelled) other than the registered signatures are counted as excluded_known/known-variant classes",
    "methods contain no Stop/Restart and no untimed Pause/Hold; no user control commands are issued",
]
TIERS = {
    "quick": {"examples": 640, "singles": 6, "multis": 2, "pairs": 1, "max_ticks": 60, "max_top": 7, "depth": 3,
              "sweep_programs": 4, "sweep_top": 3, "sweep_ticks": 30, "budget_s": 150},
    "thorough": {"examples": 6400, "singles": 10, "multis": 3, "pairs": 2, "max_ticks": 90, "max_top": 10, "depth": 4,
                 "sweep_programs": 48, "sweep_top": 4, "sweep_ticks": 40, "budget_s": 1500},
}

# A known defect of the tree (force/cancel accepted on an item that already has an end state; afterwards the run log cannot
# be produced any more) would end almost every multi-request case at its first request on a concluded item.  With the switch
# on, multi-request sets draw their targets from the pending/hidden pools only (single-request cases still target every
# item, concluded or not, and report the defect under its own signature); the re-mapped requests are counted.
EXCLUDE_KNOWN_CONCLUDED_IN_MULTI = False   # the defect is repaired in /repo (6c9d8023): nothing is excluded any more
# bounded response for "proceeds without waiting", in ticks in which the interpreter runs.  Measured on the unchanged tree: a
# Watch whose condition is already true is activated 2 ticks after its first visit, 4 ticks when it sits in the body of another
# Watch/Alarm (its interrupt is registered from inside an interrupt); a forced Wait / threshold line continues in the next tick.
WATCH_TICKS = 5
WAIT_TICKS = 3
# A cancelled running UOD command is finalized before cancel_instruction returns.  The registered known finding `finalized-late`
# is: finalized in the first tick after the request and no exec callback in between.  Anything slower is a different signature:
# exec callbacks continue (`still-executing`), finalize later than FINALIZE_TICKS ticks (`not-finalized-within-bound`), none at all
# (`never-finalized`).
FINALIZE_TICKS = 2
# Known finding (registered): inside an Alarm/Macro body the node of a line is re-used by every round/call, and a request is
# checked against the node's *live* flags and booked on the record's latest instance, not on the instance it names.  So a request
# for a stale, not-offered, still pending item of such a line (or of the Alarm itself) is accepted.  The registered signatures are
# the Watch/applied-to-later-instance ones; with the switch on, the other consequences of the same mechanism (the named item itself
# becomes forced/cancelled because the round's reset made the node forcible/cancellable again while its body is still running, an
# Alarm item, a UOD command item) are counted as excluded_known + known-variant:<signature> and not reported.  Lines outside
# Alarm/Macro bodies are not affected by the switch.
EXCLUDE_KNOWN_STALE_ITEM_IN_REPEATING_SCOPE = True
KNOWN_STALE_ITEM_SIGS = ("force:watch:not-offered:pending:accepted:applied-to-later-instance",
                         "cancel:watch:not-offered:pending:accepted:applied-to-later-instance")
# Known finding cancel:uod:offered:finalized-late: its further consequence (see the oracle) is counted, not reported.
EXCLUDE_KNOWN_FORCED_UOD_CANCEL_CONSEQUENCES = True
# Offered + rejected.  The run log is read immediately before the request and nothing happens in between, so a refusal can not
# be explained by an offer that changed in the meantime.  Two cases, told apart by the *live* property of the targeted node:
#  * the run log offers the operation AND the node itself is still cancellable/forcible, but the engine refuses: the engine
#    contradicts its own live state -> violation `<op>:<kind>:offered:rejected`;
#  * stale offer: the flags of a run-log item are a snapshot taken when its last state was recorded (the first-visit item of a
#    Watch/Alarm keeps cancellable=forcible=True for ever, the interrupt item for one tick after activation); the node has moved on
#    (activated / cancelled / forced) and itself refuses.  The statement's sentences fix what an ACCEPTED request does and that
#    NOT-offered requests change nothing; a refused cancel was answered with an error, the instruction is not cancelled and its body
#    running is consistent with them - the stale flag is a run-log accuracy matter.  Counted, not judged (orchestrator decision);
#    True would report the one consequence the statement names (cancel offered for a Watch, refused, body runs afterwards).
JUDGE_STALE_OFFER_CONSEQUENCES = False
SIG_STALE_BODY_RAN = "cancel:watch:offered:rejected:stale-offer:body-ran"
SIG_CONCLUDED_ANY = "%s:not-offered:concluded-item-%s:%s"
SIG_CONCLUDED = "%s:not-offered:concluded-item-accepted:runlog-unproducible"

KINDS = {"mark": 4, "quick": 1, "slow": 3, "ova": 1, "ovb": 1, "set": 1, "wait": 4, "pause": 2, "hold": 2, "watch": 4,
         "alarm": 1, "block": 2, "macro": 1, "callmacro": 1, "info": 1, "notify": 1, "blank": 1}


def _cfg(thresholds: bool, max_top: int, depth: int) -> G.GenCfg:
    return G.GenCfg(kinds=dict(KINDS), max_depth=depth, max_top=max_top, max_children=3, thresholds=thresholds,
                    threshold_max=1.5, wait_max=1.5, base_first="s")


# ---------------------------------------------------------------------------------------------------------
# generator
# ---------------------------------------------------------------------------------------------------------

def _retune(draw, nodes):
    """own post-processing of the shared generator's tree (the shared module is not edited): longer waits/pauses/commands
    and mostly false-at-start conditions, so that a request can arrive while the instruction is still waiting"""
    for n in nodes:
        k = n["k"]
        if k == "wait" and draw(st.integers(0, 1)) == 1:
            n["d"] = draw(st.sampled_from([0.5, 1.0, 1.5, 2.0]))
        elif k in ("pause", "hold"):
            n["d"] = draw(st.sampled_from([0.2, 0.3, 0.5, 1.0, 1.5]))
        elif k in ("slow", "ova", "ovb"):
            n["n"] = draw(st.integers(1, 6))
        elif k in ("watch", "alarm") and draw(st.integers(0, 2)) > 0:
            n["cond"]["op"] = draw(st.sampled_from([">", ">="]))
            if n["cond"]["val"] == 0:
                n["cond"]["val"] = 5
        if "c" in n:
            _retune(draw, n["c"])


@st.composite
def _repeat_body(draw):
    """1-3 lines that stay pending for a while and then end: what a request can hit in a later invocation"""
    out = []
    for _ in range(draw(st.integers(1, 3))):
        k = draw(st.sampled_from(["wait", "wait", "slow", "watch", "watch", "mark", "hold", "pause", "ova"]))
        if k == "wait":
            out.append({"k": "wait", "t": None, "d": draw(st.sampled_from([0.3, 0.5, 1.0]))})
        elif k in ("slow", "ova"):
            out.append({"k": k, "t": None, "n": draw(st.integers(2, 5))})
        elif k in ("hold", "pause"):
            out.append({"k": k, "t": None, "d": draw(st.sampled_from([0.3, 0.5]))})
        elif k == "watch":
            cond = draw(st.sampled_from([{"tag": "In2", "op": "<", "val": 8, "unit": None},      # true at start
                                         {"tag": "In2", "op": ">", "val": 5, "unit": None},      # false at start
                                         {"tag": "In1", "op": ">=", "val": 3, "unit": "L/h"}]))
            body = [{"k": "mark", "t": None}]
            if draw(st.integers(0, 1)):
                body.insert(0, {"k": "wait", "t": None, "d": 0.3})
            out.append({"k": "watch", "t": None, "cond": dict(cond), "c": body})
        else:
            out.append({"k": "mark", "t": None})
    return out


@st.composite
def _with_repeats(draw, tree):
    """own additions to the shared generator's tree, placed at a drawn position: a line that is executed several times in one
    run (a macro called 2-3 times, or an Alarm whose condition holds from the start so that its body runs round after round),
    or a timed Pause and a timed Hold that take effect together"""
    body = tree["body"]
    names = [n["name"] for n in body if n["k"] == "macro"]
    what = draw(st.sampled_from(["macro", "macro", "alarm", "alarm", "pause+hold", "pause+hold"]))
    if what == "pause+hold":
        # a timed Pause and a timed Hold in effect at the same time: while paused or on hold the interpreter is not ticked, so
        # both must reach the engine in the same tick - one from a Watch body, one from the main program.  Measured: with comment
        # lines in the body and marks in the main program the pairs (1, 1) and (3, 2) of filler counts align; other pairs are
        # drawn too (they give a Pause and a Hold one after the other).
        a, b = draw(st.sampled_from([(1, 1), (1, 1), (3, 2), (3, 2), (0, 0), (1, 2), (2, 1), (2, 2), (0, 1), (3, 3)]))
        first = draw(st.sampled_from(["pause", "hold"]))
        other = "hold" if first == "pause" else "pause"
        d1, d2 = draw(st.sampled_from([0.5, 1.0, 1.5])), draw(st.sampled_from([0.5, 1.0, 1.5]))
        watch = {"k": "watch", "t": None, "cond": {"tag": "In2", "op": "<", "val": 8, "unit": None},
                 "c": [{"k": "comment", "t": None} for _ in range(a)] + [{"k": first, "t": None, "d": d1}]}
        seq = [watch] + [{"k": "mark", "t": None} for _ in range(b)] + [{"k": other, "t": None, "d": d2}, {"k": "mark", "t": None}]
        pos = draw(st.integers(0, min(2, len(body))))
        tree["body"] = body[:pos] + seq + body[pos:]
    elif what == "macro" and len(names) < 8:
        name = "M%d" % (len(names) + 1)     # the shared generator names its macros M1, M2 in order
        seq = [{"k": "macro", "t": None, "name": name, "c": draw(_repeat_body())}]
        for _ in range(draw(st.integers(2, 3))):
            seq.append({"k": "callmacro", "t": None, "name": name})
            if draw(st.integers(0, 2)) == 0:
                seq.append({"k": "mark", "t": None})
        # the definition must come after every existing macro definition that precedes a call of it: append at the end of the
        # macro definitions (macros are top-level lines), i.e. never between an existing macro and its calls' names
        pos = draw(st.integers(0, len(body)))
        last_macro = max([i for i, n in enumerate(body) if n["k"] == "macro"], default=-1)
        pos = max(pos, last_macro + 1)
        tree["body"] = body[:pos] + seq + body[pos:]
    else:
        cond = draw(st.sampled_from([{"tag": "In2", "op": "<", "val": 8, "unit": None}, {"tag": "In2", "op": ">=", "val": 0, "unit": None},
                                     {"tag": "Temp", "op": "<", "val": 8, "unit": "degC"}]))
        alarm = {"k": "alarm", "t": None, "cond": dict(cond), "c": draw(_repeat_body())}
        pos = draw(st.integers(0, len(body)))
        tree["body"] = body[:pos] + [alarm] + body[pos:]
    return tree


@st.composite
def programs(draw, cfg):
    thresholds = draw(st.integers(0, 9)) < 3
    tree = draw(G.program(_cfg(thresholds, cfg["max_top"], cfg["depth"])))
    _retune(draw, tree["body"])
    if draw(st.integers(0, 9)) < 6:
        tree = draw(_with_repeats(tree))
    n = draw(st.integers(25, cfg["max_ticks"]))
    traj = draw(G.trajectory(n, max_changes=5))
    salt = draw(st.integers(0, 2 ** 32 - 1))
    return {"tree": tree, "traj": traj, "n": n, "salt": salt}


def _request_sets(prog, cfg, thresholds: bool):
    """abstract requests [u, v, op, pool] (resolved by _resolve), derived by hashing the drawn program, trajectory and salt.
    Not drawn one by one: Hypothesis completes many examples with an all-zero tail, which made the request sets of a program
    identical ([0, 0, cancel, pending] eight times); the derivation is a pure function of Hypothesis-drawn data."""
    h0 = hashlib.sha1(json.dumps([prog["tree"], prog["traj"], prog["n"], prog["salt"]], sort_keys=True).encode()).hexdigest()
    pools = ["pending"] * 5 + ["all"] * 4 + ["later"] * 4 + (["hidden"] * 4 if thresholds else [])

    def rnd(i, j, field, mod):
        return int.from_bytes(hashlib.sha1(("%s|%d|%d|%s" % (h0, i, j, field)).encode()).digest()[:4], "big") % mod

    def req(i, j):
        return [rnd(i, j, "u", 10000), rnd(i, j, "v", 10000), H.OPS[rnd(i, j, "op", 2)], pools[rnd(i, j, "pool", len(pools))]]
    sets = [[req(i, 0)] for i in range(cfg["singles"])]
    for i in range(cfg["multis"]):
        sets.append([req(1000 + i, j) for j in range(2 + rnd(1000 + i, 0, "len", 3))])
    for i in range(cfg.get("pairs", 0)):
        # two requests for the SAME item, 1-2 ticks apart (force then cancel, cancel then force, twice the same): the second
        # one meets the node state the first one left behind
        first = req(2000 + i, 0)
        first[3] = "pending"
        sets.append([first, [1 + rnd(2000 + i, 1, "gap", 2), 0, H.OPS[rnd(2000 + i, 1, "op", 2)] if rnd(2000 + i, 1, "same", 4) == 0
                             else H.OPS[1 - H.OPS.index(first[2])], "follow"]])
    return sets


def _resolve(abstract, probe, n, multi: bool):
    """[u, v, op, pool] -> concrete [tick, op, k, pool].  Every item (instance id) that is ever a candidate of the pool in
    the request-free probe run is equally likely (u), then every tick at which it is a candidate (v); k is its index in the
    pool at that tick.  So short-lived states (an instruction in its first tick, a command in its last iteration) are hit as
    often as long waits.  A pool without any candidate in the whole run falls back to "pending", then "all"."""
    out, remapped = [], []
    prev = None      # (instance id, tick) the previous request of the set was resolved to
    for u, v, op, pool in abstract:
        if pool == "follow":
            # same item as the previous request, u ticks later, addressed by its index in the whole run log at that tick
            where = None
            if prev is not None:
                for tk in probe.ticks:
                    if tk["t"] >= prev[1] + u and prev[0] in tk["slot"]["all"]:
                        where = [tk["t"], op, tk["slot"]["all"].index(prev[0]), "all"]
                        break
            out.append(where if where is not None else [min(n - 1, (prev[1] if prev else 2) + u), op, 0, "pending"])
            continue
        if multi and EXCLUDE_KNOWN_CONCLUDED_IN_MULTI and pool == "all":
            pool = "pending"
            remapped.append(op)
        life: dict = {}
        for cand in ([pool] if pool == "all" else [pool] + [q for q in ("pending", "all") if q != pool]):
            pool = cand
            for tk in probe.ticks:
                for j, iid in enumerate(tk["slot"][pool]):
                    life.setdefault(iid, []).append((tk["t"], j))
            if life:
                break
        if not life:
            out.append([2 + u % max(1, n - 2), op, v % 12, pool])
            continue
        ids = sorted(life)
        t, j = life[ids[u % len(ids)]][v % len(life[ids[u % len(ids)]])]
        out.append([t, op, j, pool])
        prev = (ids[u % len(ids)], t)
    out.sort(key=lambda r: r[0])
    return out, remapped


# ---------------------------------------------------------------------------------------------------------
# oracle
# ---------------------------------------------------------------------------------------------------------

def _num(x, lo, hi) -> bool:
    return isinstance(x, (int, float)) and not isinstance(x, bool) and lo <= x <= hi


def _valid_tree(tree) -> bool:
    """the tree is one the generator can produce (the shrinker proposes arbitrary sub-structures)"""
    import re
    if not isinstance(tree, dict) or tree.get("base") != "s" or not isinstance(tree.get("body"), list) or not tree["body"]:
        return False
    macros: list = []

    def walk(nodes, depth) -> bool:
        if depth > 6 or not isinstance(nodes, list):
            return False
        for n in nodes:
            if not isinstance(n, dict):
                return False
            k = n.get("k")
            if k not in KINDS and k != "comment":
                return False
            if not (n.get("t") is None or _num(n.get("t"), 0, 1.5)):
                return False
            if k in ("slow", "ova", "ovb"):
                if not (isinstance(n.get("n"), int) and not isinstance(n.get("n"), bool) and 1 <= n["n"] <= 6):
                    return False
            elif k == "set":
                if n.get("reg") not in (1, 2, 3) or not (isinstance(n.get("v"), int) and 2 <= n["v"] <= 9):
                    return False
            elif k == "wait":
                if not _num(n.get("d"), 0, 2.0):
                    return False
            elif k in ("pause", "hold"):
                if not _num(n.get("d"), 0.1, 1.5):
                    return False
            elif k in ("watch", "alarm"):
                c = n.get("cond")
                if not (isinstance(c, dict) and c.get("tag") in ("In1", "In2", "Temp") and c.get("op") in G.OPS
                        and isinstance(c.get("val"), int) and not isinstance(c.get("val"), bool) and 0 <= c["val"] <= 8
                        and c.get("unit") in G.UNITS_FOR[c["tag"]]):
                    return False
                if not n.get("c") or not walk(n["c"], depth + 1):
                    return False
            elif k == "block":
                if n.get("end") not in ("endblock", "endblocks") or n.get("end_t") not in (None, 0.3, 0.6):
                    return False
                if not walk(n.get("c", []), depth + 1):
                    return False
            elif k == "macro":
                if not (isinstance(n.get("name"), str) and re.fullmatch(r"M[1-9]", n["name"])) or n["name"] in macros:
                    return False
                if not n.get("c") or not walk(n["c"], depth + 1):
                    return False
                macros.append(n["name"])
            elif k == "callmacro":
                if n.get("name") not in macros:
                    return False
        return True
    return walk(tree["body"], 0)


def _valid(case) -> bool:
    if not isinstance(case, dict) or not all(k in case for k in ("tree", "traj", "n", "reqs")):
        return False
    try:
        if not _valid_tree(case["tree"]):
            return False
        lines = G.render(case["tree"])
        if not lines or any(l.kind in ("stop", "restart") for l in lines):
            return False
        if not isinstance(case["n"], int) or isinstance(case["n"], bool) or not (1 <= case["n"] <= 300):
            return False
        if not isinstance(case["reqs"], list) or not (1 <= len(case["reqs"]) <= 8):
            return False
        for r in case["reqs"]:
            if not (isinstance(r, list) and len(r) == 4 and isinstance(r[0], int) and not isinstance(r[0], bool) and 0 <= r[0]
                    and r[1] in H.OPS and isinstance(r[2], int) and not isinstance(r[2], bool) and r[2] >= 0 and r[3] in H.POOLS):
                return False
        if [r[0] for r in case["reqs"]] != sorted(r[0] for r in case["reqs"]):
            return False
        for p in case["traj"]:
            if not (isinstance(p, list) and len(p) == 2 and isinstance(p[0], int) and isinstance(p[1], dict)
                    and all(k in ("In1", "In2", "Temp") and isinstance(v, (int, float)) for k, v in p[1].items())):
                return False
        return True
    except Exception:   # a shrunken tree that does not render is outside the domain
        return False


class _Prog:
    def __init__(self, lines):
        self.lines = lines
        self.by_id = {l.id: l for l in lines}

    def ancestors(self, line):
        out = []
        p = line.parent
        while p is not None:
            out.append(self.by_id[p])
            p = self.by_id[p].parent
        return out

    def descendants(self, line):
        return [l for l in self.lines if any(a.id == line.id for a in self.ancestors(l))]

    def repeating(self, line) -> bool:
        return line.kind == "alarm" or any(a.kind in ("alarm", "macro") for a in self.ancestors(line))


def _watch_ran(prog, line, events):
    """events showing that the Watch of `line` was activated or that a line of its body took effect"""
    body = prog.descendants(line)
    marks = {l.payload for l in body if l.kind == "mark"}
    cmds = {l.payload for l in body if l.kind in ("quick", "slow", "ova", "ovb", "set", "flow")}
    notes = {l.payload for l in body if l.kind == "notify"}
    return [e for e in events if
            (e[1] == "mark" and e[2] in marks) or (e[1] == "cmd" and e[4] == "exec" and str(e[5]) in cmds) or
            (e[1] == "notify" and e[2] in notes) or (e[1] == "scope_activate" and e[2] == "Watch" and e[3] == line.id)]


def _window(run, rec, n_interp):
    """ticks after the request up to and including the n-th tick in which the interpreter ran -> (ticks, complete?)"""
    out, cnt = [], 0
    for tk in run.ticks:
        if tk["t"] < rec["tick"]:
            continue
        out.append(tk)
        if tk["interp"]:
            cnt += 1
            if cnt >= n_interp:
                return out, True
    return out, False


def _disrupted(prog, run, rec, line, ticks) -> str | None:
    """reasons that make a bounded-response check inconclusive (the run itself took the instruction away)"""
    if rec.get("status_before") == "Error":
        return "method-error"
    blocks = {a.payload for a in prog.ancestors(line) if a.kind == "block"}
    end = ticks[-1]["ev_end"] if ticks else rec["ev_end"]
    for e in run.events[:end]:
        if e[1] == "block_end" and (e[2] in blocks):
            return "enclosing-block-ended"
        if e[1] in ("method_error", "stop"):
            return "method-error"
    if any(isinstance(tk["rl"], str) for tk in ticks):
        return "runlog-unproducible"
    if any(tk["status"] == "Error" for tk in ticks):
        return "method-error"
    return None


def oracle(case, A, B):
    out: list[Violation] = []
    classes: list[str] = []
    lines = A.lines
    prog = _Prog(lines)
    method = G.text_of(lines)

    def viol(sig, msg):
        if not any(v.sig == sig for v in out):
            out.append(Violation(sig, msg + " | method=%r reqs=%r" % (method, case["reqs"]), case))

    def describe(rec):
        return "%s request before tick %d on run-log item %r (%s, flags cancellable=%s forcible=%s) -> %s" % (
            rec["op"], rec["tick"], rec["name"], rec["item"]["state"], rec["item"]["C"], rec["item"]["F"],
            "accepted" if rec.get("accepted") else "rejected with %s" % rec.get("exc"))

    nontrivial = False
    for rec in A.reqs:
        if not rec["applied"]:
            classes.append("request-not-sent:%s" % rec["skip"])
            continue
        grp = H.group(rec["kind"])
        acc = "accepted" if rec["accepted"] else "rejected"
        off = {True: "offered", False: "not-offered", None: "hidden"}[rec["offered"]]
        classes += ["op:%s" % rec["op"], "pool:%s" % rec["pool"], "kind:%s" % grp, "target:%s" % rec["status"],
                    "%s:%s:%s" % (rec["op"], off, acc)]
        if rec["status"] == "pending":
            nontrivial = True
            classes.append("pending:%s:%s:%s" % (rec["op"], grp, off))
        if rec["later_invocation"]:
            classes.append("later-invocation:%s:%s:%s:%s" % (rec["op"], grp, off, acc))
        if rec["offered"] and not rec["accepted"]:
            # The run log (read immediately before the request, nothing happens in between) offers the operation and the
            # engine refuses it: the request does not take effect as offered.
            line = prog.by_id.get(rec["line"])
            if rec["live"] is False:
                # stale offer: the flags of a run-log item are a snapshot taken when its last state was recorded; the node
                # has moved on since (activated / cancelled / forced) and itself refuses.  Judged only where the refusal has
                # a consequence the statement names: the Watch whose cancel was offered runs its body afterwards.
                ran = []
                if rec["op"] == "cancel" and grp == "watch" and line is not None and not prog.repeating(line):
                    ran = _watch_ran(prog, line, A.events[rec["ev_start"]:])
                if ran and not JUDGE_STALE_OFFER_CONSEQUENCES:
                    classes.append("stale-offer:refused:body-ran(counted, not judged)")
                elif ran:
                    viol(SIG_STALE_BODY_RAN,
                         "%s (%s) although the run log offered it - the item's flags are stale, the node itself is no longer cancellable - "
                         "and the Watch ran afterwards: first at tick %d %r" % (describe(rec), rec.get("exc_msg"), ran[0][0], ran[0][1:]))
                else:
                    classes.append("unjudged:offered-but-rejected:stale-offer-without-consequence:%s:%s" % (rec["op"], grp))
            else:
                viol("%s:%s:offered:rejected" % (rec["op"], grp),
                     "%s (%s) although the run log offered it and the node itself is still %s%s"
                     % (describe(rec), rec.get("exc_msg"), "cancellable" if rec["op"] == "cancel" else "forcible",
                        "; the line had been executed before in this run (later invocation of the same line)" if rec["later_invocation"] else ""))
        if not rec["accepted"] or rec["offered"] is False:
            continue
        line = prog.by_id.get(rec["line"])
        if line is None:
            classes.append("accepted:no-method-line")
            continue
        iid = rec["iid"]
        before = A.events[:rec["ev_start"]]
        during = A.events[rec["ev_start"]:rec["ev_end"]]
        after = A.events[rec["ev_end"]:]

        if rec["pool"] == "hidden":
            if rec["op"] != "force":
                classes.append("hidden-cancel-accepted")
                continue
            ticks, complete = _window(A, rec, WAIT_TICKS)
            why = _disrupted(prog, A, rec, line, ticks)
            begun = any(tk["begun"] is not None and line.id in tk["begun"] for tk in ticks)
            if begun:
                classes.append("checked:force-threshold:begun")
            elif prog.repeating(line):
                classes.append("inconclusive:force-threshold:repeating-scope")
            elif why or not complete:
                classes.append("inconclusive:force-threshold:%s" % (why or "run-ends"))
            else:
                viol("force:threshold:hidden:still-waiting",
                     "%s, but line %r had not begun after %d interpreter ticks" % (describe(rec), line.text, WAIT_TICKS))
            continue

        if rec["op"] == "cancel":
            own = [e for e in after if e[1] == "cmd" and e[3] == iid]          # callbacks of the cancelled instance after the call
            inited = grp == "uod" and any(e[1] == "cmd" and e[3] == iid and e[4] == "init" for e in before)
            finalized = grp == "uod" and any(e[1] == "cmd" and e[3] == iid and e[4] == "finalize" for e in before)
            if grp == "uod" and inited and not finalized:
                # ---- a running UOD command was cancelled ------------------------------------------------------------------
                first_tick = next((tk["no"] for tk in A.ticks if tk["t"] == rec["tick"]), None)   # first tick after the request
                left = len([tk for tk in A.ticks if tk["t"] >= rec["tick"]])
                if any(e[4] == "finalize" for e in during if e[1] == "cmd" and e[3] == iid):
                    classes.append("checked:cancel:uod:finalized-at-once")
                    fin_pos = -1
                else:
                    fin_pos = next((j for j, e in enumerate(own) if e[4] == "finalize"), None)
                    execs = [e for e in (own if fin_pos is None else own[:fin_pos]) if e[4] == "exec"]
                    if execs:
                        viol("cancel:uod:offered:still-executing",
                             "%s, but the command went on executing: %d exec callbacks after the cancel before any finalize (first in tick %d, "
                             "iteration %s), finalize callback: %s" % (describe(rec), len(execs), execs[0][0], execs[0][6],
                                                                        "tick %d" % own[fin_pos][0] if fin_pos is not None else "never"))
                    elif fin_pos is not None and first_tick is not None and own[fin_pos][0] < first_tick + FINALIZE_TICKS:
                        viol("cancel:uod:offered:finalized-late",
                             "%s, but the running command was not finalized before cancel_instruction returned (documented: immediately); "
                             "its finalize callback came in tick %d, without any exec callback in between" % (describe(rec), own[fin_pos][0]))
                    elif fin_pos is not None:
                        viol("cancel:uod:offered:not-finalized-within-bound",
                             "%s, but the running command was finalized only in tick %d, more than %d ticks after the cancel"
                             % (describe(rec), own[fin_pos][0], FINALIZE_TICKS))
                    elif left >= FINALIZE_TICKS + 1:
                        viol("cancel:uod:offered:never-finalized",
                             "%s, but the running command was never finalized (run continued for %d ticks)" % (describe(rec), left))
                    else:
                        classes.append("inconclusive:cancel:uod:run-ends")
                # a fresh start of the cancelled request after its finalize
                restart = [e for e in (own[fin_pos + 1:] if fin_pos is not None and fin_pos >= 0 else (own if fin_pos == -1 else [])) if e[4] in ("init", "exec")]
                if restart and EXCLUDE_KNOWN_FORCED_UOD_CANCEL_CONSEQUENCES and rec["live"] is False and fin_pos is not None and fin_pos >= 0:
                    # consequence of the known finding cancel:uod:offered:finalized-late (the node of the command line is no longer
                    # cancellable - forced, or cancelled through another invocation -, tracking.mark_cancelled raises, the exception
                    # is swallowed and the request stays in the executing list): when a command of the same name follows, the
                    # cancelled instance is finalized by it and the cancelled request then starts a fresh instance
                    classes += ["excluded_known:cancel:uod:offered:finalized-late", "known-consequence:forced-uod-cancel:command-restarts"]
                elif restart:
                    viol("cancel:uod:offered:runs-after-cancel",
                         "%s, but after its finalize the cancelled request started again: tick %d %s (iteration %s)"
                         % (describe(rec), restart[0][0], restart[0][4], restart[0][6]))
                elif not any(v.sig.startswith("cancel:uod:offered:") for v in out):
                    classes.append("checked:cancel:uod:no-later-effect")
            else:
                late = [e for e in own if e[4] in ("init", "exec")] + [e for e in after if e[1] == "icmd" and e[3] == iid]
                if late:
                    e0 = late[0]
                    what = "UOD command %s %s (iteration %s)" % (e0[2], e0[4], e0[6]) if e0[1] == "cmd" else "internal command %s started" % e0[2]
                    viol("cancel:%s:offered:runs-after-cancel" % grp,
                         "%s, but the cancelled instance ran afterwards: tick %d %s; %d callbacks/starts after the cancel in total "
                         "(command request not yet started when the cancel arrived: %s)" % (describe(rec), e0[0], what, len(late), not rec["cmd_started"]))
                else:
                    classes.append("checked:cancel:%s:no-later-effect" % grp)
                if grp == "uod":
                    classes.append("cancel:uod:not-yet-initialised" if not inited else "cancel:uod:already-finalized")
            if grp == "uod":
                pass    # judged above
            elif grp in ("pause", "hold"):
                running = any(e[1] == "icmd" and e[3] == iid for e in before)
                # an error pauses the run (paused flag / System State Paused); that does not touch the hold flag, so a cancelled
                # Hold is judged under an error pause too, a cancelled Pause is not
                if running and (rec["status_before"] != "Error" or grp == "hold"):
                    bad = (rec["paused_after"] or rec["state_after"] == "Paused") if grp == "pause" else \
                        (rec["holding_after"] or rec["state_after"] == "Holding")
                    if bad:
                        viol("cancel:%s:offered:still-%s" % (grp, "paused" if grp == "pause" else "holding"),
                             "%s, but directly afterwards System State=%s paused=%s holding=%s"
                             % (describe(rec), rec["state_after"], rec["paused_after"], rec["holding_after"]))
                    else:
                        classes.append("checked:cancel:%s:ended-at-once" % grp)
                        if rec.get("paused_before") and rec.get("holding_before"):
                            classes.append("checked:cancel:%s:while-paused-and-holding" % grp)
                else:
                    classes.append("cancel:%s:%s" % (grp, "command-not-started-yet" if not running else "method-error"))
            elif grp == "watch":
                if prog.repeating(line):
                    classes.append("unjudged:cancel:watch-in-alarm-or-macro")
                else:
                    ran = _watch_ran(prog, line, A.events[rec["ev_start"]:])
                    if ran:
                        viol("cancel:watch:offered:body-ran",
                             "%s, but the Watch ran afterwards: first at tick %d %r" % (describe(rec), ran[0][0], ran[0][1:]))
                    else:
                        classes.append("checked:cancel:watch:body-never-ran")
            else:
                classes.append("unjudged:cancel-accepted:%s" % grp)
        else:  # force
            if grp == "watch":
                if prog.repeating(line):
                    classes.append("unjudged:force:watch-in-alarm-or-macro")
                    continue
                ticks, complete = _window(A, rec, WATCH_TICKS)
                why = _disrupted(prog, A, rec, line, ticks)
                end = ticks[-1]["ev_end"] if ticks else rec["ev_end"]
                act = any(e[1] == "scope_activate" and e[2] == "Watch" and e[3] == line.id for e in A.events[rec["ev_start"]:end])
                if act:
                    classes.append("checked:force:watch:activated")
                elif why or not complete:
                    classes.append("inconclusive:force:watch:%s" % (why or "run-ends"))
                else:
                    viol("force:watch:offered:not-activated",
                         "%s, but %r was not activated within %d interpreter ticks" % (describe(rec), line.text, WATCH_TICKS))
            elif grp == "wait":
                if float(line.node.get("d", 0)) < 0.15:
                    classes.append("unjudged:force:wait-shorter-than-a-tick")
                    continue
                ticks, complete = _window(A, rec, WAIT_TICKS)
                why = _disrupted(prog, A, rec, line, ticks)
                done = any(isinstance(tk["rl"], list) and any(d["id"] == iid and d["state"] == "completed" for d in tk["rl"]) for tk in ticks)
                if done:
                    classes.append("checked:force:wait:completed")
                    if rec["item"]["progress"] is not None and rec["item"]["progress"] < 0.6:
                        classes.append("checked:force:wait:completed-early")
                elif prog.repeating(line):
                    # the instance may have been orphaned: a second call of the macro / a new Alarm round re-registers the
                    # enclosing Watch and drops the handler that was executing this Wait; its item stays 'started' for ever
                    classes.append("inconclusive:force:wait:repeating-scope")
                elif why or not complete:
                    classes.append("inconclusive:force:wait:%s" % (why or "run-ends"))
                else:
                    viol("force:wait:offered:still-waiting",
                         "%s, but the Wait was not completed within %d interpreter ticks" % (describe(rec), WAIT_TICKS))
            else:
                classes.append("unjudged:force-accepted:%s" % grp)

    # ---- differential for the not-offered requests ---------------------------------------------------------
    if B is not None:
        assert len(A.points) == len(B.points), "twin runs have different shapes"
        current = None
        starts = {rec["point"]: rec for rec in A.reqs if rec["applied"] and rec["offered"] is False}
        for i, (pa, pb) in enumerate(zip(A.points, B.points)):
            if i in starts:
                current = starts[i]
            diff = H.compare_points(pa, pb)
            if diff is None:
                continue
            if current is None:
                raise AssertionError("C12 harness: twin runs differ at %s (%s) before any not-offered request was sent" % (pa["label"], diff))
            rec = current
            grp = H.group(rec["kind"])
            acc = "accepted" if rec["accepted"] else "rejected"
            detail = ""
            changed_name = None
            if diff == "runlog-differs":
                na, nb = [H._norm_item(d) for d in pa["rl"]], [H._norm_item(d) for d in pb["rl"]]
                idx = [j for j in range(max(len(na), len(nb))) if j >= len(na) or j >= len(nb) or na[j] != nb[j]]
                diff = "target-item-changed" if (len(na) == len(nb) and idx == [rec["index"]]) else "other-item-changed"
                j = idx[0]
                changed_name = (na[j] if j < len(na) else nb[j])[0]
                detail = "run-log entry %d: with request %r, without %r" % (j, na[j] if j < len(na) else None, nb[j] if j < len(nb) else None)
            elif diff == "effects-differ":
                detail = "effects with request %r, without %r" % (pa["events"][:6], pb["events"][:6])
            elif diff == "state-differs":
                detail = "state with request %r, without %r" % ((pa["state"], pa["status"], pa["paused"], pa["holding"]),
                                                                 (pb["state"], pb["status"], pb["paused"], pb["holding"]))
            else:
                detail = "run log with request: %s, without: %s" % (pa["rl"] if isinstance(pa["rl"], str) else "producible",
                                                                      pb["rl"] if isinstance(pb["rl"], str) else "producible")
            if diff == "other-item-changed" and changed_name == rec["name"] and rec["accepted"]:
                diff = "applied-to-later-instance"    # the request landed on a later instance of the same line (stale item)
            sig = "%s:%s:not-offered:%s:%s:%s" % (rec["op"], grp, rec["status"], acc, diff)
            if rec["status"] == "concluded":
                # one root cause (a request for an instance that has already ended is not refused), named by its consequence;
                # the node kind is in the message, not in the signature
                sym = diff
                cmd_name = rec["name"].split(":")[0]
                if rec["op"] == "cancel" and rec["accepted"] and grp in ("uod", "pause", "hold") and i == rec["point"]:
                    # the command of the ended item is looked up by *name*: a later instance of the same command (running or
                    # requested) is cancelled instead
                    other_finalized = any(e[1] == "cmd" and e[2] == cmd_name and e[4] == "finalize" and e[3] != rec["iid"] for e in pa["raw_events"])
                    other_cancelled = diff in ("other-item-changed", "applied-to-later-instance") and any(
                        d["state"] == "cancelled" and d["id"] != rec["iid"] and d["name"].split(":")[0] == cmd_name and
                        not any(x["id"] == d["id"] and x["state"] == "cancelled" for x in pb["rl"]) for d in pa["rl"])
                    resumed = any(e[1] == "runstate" and str(e[2]).lower().endswith("unpause" if grp == "pause" else "unhold") for e in pa["raw_events"])
                    if other_finalized or other_cancelled or (grp in ("pause", "hold") and resumed):
                        sym = "cancels-other-instance-of-same-command"
                sig = SIG_CONCLUDED_ANY % (rec["op"], acc, sym)
            line = prog.by_id.get(rec["line"])
            if (EXCLUDE_KNOWN_STALE_ITEM_IN_REPEATING_SCOPE and rec["accepted"] and rec["status"] == "pending" and line is not None
                    and prog.repeating(line) and sig not in KNOWN_STALE_ITEM_SIGS):
                classes += ["excluded_known:%s" % (KNOWN_STALE_ITEM_SIGS[0] if rec["op"] == "force" else KNOWN_STALE_ITEM_SIGS[1]),
                            "known-variant:stale-item-in-repeating-scope:%s" % sig]
                break
            viol(sig, "%s although the run log did not offer it; the run then differs from the twin run without the request at %s: %s"
                 % (describe(rec), pa["label"], detail))
            break
        else:
            if starts:
                classes.append("checked:not-offered:identical-to-twin")
    return out, classes, nontrivial


def evaluate(case):
    lines = G.render(case["tree"])
    A = H.execute(case, lines)
    mask = [not (r["applied"] and r["offered"] is False) for r in A.reqs]
    B = H.execute(case, lines, mask) if not all(mask) else None
    return oracle(case, A, B)


def check_case(case):
    if not _valid(case):
        return []
    return evaluate(case)[0]


def shrink_hints(case):
    """single requests, fewer ticks after the last request"""
    if not _valid(case):
        return
    for i in range(len(case["reqs"])):
        if len(case["reqs"]) > 1:
            c = copy.deepcopy(case)
            c["reqs"] = [case["reqs"][i]]
            yield c
    last = max(r[0] for r in case["reqs"])
    for n in (last + 2, last + 5, last + 12):
        if n < case["n"]:
            c = copy.deepcopy(case)
            c["n"] = n
            yield c
    if case["traj"]:
        c = copy.deepcopy(case)
        c["traj"] = []
        yield c


def _case_classes(lines, tree):
    out = []
    if any(l.node is not None and l.node.get("t") is not None for l in lines):
        out.append("method-with-thresholds")
    if G.count_kinds(tree).get("_depth", 0) >= 2:
        out.append("method-nested")
    return out


def run_shard(col, cfg):
    def body(prog):
        lines = G.render(prog["tree"])
        common = _case_classes(lines, prog["tree"])
        probe = H.execute({"tree": prog["tree"], "traj": prog["traj"], "n": prog["n"], "reqs": []}, lines, probe=True)
        for abstract in _request_sets(prog, cfg, "method-with-thresholds" in common):
            if col.expired():
                return
            reqs, remapped = _resolve(abstract, probe, prog["n"], multi=len(abstract) > 1)
            case = {"tree": prog["tree"], "traj": prog["traj"], "n": prog["n"], "reqs": reqs}
            vs, classes, nontrivial = evaluate(case)
            classes = list(classes) + ["excluded_known:%s" % (SIG_CONCLUDED % op) for op in remapped] + common
            classes.append("requests:%s" % ("1" if len(reqs) == 1 else "same-item-pair" if abstract[-1][3] == "follow" else "2-4"))
            col.record(case, nontrivial, classes=classes, violations=vs,
                       sample={"method": G.text_of(lines), "traj": case["traj"], "ticks": case["n"], "reqs": reqs})

    seen = [0]

    def sweep(prog):
        """the quantifier literally, on a small program: every item of the run log (and every hidden threshold instance)
        at every tick, with both operations - one single-request case each"""
        seen[0] += 1
        if seen[0] == 1:
            return   # Hypothesis always starts with the simplest example (the same one-line program for every seed and shard)
        lines = G.render(prog["tree"])
        common = _case_classes(lines, prog["tree"]) + ["sweep:case"]
        probe = H.execute({"tree": prog["tree"], "traj": prog["traj"], "n": prog["n"], "reqs": []}, lines, probe=True)
        col.count("sweep:programs")
        complete = True
        for tk in probe.ticks:
            for pool in ("all", "hidden"):
                for j in range(len(tk["slot"][pool])):
                    for op in H.OPS:
                        if col.expired():
                            complete = False
                            break
                        case = {"tree": prog["tree"], "traj": prog["traj"], "n": prog["n"], "reqs": [[tk["t"], op, j, pool]]}
                        vs, classes, nontrivial = evaluate(case)
                        col.record(case, nontrivial, classes=list(classes) + common, violations=vs,
                                   sample={"method": G.text_of(lines), "traj": case["traj"], "ticks": case["n"], "reqs": case["reqs"]})
        if complete:
            col.count("sweep:programs-completed")

    n_sweep = cfg.get("sweep_programs", 0)
    mine = n_sweep // col.nshards + (1 if col.shard < n_sweep % col.nshards else 0)
    if mine:
        scfg = dict(cfg, singles=0, multis=0, max_top=cfg["sweep_top"], depth=2, max_ticks=cfg["sweep_ticks"])
        hyp_run(programs(scfg), sweep, mine + 1, shard_seed(col.seed, col.shard) + 500009, col)
    hyp_run(programs(cfg), body, max(1, cfg["examples"] // col.nshards), shard_seed(col.seed, col.shard), col)
