"""C27 - engine messages survive disconnects without loss or duplication  (fault_enumeration).

Harness : vp/harness/aio.py - the real EngineRunner + EngineMessageBuilder + Engine (virtual clock) and a subclass
          of the real EngineDispatcher with only the network parts replaced, inside a virtual-time asyncio loop.
Domain  : scenario = engine events (start / stop / restart / pause / input changes, at absolute times or a delay
          after the n-th entry of the runner into a recovery state), network outages [t_down, t_up), per-attempt
          outcome in {ok, lost (never reaches the aggregator), acklost (delivered, response lost)} and latency, connect
          outcomes/latencies, the reconnect back-off draws, default latency, engine tick phase.
          One connection is a FIFO stream: a failed attempt or an outage breaks it and fails every un-acknowledged
          attempt on it in send order (what a websocket does); nothing is re-ordered on the wire.
Oracle  : history check on the trace (P = messages handed to _post_async / _buffer_message by identity, A = send
          attempts with the sequence number seen on the wire, D = deliveries at the fake aggregator), once the
          scenario has ended with the network up and the runner steady (Connected/Reconnected) and fault free for 6 s:
   lost       every message produced (while not Stopped) at least 2.5 s before the end was delivered
   stranded   `_message_buffer` is empty
   duplicate  a message is delivered again only if an earlier attempt of it failed
   seqno      all attempts of one message carry one sequence number (!= -1); distinct messages distinct numbers
   order      for every run r: a TagsUpdatedMsg(run_id=r) produced before RunStoppedMsg(r) that was in the buffer when the
              attempt that first delivered RunStoppedMsg(r) started is first-delivered before RunStoppedMsg(r)
Each scenario is run on the unmodified runner; if that run shows the known defect "orphaned buffer_messages tasks"
(see NEUTRALISE_ORPHAN_BUFFER_TASKS) it is run a second time with those tasks cancelled by the harness, so that the
rest of the behaviour is judged without the noise of that defect.
"""
from __future__ import annotations

from hypothesis import strategies as st

from vp.core.framework import Violation, hyp_run, shard_seed

ID = "C27"
LEVEL = "fault_enumeration"
ENGINE = "async_harness"
TECHNIQUE = ("Hypothesis-generated fault/event scenarios (faults and events anchored at recovery-state entries) on the real "
             "EngineRunner/EngineDispatcher.send_async in a virtual-time asyncio loop with a FIFO fake transport; history oracle "
             "over posts, wire attempts and deliveries")
RULE = ("A scenario = method, engine events (absolute or anchored at the n-th entry into a runner state), <=3 outages, "
        "<=4 (thorough <=8) per-attempt faults (lost / ack-lost / latency 0..2 s, absolute or anchored attempt index), <=5 connect "
        "outcomes, <=5 back-off draws, default latency, tick phase. One scenario in 12 (thorough 8) is of the family 'long outage': a 300-900 s (thorough 1800 s) outage during a run that stops late in the outage, so that several hundred messages are buffered (>200 before the stop), with 1-3 failures at chosen positions (1..400) of the catch-up batches. Non-trivial = the runner entered Failed while an engine run was active, >=1 message "
        "was buffered and the scenario ended settled (so every clause was judged). Distinct = distinct scenario JSON.")
ASSUMPTIONS = [
    "one connection is a FIFO stream (fastapi_websocket_rpc handles requests sequentially); a lost request/response means the "
    "connection broke, so every un-acknowledged attempt on it fails, in send order; independent per-message loss on a healthy "
    "connection is not generated",
    "'produced' = handed to EngineRunner._post_async or _buffer_message (by object identity); 'delivered' = the serialised message "
    "reached the fake aggregator's dispatch_message_async",
    "'once the engine reports it has caught up' is judged at the end of the scenario: runner Connected/Reconnected, network up and no "
    "failed attempt for 6 virtual seconds; messages produced in the last 2.5 s are not judged for delivery",
    "'run data buffered for a run' = TagsUpdatedMsg(run_id=r) produced before RunStoppedMsg(r) that was put into _message_buffer no "
    "later than the start of the wire attempt that first delivered RunStoppedMsg(r)",
    "engine events are applied from the loop thread at engine-tick granularity (the production engine thread posts with "
    "run_coroutine_threadsafe as well); the engine starts ticking at the first steady state, like production",
    "scenarios that do not settle within 90 s of fault-free tail are counted (class unsettled:<state>) and judged only for "
    "duplicates / sequence numbers / order",
    "a message that was in flight when the connection broke (produced in a posting state, its only attempt failed) is judged like a "
    "message produced while disconnected: the runner knows the attempt failed, and the statement's resend clause presupposes that "
    "failed attempts are re-queued",
]
TIERS = {
    "quick": {"examples": 1600, "budget_s": 240, "max_runs": 2, "max_faults": 4, "long_every": 12, "long_len": 900.0},
    "thorough": {"examples": 20000, "budget_s": 1400, "max_runs": 4, "max_faults": 8, "long": True, "long_every": 8, "long_len": 1800.0},
}

# Known defect (see the report / known_findings): several concurrent _set_state("Failed") calls orphan buffer_messages tasks
# that keep buffering while the runner is steady.  With the switch on, every scenario in which an orphan is seen is ALSO run
# with the orphans cancelled by the harness (counted as excluded_known:orphan-buffer-task); the unmodified run still reports the
# defect under its own signatures (prefix "orphan-buffer-task:").
NEUTRALISE_ORPHAN_BUFFER_TASKS = True

LATS = [0.0, 0.01, 0.05, 0.3, 2.0]
STATES = ["Connected", "Failed", "Disconnected", "Reconnecting", "CatchingUp", "Reconnected"]
METHOD_NAMES = ["plain", "block", "watch", "stop", "error"]
EVENT_KINDS = ["start", "stop", "restart", "pause", "unpause", "in"]
OUTCOMES = ["ok", "lost", "acklost"]
CONN_OUTCOMES = ["ok", "fail", "fail_ws"]


def _r(x, nd=2):
    return round(float(x), nd)


@st.composite
def long_outage_scenarios(draw, max_len=900.0):
    """Family 'long outage': minutes of virtual time without network while a run is active, so that several hundred messages
    are buffered (buffer_messages adds 2-3 per 5 s, engine events more); the run stops late in the outage (its stop notification
    sits behind hundreds of buffered messages); the catch-up after the outage is hit by one or two further connection failures at
    a chosen position of the batch."""
    method = draw(st.sampled_from(["plain", "block", "watch", "plain"]))
    t_start = draw(st.sampled_from([0.5, 1.0, 2.0]))
    a = _r(t_start + draw(st.sampled_from([0.5, 1.5, 4.0])))
    length = draw(st.sampled_from([300.0, 600.0, 600.0, max_len]))
    b = _r(a + length)
    engine = [["abs", t_start, "start", None]]
    for _ in range(draw(st.integers(0, 3))):
        engine.append(["abs", _r(a + length * draw(st.sampled_from([0.1, 0.3, 0.5]))), draw(st.sampled_from(["in", "pause", "unpause"])),
                       draw(st.sampled_from([0.0, 7.0, 12.0]))])
    t_stop = _r(a + length * draw(st.sampled_from([0.5, 0.8, 0.9, 0.95, 0.99])))
    engine.append(["abs", t_stop, draw(st.sampled_from(["stop", "stop", "restart"])), None])
    if draw(st.booleans()):
        engine.append(["abs", _r(t_stop + draw(st.sampled_from([1.0, 10.0]))), "start", None])
    if draw(st.integers(0, 3)) == 0:
        engine.append(["CatchingUp#1", draw(st.sampled_from([0.0, 0.1, 0.3])), draw(st.sampled_from(["stop", "start"])), None])
    faults = [["CatchingUp#1", draw(st.sampled_from([1, 2, 3, 10, 40, 100, 150, 199, 200, 201, 202, 250, 400])),
               draw(st.sampled_from(["lost", "lost", "acklost"])), draw(st.sampled_from([0.0, 0.01, 0.05]))]]
    for _ in range(draw(st.integers(0, 2))):
        faults.append([draw(st.sampled_from(["CatchingUp#2", "CatchingUp#2", "CatchingUp#3", "Reconnected#1"])),
                       draw(st.sampled_from([0, 1, 2, 10, 60, 150, 201, 300])),
                       draw(st.sampled_from(["lost", "acklost", "ok"])), draw(st.sampled_from([0.0, 0.01, 0.3]))])
    outages = [[a, b]]
    if draw(st.integers(0, 3)) == 0:
        outages.append([_r(b + draw(st.sampled_from([0.7, 1.2, 3.0]))), _r(b + 4.0)])
    conn = [[draw(st.sampled_from(["ok", "ok", "fail", "fail_ws"])), draw(st.sampled_from([0.0, 0.05, 0.3]))]
            for _ in range(draw(st.integers(0, 3)))]
    backoff = [draw(st.sampled_from([0.5, 3.0, 10.0])) for _ in range(draw(st.integers(0, 3)))]
    return {"method": method, "engine": engine, "dur": _r(b + 6.0), "outages": outages, "faults": faults, "conn": conn,
            "backoff": backoff, "lat": draw(st.sampled_from([0.0, 0.01, 0.01, 0.05])), "phase": draw(st.sampled_from([0.0, 0.03])),
            "tick": draw(st.sampled_from([0.5, 0.5, 0.1]))}


@st.composite
def scenarios(draw, max_runs=2, max_faults=4, long=False, long_every=12, long_len=900.0):
    if draw(st.integers(0, long_every - 1)) == 0:
        return draw(long_outage_scenarios(max_len=long_len))
    method = draw(st.sampled_from(METHOD_NAMES))
    engine = []
    t = draw(st.sampled_from([0.2, 0.5, 1.0, 2.0]))
    for _ in range(draw(st.integers(1, max_runs))):
        engine.append(["abs", _r(t), "start", None])
        for _ in range(draw(st.integers(0, 3))):
            t += draw(st.sampled_from([0.1, 0.4, 1.0, 2.0]))
            engine.append(["abs", _r(t), draw(st.sampled_from(["in", "in", "pause", "unpause"])),
                           draw(st.sampled_from([0.0, 3.0, 7.0, 12.0]))])
        t += draw(st.sampled_from([0.3, 1.0, 2.0, 4.0] + ([8.0] if long else [])))
        engine.append(["abs", _r(t), draw(st.sampled_from(["stop", "stop", "restart"])), None])
        t += draw(st.sampled_from([0.2, 0.5, 1.5]))
    for _ in range(draw(st.integers(0, 2))):
        anchor = "%s#%d" % (draw(st.sampled_from(STATES[1:])), draw(st.integers(1, 2)))
        engine.append([anchor, draw(st.sampled_from([0.0, 0.05, 0.1, 0.2, 0.3, 0.4, 0.5, 1.0, 2.2])),
                       draw(st.sampled_from(["stop", "stop", "start", "restart", "in"])), 7.0])
    dur = _r(max(t + 0.5, draw(st.sampled_from([4.0, 8.0, 12.0]))))
    backoff = [draw(st.sampled_from([0.5, 0.5, 1.0, 3.0, 10.0])) for _ in range(draw(st.integers(0, 5)))]
    if draw(st.integers(0, 2)) == 0:
        # aim an event at the 0.1 s wide Reconnecting state: it follows the n-th entry into Disconnected by the n-th back-off
        # draw (Stop/Restart need two engine ticks to take effect, Start one)
        n = draw(st.integers(1, 3))
        b = backoff[n - 1] if n <= len(backoff) else 0.5
        kind = draw(st.sampled_from(["stop", "stop", "restart", "start"]))
        engine.append(["Disconnected#%d" % n, _r(max(0.0, b - draw(st.sampled_from([0.05, 0.1, 0.15, 0.2])))), kind, 7.0])
    outages = []
    for _ in range(draw(st.sampled_from([0, 1, 1, 1, 2, 2, 3]))):
        a = _r(draw(st.floats(0.3, dur)))
        outages.append([a, _r(a + draw(st.sampled_from([0.02, 0.3, 1.0, 3.0, 8.0] + ([20.0] if long else []))))])
    faults = []
    for _ in range(draw(st.integers(0, max_faults))):
        anchor = draw(st.sampled_from(["abs", "abs", "CatchingUp#1", "CatchingUp#1", "CatchingUp#2", "Reconnected#1",
                                       "Reconnecting#1", "Connected#1", "Failed#1", "Failed#2"]))
        j = draw(st.integers(0, 250)) if anchor == "abs" else draw(st.sampled_from([0, 0, 1, 1, 2, 3, 4, 6, 9, 14]))
        faults.append([anchor, j, draw(st.sampled_from(["lost", "acklost", "ok"])), draw(st.sampled_from(LATS))])
    conn = [[draw(st.sampled_from(["ok", "ok", "ok", "fail", "fail_ws"])), draw(st.sampled_from([0.0, 0.0, 0.05, 0.3, 2.0]))]
            for _ in range(draw(st.integers(0, 5)))]
    return {"method": method, "engine": engine, "dur": dur, "outages": outages, "faults": faults, "conn": conn,
            "backoff": backoff, "lat": draw(st.sampled_from([0.0, 0.01, 0.01, 0.05, 0.3])),
            "phase": draw(st.sampled_from([0.0, 0.03, 0.07]))}


def _num(x, lo, hi):
    return isinstance(x, (int, float)) and not isinstance(x, bool) and lo <= x <= hi


def _anchor_ok(a):
    if a == "abs":
        return True
    if not isinstance(a, str) or "#" not in a:
        return False
    s, _, n = a.partition("#")
    return s in STATES and n.isdigit() and 1 <= int(n) <= 9


def _valid(c) -> bool:
    if not isinstance(c, dict):
        return False
    if c.get("method") not in METHOD_NAMES or not _num(c.get("dur"), 0.5, 5000) or not _num(c.get("lat", 0.01), 0, 2) \
            or not _num(c.get("phase", 0.0), 0, 0.0999) or not _num(c.get("tick", 0.1), 0.1, 1.0):
        return False
    for key in ("engine", "outages", "faults", "conn", "backoff"):
        if not isinstance(c.get(key, []), list):
            return False
    for e in c.get("engine", []):
        if not (isinstance(e, list) and len(e) == 4 and _anchor_ok(e[0]) and _num(e[1], 0, 5000) and e[2] in EVENT_KINDS):
            return False
        if e[2] == "in" and not _num(e[3], -1000, 1000):
            return False
        if e[0] == "abs" and e[1] > c["dur"]:
            return False
    for o in c.get("outages", []):
        if not (isinstance(o, list) and len(o) == 2 and _num(o[0], 0, c["dur"]) and _num(o[1], 0, 6000) and o[0] < o[1]):
            return False
    for f in c.get("faults", []):
        if not (isinstance(f, list) and len(f) == 4 and _anchor_ok(f[0]) and isinstance(f[1], int) and not isinstance(f[1], bool)
                and 0 <= f[1] <= 100000 and f[2] in OUTCOMES and _num(f[3], 0, 2)):
            return False
    for x in c.get("conn", []):
        if not (isinstance(x, list) and len(x) == 2 and x[0] in CONN_OUTCOMES and _num(x[1], 0, 2)):
            return False
    if not all(_num(b, 0, 100) for b in c.get("backoff", [])):
        return False
    return True


# ------------------------------------------------------------------------------------------------------------------
# oracle on one trace
# ------------------------------------------------------------------------------------------------------------------

def judge(tr: dict, neutralised: bool):
    from vp.harness.aio import MARGIN_S
    out: dict[str, str] = {}

    def viol(sig, msg):
        out.setdefault(sig, msg)

    posts = tr["posts"]
    end = tr["end"]
    atts_of: dict[int, list] = {}
    for a in tr["attempts"]:
        atts_of.setdefault(a["m"], []).append(a)
    first_del: dict[int, int] = {}
    n_del: dict[int, int] = {}
    for i, d in enumerate(tr["deliveries"]):
        first_del.setdefault(d[2], i)
        n_del[d[2]] = n_del.get(d[2], 0) + 1
    last_buf: dict[int, tuple] = {}
    first_buf: dict[int, tuple] = {}
    first_buf_idx: dict[int, int] = {}
    last_buf_idx: dict[int, int] = {}
    for i, b in enumerate(tr["buffered"]):
        last_buf[b[1]] = b
        first_buf.setdefault(b[1], b)
        first_buf_idx.setdefault(b[1], i)
        last_buf_idx[b[1]] = i

    def how_buffered(m):
        b = last_buf.get(m)
        if b is None:
            return "never-buffered"
        return "%s-while-%s" % (b[3], b[2])

    def tname(m):
        return posts[m]["type"] if 0 <= m < len(posts) else "?"

    info = {"settled": bool(end.get("settled")), "judged": 0}

    # ---- sequence numbers (all attempts, settled or not) ------------------------------------------------------------
    seq_owner: dict = {}
    for m, lst in sorted(atts_of.items()):
        seqs = sorted({a["seq"] for a in lst}, key=str)
        if len(seqs) > 1:
            viol("seqno:changed-on-resend", "message #%d (%s) was sent with sequence numbers %s" % (m, tname(m), seqs))
        for s in seqs:
            if s == -1 or s is None:
                viol("seqno:unassigned", "message #%d (%s) went on the wire with sequence number %r" % (m, tname(m), s))
            elif s in seq_owner and seq_owner[s] != m:
                viol("seqno:shared-by-distinct-messages", "sequence number %r used by message #%d (%s) and message #%d (%s)"
                     % (s, seq_owner[s], tname(seq_owner[s]), m, tname(m)))
            else:
                seq_owner[s] = m

    # ---- duplicates -------------------------------------------------------------------------------------------------
    for m, lst in sorted(atts_of.items()):
        delivered = [a for a in lst if a["t_del"] is not None]
        for a in delivered[1:]:
            if not any(b["k"] < a["k"] and b["result"].startswith("fail") for b in lst):
                viol("duplicate:no-earlier-attempt-failed:%s" % tname(m),
                     "message #%d (%s, seq %s) was delivered again by attempt %d at t=%.2f although no earlier attempt of it failed "
                     "(attempts: %s)" % (m, tname(m), a["seq"], a["k"], a["t_del"],
                                         [(b["k"], b["result"], round(b["t_send"], 2)) for b in lst]))
                break
            if any(b["k"] < a["k"] and b["result"] == "pending" or (b["k"] < a["k"] and b["t_end"] is not None and b["t_end"] > a["t_send"])
                   for b in lst):
                info["resent-while-earlier-attempt-open"] = True

    # ---- order: buffered run data before the run's stop notification -------------------------------------------------
    stops = [p for p in posts if p["type"] == "RunStoppedMsg" and p["run_id"] is not None]
    for sp in stops:
        ms = sp["m"]
        if ms not in first_del:
            continue
        # the wire attempt that first delivered the stop: run data (produced before the stop) that was in the buffer when that
        # attempt was started is "run data buffered for the run" and has to arrive first
        stop_att = min((a for a in tr["attempts"] if a["m"] == ms and a["t_del"] is not None), key=lambda a: a["k"])
        for p in posts:
            if p["type"] != "TagsUpdatedMsg" or p["run_id"] != sp["run_id"] or p["m"] >= ms:
                continue
            fb = first_buf.get(p["m"])
            if fb is None or fb[0] > stop_att["t_send"]:
                continue
            mt = p["m"]
            late = first_del.get(mt, None)
            if late is not None and late < first_del[ms]:
                continue
            if late is None and not (end.get("settled") and p["t"] <= end["t"] - MARGIN_S):
                continue
            orphan = fb[3] == "orphan_buffer_task" and fb[2] not in ("Failed", "Disconnected", "Reconnecting")
            mech = "stop-%s-in-%s" % ("posted" if sp["via"] == "post" else sp["via"], sp["state"])
            i_t, i_s = first_buf_idx[mt], first_buf_idx.get(ms)
            failed_before_buffering = any(a["m"] == mt and a["result"].startswith("fail") and a["t_end"] is not None
                                          and a["t_end"] <= fb[0] for a in tr["attempts"])
            if i_s is not None and i_s < i_t and failed_before_buffering:
                # the tags message was on the wire when the connection failed; _post_async publishes state Failed and then awaits
                # the state task BEFORE it buffers the message, so the later produced stop (posted in that window, or a failed
                # post itself that was resumed earlier) was buffered ahead of it
                mech = "failed-post-buffered-behind-later-stop"
            elif sp["state"] in ("Failed", "Disconnected", "Reconnecting") and i_s is not None and i_t < i_s \
                    and last_buf_idx[mt] > i_s and any(a["m"] == ms and a["t_send"] >= last_buf[mt][0] for a in tr["attempts"]) \
                    and not any(a["m"] == ms and a["t_send"] < last_buf[mt][0] for a in tr["attempts"]):
                # the stop was produced while disconnected and both were in the buffer in the right order; the tags message failed
                # on resend and was put back BEHIND the stop, which was still waiting in the buffer (never sent before)
                mech = "failed-resend-requeued-behind-waiting-stop"
            sig = ("orphan-buffer-task:stop-overtakes-buffered-run-data" if orphan
                   else "order:stop-overtakes-buffered-run-data:%s" % mech)
            viol(sig, "run %s: TagsUpdatedMsg #%d (produced at t=%.2f) was buffered at t=%.2f (%s, buffer event %d); RunStoppedMsg #%d was "
                      "produced at t=%.2f in state %s (buffer event %s, first delivering attempt sent at t=%.2f), "
                      "but the stop notification reached the aggregator first (stop delivery no. %d, tags %s)"
                 % (sp["run_id"], mt, p["t"], fb[0], how_buffered(mt), i_t, ms, sp["t"], sp["state"], i_s, stop_att["t_send"], first_del[ms],
                    "delivery no. %d" % late if late is not None else "never delivered"))
            break

    # ---- completeness + buffer, only when the scenario ended settled -------------------------------------------------
    if end.get("settled"):
        in_buf = set(end["buffer"])
        for m in sorted(in_buf):
            b = last_buf.get(m)
            orphan = b is not None and b[3] == "orphan_buffer_task"
            sig = "orphan-buffer-task:stranded-in-buffer" if orphan else "stranded:%s" % how_buffered(m)
            viol(sig, "runner is %s and steady since >= 6 s, yet message #%d (%s) is still in _message_buffer (%s at t=%.2f; %d in buffer; "
                      "delivered %d times)" % (end["state"], m, tname(m), how_buffered(m), b[0] if b else -1, len(in_buf), n_del.get(m, 0)))
        horizon = end["t"] - MARGIN_S
        for p in posts:
            m = p["m"]
            if p["t"] > horizon or p["state"] in ("Stopped", "ShutdownComplete"):
                continue
            info["judged"] += 1
            if m in first_del or m in in_buf:
                continue
            if p["ret"] == "dropped-invalid-state":
                info["dropped-invalid-state"] = info.get("dropped-invalid-state", 0) + 1
                viol("lost:post-rejected-in-state-%s" % p["state"],
                     "message #%d (%s) posted at t=%.2f in runner state %s was rejected ('invalid state') and never delivered"
                     % (m, p["type"], p["t"], p["state"]))
                continue
            lst = atts_of.get(m, [])
            if p.get("raised"):
                viol("lost:post-raised-%s" % p["raised"],
                     "message #%d (%s) produced at t=%.2f (runner %s): _post_async raised %s, the message was neither delivered nor "
                     "buffered; attempts %s" % (m, p["type"], p["t"], p["state"], p["raised"], [(a["k"], a["result"]) for a in lst]))
            elif not lst:
                viol("lost:never-sent:%s-in-%s" % (p["via"], p["state"]),
                     "message #%d (%s) produced at t=%.2f (%s, runner %s) was never sent, is not in the buffer and was not delivered; "
                     "buffered: %s" % (m, p["type"], p["t"], p["via"], p["state"], how_buffered(m)))
            else:
                viol("lost:failed-attempt-not-requeued:%s" % lst[-1]["result"],
                     "message #%d (%s) produced at t=%.2f: attempts %s, not delivered, not in the buffer at the end"
                     % (m, p["type"], p["t"], [(a["k"], a["result"]) for a in lst]))
    return out, info


def _classes(case, tr, info):
    cl = []
    st_new = [s[2] for s in tr["states"]]
    n_failed = sum(1 for i, s in enumerate(tr["states"]) if s[2] == "Failed" and s[1] != "Failed")
    cl.append("outages:%s" % (n_failed if n_failed < 3 else "3+"))
    reasons = {r for _t, _l, r in tr["link_ends"]}
    for r in sorted(reasons):
        cl.append("link-end:%s" % r)
    if any(not c[4] for c in tr["connects"]):
        cl.append("connect-failed")
    if any(b >= 3 for b in tr["backoffs"]):
        cl.append("backoff>=3s")
    if tr["buffered"]:
        cl.append("buffered")
    if any(len([a for a in tr["attempts"] if a["m"] == m]) > 1 for m in {a["m"] for a in tr["attempts"]}):
        cl.append("resend")
    if any(a["result"] == "fail-delivered" for a in tr["attempts"]):
        cl.append("delivered-but-ack-lost")
    dup = {}
    for d in tr["deliveries"]:
        dup[d[2]] = dup.get(d[2], 0) + 1
    if any(v > 1 for v in dup.values()):
        cl.append("legit-or-not-duplicate-delivery")
    for t, kind, _rid, rstate in tr["engine"]:
        if rstate not in ("Connected", "Reconnected"):
            cl.append("run-%s-while-%s" % (kind, rstate))
    for st_name in ("Failed", "Disconnected", "Reconnecting", "CatchingUp"):
        if any(p["via"] == "post" and p["state"] == st_name and p["type"] in ("RunStartedMsg", "RunStoppedMsg", "WebPushNotificationMsg")
               for p in tr["posts"]):
            cl.append("engine-event-posted-while-%s" % st_name)
    if case.get("dur", 0) > 250:
        cl.append("family:long-outage")
    # approximate buffer fill: buffered events since the runner was last steady
    steady_t = [s[0] for s in tr["states"] if s[2] in ("Connected", "Reconnected")]
    stop_ms = {p["m"] for p in tr["posts"] if p["type"] == "RunStoppedMsg"}
    fill, k, big, stop_deep = 0, 0, False, False
    for b in tr["buffered"]:
        while k < len(steady_t) and steady_t[k] <= b[0]:
            k += 1
            fill = 0
        fill += 1
        if fill > 200:
            big = True
            if b[1] in stop_ms:
                stop_deep = True
    if big:
        cl.append("buffer>200")
        if any(s[1] == "CatchingUp" and s[2] == "Failed" for s in tr["states"]):
            cl.append("buffer>200+failure-during-catch-up")
    if stop_deep:
        cl.append("run-stop-buffered-behind>200")
    if any(s[1] == "CatchingUp" and s[2] == "Failed" for s in tr["states"]):
        cl.append("failure-during-catch-up")
    if "Reconnected" in st_new:
        cl.append("reached-Reconnected")
    if tr["orphans"]:
        cl.append("orphan-buffer-task-seen")
    if tr["exceptions"]:
        cl.append("runner-task-exception")
    if not info["settled"]:
        cl.append("unsettled:%s" % tr["end"].get("state"))
    if tr["rejected"]:
        cl.append("control-command-rejected")
    if info.get("resent-while-earlier-attempt-open"):
        cl.append("resent-while-earlier-attempt-open")
    return sorted(set(cl))


def _nontrivial(tr, info) -> bool:
    if not info["settled"] or not tr["buffered"]:
        return False
    # run intervals from the engine events
    runs, cur = [], None
    for t, kind, _rid, _s in tr["engine"]:
        if kind == "start":
            cur = t
        elif kind == "stop" and cur is not None:
            runs.append((cur, t))
            cur = None
    if cur is not None:
        runs.append((cur, float("inf")))
    return any(s[2] == "Failed" and s[1] != "Failed" and any(a <= s[0] <= b for a, b in runs) for s in tr["states"])


def run_case(case):
    from vp.harness.aio import run_scenario
    tr = run_scenario(case, neutralise_orphans=False)
    sigs, info = judge(tr, False)
    excluded = False
    tr_used = tr
    if tr["orphans"] and NEUTRALISE_ORPHAN_BUFFER_TASKS:
        excluded = True
        tr2 = run_scenario(case, neutralise_orphans=True)
        sigs2, info2 = judge(tr2, True)
        for s, m in sigs2.items():
            sigs.setdefault(s, "[orphaned buffer tasks cancelled by the harness] " + m)
        tr_used, info = tr2, info2
    vs = [Violation(s, m, case) for s, m in sorted(sigs.items())]
    return vs, tr_used, info, excluded, tr


def check_case(case):
    if not _valid(case):
        return []
    return run_case(case)[0]


def _sample(case, tr):
    return {"scenario": case, "runner_states": [(round(t, 2), b) for t, _a, b in tr["states"]][:30],
            "posts": len(tr["posts"]), "attempts": len(tr["attempts"]), "deliveries": len(tr["deliveries"]),
            "buffered": len(tr["buffered"]), "end": {k: tr["end"][k] for k in ("t", "state", "settled")}}


def run_shard(col, cfg):
    def body(case):
        vs, tr, info, excluded, raw = run_case(case)
        if excluded:
            col.count("excluded_known:orphan-buffer-task")
        col.count("virtual_seconds", int(tr["end"]["t"]))
        col.count("messages_judged", info["judged"])
        col.record(case, _nontrivial(tr, info), classes=_classes(case, tr, info), violations=vs, sample=_sample(case, tr))
    strat = scenarios(max_runs=cfg.get("max_runs", 2), max_faults=cfg.get("max_faults", 4), long=cfg.get("long", False),
                      long_every=cfg.get("long_every", 12), long_len=cfg.get("long_len", 900.0))
    hyp_run(strat, body, max(1, cfg["examples"] // col.nshards), shard_seed(col.seed, col.shard), col)
