"""C23 — hardware connection recovery follows the documented protocol  (fault_enumeration).

Domain : operation lists over {connect, read, read_batch, write, write_batch, cycle (= tick, read_batch of all
         inputs, write_batch of all outputs, +0.1 s: what Engine.tick does), tick n, advance dt, set_input,
         fail_read/fail_write/fail_connect on|off} driven against a fake inner hardware layer and the REAL
         ErrorRecoveryDecorator with a real `Connection Status` Tag.  `hardware_recovery.time` is replaced by a
         virtual clock for the duration of one case and restored afterwards.
Oracle : reference state machine written from docs/src/Error Recovery.rst (DESIGN Appendix A.2).  It consumes what
         the fake hardware observed during each call (physical read/write succeeded / raised, connect attempt
         succeeded / raised) and yields the SET of acceptable successor states; where the documentation leaves a
         boundary open the set has two members and the model follows the implementation.
Judged after every call:
         state:*            decorator.state not in the acceptable set (analysis of the case stops there)
         status-tag:*       Connection Status == "Disconnected"  <=>  state in {Disconnected, Error}
         raised:*           a read/write raised although the state before and after is OK/Issue/Reconnect
         no-raise:*         a read/write did not raise HardwareLayerException in Error (or Disconnected)
         read-value:*       value returned by a non-raising read != last value successfully read for that register
                            (None if the register was never read successfully - documented)
         connect:*          connect() in Disconnected does not propagate the HardwareLayerException / raises on success
         reconnect-attempt-in:*   inner connect() observed while the state is OK/Issue/Disconnected
         no-reconnect-attempt     150 consecutive ticks after entering Reconnect without any reconnect attempt

This module also hosts the machinery shared with C24 (virtual clock, fake hardware, executor, case validation).
"""
from __future__ import annotations

import math
from typing import Any

from hypothesis import strategies as st

from vp.core.framework import Violation, hyp_run, shard_seed

ID = "C23"
LEVEL = "fault_enumeration"
ENGINE = "pure"
DESIGN_REF = "DESIGN.md §3 C23, Appendix A.2"
TECHNIQUE = ("model-based testing: Hypothesis-generated operation/fault lists against the real ErrorRecoveryDecorator "
             "with a virtual clock, compared call by call with a reference state machine written from the documentation")
RULE = ("a case is a config (issue/error timeouts, only_write_modified_values, initially connected or not) plus a list "
        "of up to 40 (quick) / 120 (thorough) operations drawn from weighted fragments (engine cycles, single and "
        "batch reads/writes, ticks, time advances from the grid {0,0.1,1.3,11,3600,18001 s} crossing both timeouts, "
        "fault switches for read/write/reconnect, macros that drive towards Reconnect/Error/recovery). "
        "Non-trivial = the reference model visits >= 3 distinct states including Reconnect or Error. "
        "Distinct = distinct (config, operation list).")
ASSUMPTIONS = [
    "the fake inner hardware raises only HardwareLayerException, fails a whole call (no partial batches) and an empty "
    "write_batch never fails (as OPC-UA/LabJack/base-class implementations behave)",
    "the issue timeout may be measured from the last successful physical read/write or from entering Issue; when the "
    "two readings disagree both successor states are accepted (class 'ambiguous:issue-base')",
    "timeouts are evaluated when a read/write happens (polled system); an implementation that also evaluates them in "
    "tick() is accepted; elapsed == timeout exactly accepts both successor states",
    "a read/write call that itself moves Reconnect -> Error may or may not raise",
    "reads/writes in state Disconnected must raise HardwareLayerException (repo unit tests document it; the statement "
    "names only Error) - reported under its own signature no-raise:Disconnected",
    "bounded liveness: the documentation gives no number for 'reconnect attempts are started'; the check demands one "
    "attempt within 150 ticks of entering Reconnect (implementation: tick 5). The back-off schedule is not judged",
    "connect() is only issued while the model is in Disconnected (the engine never connects an already connected "
    "layer); such ops are skipped and counted otherwise",
]
TIERS = {
    "quick": {"per_shard": 1250, "max_ops": 40, "budget_s": 170},
    "thorough": {"per_shard": 31250, "max_ops": 120, "budget_s": 840},
}

# ------------------------------------------------------------------------------------------------
# shared machinery (also used by C24)
# ------------------------------------------------------------------------------------------------

BASE_T = 1_000_000.0
READ_ONLY = ["A", "B"]
WRITE_ONLY = ["X", "Y"]
BOTH = ["Z"]
READABLE = READ_ONLY + BOTH          # order of Engine.read_process_image = registers dict order
WRITABLE = WRITE_ONLY + BOTH
ALL_REGS = READ_ONLY + WRITE_ONLY + BOTH
RESET_VALUE = -1                     # power-on content of a register of a `volatile` fake hardware
STATES = ["Disconnected", "OK", "Issue", "Reconnect", "Error"]
MAX_TICKS = 2000
LIVENESS_TICKS = 150


class VClock:
    def __init__(self):
        self.ms = 0

    def now(self) -> float:
        return BASE_T + self.ms / 1000.0


class _TimeProxy:
    """Stands in for the module-level `time` of hardware_recovery: time() is virtual, the rest is forwarded."""

    def __init__(self, clock: VClock, real):
        self._clock = clock
        self._real = real

    def time(self) -> float:
        return self._clock.now()

    def __getattr__(self, name):
        return getattr(self._real, name)


def _is_value(v) -> bool:
    if isinstance(v, bool):
        return False
    if v is None or isinstance(v, (int, str)):
        return True
    return isinstance(v, float) and math.isfinite(v)


def _is_num(v) -> bool:
    return isinstance(v, (int, float)) and not isinstance(v, bool) and (not isinstance(v, float) or math.isfinite(v))


def valid_case(case) -> bool:
    """Strict structural check: the shrinker produces arbitrary sub-structures; anything malformed is out of domain."""
    if not isinstance(case, dict) or set(case) != {"cfg", "ops"}:
        return False
    cfg, ops = case["cfg"], case["ops"]
    if not isinstance(cfg, dict) or set(cfg) != {"T_i", "T_e", "omv", "connected", "volatile"}:
        return False
    for k in ("T_i", "T_e"):
        if not _is_num(cfg[k]) or not (0.001 <= cfg[k] <= 1e6) or round(cfg[k] * 1000) < 1:
            return False
    for k in ("omv", "connected", "volatile"):
        if not isinstance(cfg[k], bool):
            return False
    if not isinstance(ops, list) or len(ops) > 600:
        return False
    for op in ops:
        if not isinstance(op, list) or not op or not isinstance(op[0], str):
            return False
        k, a = op[0], op[1:]
        if k == "connect":
            ok = not a
        elif k == "read":
            ok = len(a) == 1 and a[0] in READABLE
        elif k == "read_batch":
            ok = (len(a) == 1 and isinstance(a[0], list) and 1 <= len(a[0]) <= len(READABLE)
                  and all(isinstance(r, str) and r in READABLE for r in a[0]) and len(set(a[0])) == len(a[0]))
        elif k == "write":
            ok = len(a) == 2 and a[0] in WRITABLE and _is_value(a[1])
        elif k == "write_batch":
            ok = (len(a) == 1 and isinstance(a[0], list) and 1 <= len(a[0]) <= len(WRITABLE)
                  and all(isinstance(p, list) and len(p) == 2 and isinstance(p[0], str) and p[0] in WRITABLE
                          and _is_value(p[1]) for p in a[0])
                  and len({p[0] for p in a[0]}) == len(a[0]))
        elif k == "cycle":
            ok = len(a) == 1 and isinstance(a[0], list) and len(a[0]) == len(WRITABLE) and all(_is_value(v) for v in a[0])
        elif k == "tick":
            ok = len(a) == 1 and isinstance(a[0], int) and not isinstance(a[0], bool) and 1 <= a[0] <= MAX_TICKS
        elif k == "advance":
            ok = len(a) == 1 and _is_num(a[0]) and 0 <= a[0] <= 1e6
        elif k == "set_input":
            ok = len(a) == 2 and a[0] in READ_ONLY and _is_value(a[1])
        elif k in ("fail_read", "fail_write", "fail_connect"):
            ok = len(a) == 1 and isinstance(a[0], bool)
        elif k == "fail_write_nth":
            # the n-th physical write call from now (single or non-empty batch) fails once: a fault in the middle of a
            # call that makes several physical writes (the decorator's buffer flush)
            ok = len(a) == 1 and isinstance(a[0], int) and not isinstance(a[0], bool) and 1 <= a[0] <= 6
        else:
            ok = False
        if not ok:
            return False
    return True


class Step:
    """One call into the decorator (or 'init'), with everything the oracles need."""
    __slots__ = ("i", "kind", "regs", "vals", "pre", "post", "exc", "ret", "ev", "now", "tag", "mem", "full_cycle")

    def __init__(self, i, kind, regs=(), vals=()):
        self.i, self.kind, self.regs, self.vals = i, kind, list(regs), list(vals)
        self.pre = self.post = None
        self.exc = None          # None | ("HLE", msg) | ("other", type name, msg)
        self.ret = None
        self.ev: list = []       # events observed by the fake hardware during the call
        self.now = 0             # virtual ms
        self.tag = None
        self.mem = None          # snapshot of output memory after the call (write-like calls only)
        self.full_cycle = False  # write_batch issued by a 'cycle' op (all outputs, engine order)

    def brief(self) -> str:
        return "#%d %s%s %s->%s" % (self.i, self.kind, list(zip(self.regs, self.vals)) if self.vals else self.regs, self.pre, self.post)


def execute(case) -> list[Step]:
    """Drive the real decorator through the case.  Exceptions raised by the code under test during a call are
    recorded in the step; anything else propagates (harness error)."""
    from openpectus.engine import hardware_recovery as hr
    from openpectus.engine.hardware import HardwareLayerBase, HardwareLayerException, Register, RegisterDirection
    from openpectus.lang.exec.tags import SystemTagName, Tag

    cfg = case["cfg"]
    clock = VClock()
    ev: list = []

    class FakeHW(HardwareLayerBase):
        def __init__(self):
            super().__init__()
            for n in READ_ONLY:
                self._registers[n] = Register(n, RegisterDirection.Read)
            for n in WRITE_ONLY:
                self._registers[n] = Register(n, RegisterDirection.Write)
            for n in BOTH:
                self._registers[n] = Register(n, RegisterDirection.Both)
            self.mem = {n: 0 for n in READ_ONLY}
            self.mem.update({n: RESET_VALUE for n in WRITABLE})
            self.fail_read = self.fail_write = self.fail_connect = False
            self.fail_write_in = 0      # > 0: the n-th physical write call from now fails once

        def _io_failure(self, what, how="batch", reg=None):
            if cfg["volatile"]:      # the device lost power: output registers fall back to their power-on content
                for n in WRITABLE:
                    self.mem[n] = RESET_VALUE
            ev.append((what, how) if reg is None else (what, how, reg))
            raise HardwareLayerException("fake %s failure" % what)

        def read(self, r):
            if self.fail_read:
                self._io_failure("rfail")
            v = self.mem[r.name]
            ev.append(("r", r.name, v))
            return v

        def read_batch(self, registers):
            if self.fail_read:
                self._io_failure("rfail")
            out = []
            for r in registers:
                out.append(self.mem[r.name])
                ev.append(("r", r.name, self.mem[r.name]))
            return out

        def _nth(self) -> bool:
            if self.fail_write_in > 0:
                self.fail_write_in -= 1
                return self.fail_write_in == 0
            return False

        def write(self, value, r):
            if self.fail_write or self._nth():
                self._io_failure("wfail", "single", r.name)
            self.mem[r.name] = value
            ev.append(("w", r.name, value, "single"))

        def write_batch(self, values, registers):
            if len(registers) == 0:
                ev.append(("w0",))
                return
            if self.fail_write or self._nth():
                self._io_failure("wfail")
            for v, r in zip(values, registers, strict=True):
                self.mem[r.name] = v
                ev.append(("w", r.name, v, "batch"))

        def connect(self):
            if self.fail_connect:
                ev.append(("c", False))
                raise HardwareLayerException("fake connect failure")
            ev.append(("c", True))
            self._is_connected = True

        def disconnect(self):
            ev.append(("d",))
            self._is_connected = False

    steps: list[Step] = []
    real_time = hr.time
    hr.time = _TimeProxy(clock, real_time)
    try:
        hw = FakeHW()
        if cfg["connected"]:
            hw._is_connected = True
        tag = Tag(SystemTagName.CONNECTION_STATUS, value="Disconnected")
        conf = hr.ErrorRecoveryConfig()
        conf.reconnect_timeout_seconds = cfg["T_i"]
        conf.error_timeout_seconds = cfg["T_e"]
        conf.only_write_modified_values = cfg["omv"]
        dec = hr.ErrorRecoveryDecorator(hw, conf, tag)
        regs = hw.registers

        def call(i, kind, rnames=(), vals=(), full_cycle=False):
            if kind not in ("connect", "tick", "read", "read_batch", "write", "write_batch"):
                raise AssertionError(kind)
            s = Step(i, kind, rnames, vals)
            s.full_cycle = full_cycle
            s.pre = dec.state.name
            s.now = clock.ms
            del ev[:]
            try:
                if kind == "connect":
                    dec.connect()
                elif kind == "tick":
                    dec.tick()
                elif kind == "read":
                    s.ret = dec.read(regs[rnames[0]])
                elif kind == "read_batch":
                    s.ret = dec.read_batch([regs[n] for n in rnames])
                elif kind == "write":
                    dec.write(vals[0], regs[rnames[0]])
                else:
                    dec.write_batch(list(vals), [regs[n] for n in rnames])
            except HardwareLayerException as e:
                s.exc = ("HLE", str(e))
            except Exception as e:  # raised by the code under test: recorded and judged, never swallowed
                s.exc = ("other", type(e).__name__, str(e))
            s.ev = list(ev)
            s.post = dec.state.name
            s.tag = str(tag.get_value())
            if kind in ("write", "write_batch"):
                s.mem = {n: hw.mem[n] for n in WRITABLE}
            steps.append(s)
            return s

        s0 = Step(-1, "init")
        s0.pre = s0.post = dec.state.name
        s0.tag = str(tag.get_value())
        steps.append(s0)

        for i, op in enumerate(case["ops"]):
            k = op[0]
            if k == "connect":
                if dec.state.name == "Disconnected":
                    call(i, "connect")
                else:
                    sk = Step(i, "skipped-connect")
                    sk.pre = sk.post = dec.state.name
                    sk.tag = str(tag.get_value())
                    sk.now = clock.ms
                    steps.append(sk)
            elif k == "read":
                call(i, "read", [op[1]])
            elif k == "read_batch":
                call(i, "read_batch", op[1])
            elif k == "write":
                call(i, "write", [op[1]], [op[2]])
            elif k == "write_batch":
                call(i, "write_batch", [p[0] for p in op[1]], [p[1] for p in op[1]])
            elif k == "cycle":
                call(i, "tick")
                call(i, "read_batch", READABLE)
                call(i, "write_batch", WRITABLE, op[1], full_cycle=True)
                clock.ms += 100
            elif k == "tick":
                for _ in range(op[1]):
                    call(i, "tick")
            elif k == "advance":
                clock.ms += int(round(op[1] * 1000))
            elif k == "set_input":
                hw.mem[op[1]] = op[2]
            elif k == "fail_read":
                hw.fail_read = op[1]
            elif k == "fail_write":
                hw.fail_write = op[1]
            elif k == "fail_connect":
                hw.fail_connect = op[1]
            elif k == "fail_write_nth":
                hw.fail_write_in = op[1]
            else:
                raise AssertionError(op)
    finally:
        hr.time = real_time
    return steps


# ------------------------------------------------------------------------------------------------
# reference model (written from docs/src/Error Recovery.rst; DESIGN Appendix A.2)
# ------------------------------------------------------------------------------------------------

RW = ("read", "read_batch", "write", "write_batch")


def _cmp(elapsed_ms: int, limit_ms: int) -> str:
    return "over" if elapsed_ms > limit_ms else ("boundary" if elapsed_ms == limit_ms else "under")


class RefModel:
    def __init__(self, cfg, s0: Step):
        self.Ti = int(round(cfg["T_i"] * 1000))
        self.Te = int(round(cfg["T_e"] * 1000))
        self.s = "OK" if cfg["connected"] else "Disconnected"
        self.t_succ = 0          # earliest defensible base of the issue timeout: construction / last physical success
        self.t_issue = 0         # latest defensible base: the moment Issue was entered
        self.t_rec = 0
        self.last_good: dict[str, Any] = {}
        self.rec_ticks = 0
        self.rec_attempts = 0
        self.visited = [self.s]
        self.labels: set[str] = set()

    def acceptable(self, st: Step) -> tuple[set[str], str]:
        """-> (acceptable successor states, event label used in signatures)."""
        s, now = self.s, st.now
        conn_ok = any(e[0] == "c" and e[1] for e in st.ev)
        conn_fail = any(e[0] == "c" and not e[1] for e in st.ev)
        io_fail = any(e[0] in ("rfail", "wfail") for e in st.ev)
        io_ok = any(e[0] in ("r", "w") for e in st.ev)
        if st.kind == "connect":
            return ({"OK"}, "connect-ok") if conn_ok else ({"Disconnected"}, "connect-fail")
        if s == "Disconnected":
            return {s}, "any"
        if st.kind == "tick":
            if s in ("Reconnect", "Error"):
                if conn_ok:
                    return {"OK"}, "reconnect-ok"
                acc = {s}
                if s == "Reconnect" and _cmp(now - self.t_rec, self.Te) != "under":
                    acc.add("Error")
                return acc, ("reconnect-fail" if conn_fail else "no-attempt")
            acc = {s}
            if s == "Issue" and _cmp(now - self.t_succ, self.Ti) != "under":
                acc.add("Reconnect")
            return acc, "tick"
        # read / write
        # a failing single write() that follows the call's own (successful or empty) write is the decorator flushing
        # values it buffered earlier
        fails = [j for j, e in enumerate(st.ev) if e[0] in ("rfail", "wfail")]
        flush_fail = bool(fails) and st.kind in ("write", "write_batch") and tuple(st.ev[fails[0]][:2]) == ("wfail", "single") \
            and (st.kind == "write_batch" or any(e[0] == "w" for e in st.ev[:fails[0]]))
        if s == "OK":
            if io_fail and io_ok:
                return {"OK", "Issue"}, "mixed"
            if io_fail:
                return {"Issue"}, ("flush-fail" if flush_fail else "fail")
            return {"OK"}, ("ok" if io_ok else "untouched")
        if s == "Issue":
            if io_fail:
                lo, hi = _cmp(now - self.t_issue, self.Ti), _cmp(now - self.t_succ, self.Ti)
                if lo == "over":
                    acc, lab = {"Reconnect"}, "fail-timeout"
                elif hi == "under":
                    acc, lab = {"Issue"}, "fail-in-time"
                else:
                    acc, lab = {"Issue", "Reconnect"}, "fail-open"
                    self.labels.add("ambiguous:issue-boundary" if "boundary" in (lo, hi) and lo == hi else "ambiguous:issue-base")
                if io_ok:
                    acc = acc | {"OK"}
                return acc, lab
            return ({"OK"}, "ok") if io_ok else ({"Issue"}, "untouched")
        if s == "Reconnect":
            if conn_ok:
                return {"OK", "Reconnect"}, "reconnect-ok-outside-tick"
            c = _cmp(now - self.t_rec, self.Te)
            if c == "over":
                return {"Error"}, "masked-timeout"
            if c == "boundary":
                self.labels.add("ambiguous:error-boundary")
                return {"Reconnect", "Error"}, "masked-boundary"
            return {"Reconnect"}, "masked-in-time"
        if s == "Error":
            if conn_ok:
                return {"OK", "Error"}, "reconnect-ok-outside-tick"
            return {"Error"}, "unmasked"
        raise AssertionError(s)

    def advance(self, st: Step, new: str):
        old = self.s
        if st.kind in RW:
            if any(e[0] in ("r", "w") for e in st.ev):
                self.t_succ = st.now
            for e in st.ev:
                if e[0] == "r":
                    self.last_good[e[1]] = e[2]
        if new != old:
            self.labels.add("trans:%s->%s" % (old, new))
            if new == "Issue":
                self.t_issue = st.now
            if new == "Reconnect":
                self.t_rec = st.now
                self.rec_ticks = 0
                self.rec_attempts = 0
            self.visited.append(new)
        self.s = new


def _kind_class(kind: str) -> str:
    return "read" if kind.startswith("read") else ("write" if kind.startswith("write") else kind)


def judge(case, steps: list[Step]) -> tuple[list[Violation], RefModel]:
    cfg = case["cfg"]
    out: list[Violation] = []
    seen: set[str] = set()

    def V(sig, msg):
        if sig not in seen:          # one violation per signature and case
            seen.add(sig)
            out.append(Violation(sig, msg, case))

    m = RefModel(cfg, steps[0])
    s0 = steps[0]
    if s0.post != m.s:
        V("state:init:got-%s:want-%s" % (s0.post, m.s), "after construction with %sconnected inner hardware the state is %s"
          % ("" if cfg["connected"] else "dis", s0.post))
        return out, m
    _judge_tag(V, m.s, s0)
    liveness_reported = False
    for st in steps[1:]:
        if st.kind == "skipped-connect":
            m.labels.add("skipped-connect")
            continue
        pre = m.s
        kc = _kind_class(st.kind)
        acc, lab = m.acceptable(st)
        # -- reconnect attempts --------------------------------------------------------------------
        attempts = [e for e in st.ev if e[0] == "c"]
        if attempts and st.kind != "connect" and pre not in ("Reconnect", "Error"):
            V("reconnect-attempt-in:%s" % pre, "inner connect() was called during %s in state %s" % (st.brief(), pre))
        if st.kind == "tick" and pre in ("Reconnect", "Error"):
            m.rec_ticks += 1
            m.rec_attempts += len(attempts)
            if attempts:
                m.labels.add("reconnect-attempt-ok" if any(e[1] for e in attempts) else "reconnect-attempt-failed")
            if m.rec_ticks >= LIVENESS_TICKS and m.rec_attempts == 0 and not liveness_reported:
                liveness_reported = True
                V("no-reconnect-attempt", "%d consecutive ticks in Reconnect/Error since entering Reconnect without a "
                  "single reconnect attempt reaching the hardware" % m.rec_ticks)
        # -- state -----------------------------------------------------------------------------------
        if st.post not in acc:
            V("state:%s:%s:%s:got-%s:want-%s" % (pre, kc, lab, st.post, "|".join(sorted(acc))),
              "step %s at t=+%.1fs (event %s): decorator went %s -> %s, documented protocol allows %s"
              % (st.brief(), st.now / 1000.0, lab, pre, st.post, sorted(acc)))
            return out, m        # the model has lost track: stop judging this history
        m.advance(st, st.post)
        post = m.s
        # -- exceptions --------------------------------------------------------------------------------
        if st.kind == "connect":
            if lab == "connect-fail" and (st.exc is None or st.exc[0] != "HLE"):
                V("connect:failure-not-propagated", "inner connect() raised HardwareLayerException, decorator.connect() -> %r" % (st.exc,))
            if lab == "connect-ok" and st.exc is not None:
                V("connect:raised-on-success", "decorator.connect() raised %r although the inner connect succeeded" % (st.exc,))
        elif st.kind == "tick":
            if st.exc is not None:
                V("raised:tick:%s" % pre, "tick() raised %r in state %s" % (st.exc, pre))
        elif st.kind in RW:
            if pre in ("Error", "Disconnected"):
                if st.exc is None:
                    V("no-raise:%s:%s" % (pre, kc), "%s did not raise in state %s (returned %r)" % (st.brief(), pre, st.ret))
                elif st.exc[0] != "HLE":
                    V("wrong-exception:%s:%s" % (pre, st.exc[1]), "%s raised %r instead of HardwareLayerException" % (st.brief(), st.exc))
                else:
                    m.labels.add("raise-in:" + pre)
            else:
                if st.exc is not None:
                    # also the access that notices the expired error timeout (Reconnect -> Error) was issued in
                    # Reconnect and is masked: the state it leaves behind raises, the call itself does not
                    if pre == "Reconnect" and post == "Error":
                        m.labels.add("raise-on-error-transition")
                    V("raised:%s:%s:%s" % (pre, kc, st.exc[1] if st.exc[0] == "other" else "HardwareLayerException"),
                      "%s raised %r although errors are masked in state %s" % (st.brief(), st.exc, pre))
                elif st.kind in ("read", "read_batch"):
                    fresh = any(e[0] == "r" for e in st.ev)
                    want = [m.last_good.get(r) for r in st.regs]
                    got = st.ret if st.kind == "read_batch" else [st.ret]
                    if not fresh:
                        m.labels.add("masked-read:" + pre)
                        m.labels.add("masked-none" if any(r not in m.last_good for r in st.regs) else "masked-value")
                    if not isinstance(got, list) or len(got) != len(want) or any(not _same_read(g, w) for g, w in zip(got, want)):
                        V("read-value:%s:%s" % (pre, "fresh" if fresh else "masked"),
                          "%s returned %r, last values successfully read are %r" % (st.brief(), st.ret, dict(zip(st.regs, want))))
                else:
                    if not any(e[0] == "w" for e in st.ev):
                        m.labels.add("masked-write:" + pre if pre != "OK" or any(e[0] == "wfail" for e in st.ev) else "write-filtered")
        _judge_tag(V, post, st)
    return out, m


def _same_read(a, b) -> bool:
    return type(a) is type(b) and a == b


def _judge_tag(V, state, st: Step):
    want_disc = state in ("Disconnected", "Error")
    if (st.tag == "Disconnected") != want_disc or st.tag not in ("Disconnected", "Connected"):
        V("status-tag:%s:%s" % (state, st.tag), "after %s the state is %s but Connection Status reads %r" % (st.brief(), state, st.tag))


def nontrivial_of(m: RefModel) -> bool:
    vs = set(m.visited)
    return len(vs) >= 3 and bool(vs & {"Reconnect", "Error"})


def check_case(case) -> list[Violation]:
    if not valid_case(case):
        return []
    steps = execute(case)
    return judge(case, steps)[0]


# ------------------------------------------------------------------------------------------------
# generator
# ------------------------------------------------------------------------------------------------

# 1.5000001 differs from 1.5 by more than the documented float tolerance (must be written), 1.5000000001 by less
VALUE_W = [0, 1, 2, 3, 0, 1, 2, 0.5, 1.5, 2.0, 7.25, 1.5, 1.5000001, 1.5000000001, None, "a", "b"]
ADVANCES = [0, 0.1, 0.1, 1.3, 11, 11, 3600, 18001]
TICKS = [1, 1, 2, 5, 6, 6, 7, 21, 150]
FRAGS_C23 = (["cycle"] * 8 + ["read"] * 3 + ["read_batch"] * 2 + ["write"] * 3 + ["write_batch"] * 2 + ["set_input"] * 3
             + ["advance"] * 5 + ["tick"] * 4 + ["fail_read"] * 3 + ["fail_write"] * 3 + ["fail_connect"] * 2
             + ["outage_on"] * 2 + ["outage_off"] * 2 + ["to_reconnect"] * 3 + ["to_error"] * 2 + ["recover"] * 3 + ["connect"])

value_st = st.sampled_from(VALUE_W)


def _fragment(draw, kind: str, prev_cycle: list) -> list:
    if kind == "cycle":
        vals = [draw(value_st) if draw(st.booleans()) else prev_cycle[j] for j in range(len(WRITABLE))]
        prev_cycle[:] = vals
        return [["cycle", list(vals)]]
    if kind == "read":
        return [["read", draw(st.sampled_from(READABLE))]]
    if kind == "read_batch":
        return [["read_batch", draw(st.lists(st.sampled_from(READABLE), min_size=1, max_size=len(READABLE), unique=True))]]
    if kind == "write":
        return [["write", draw(st.sampled_from(WRITABLE)), draw(value_st)]]
    if kind == "write_batch":
        rs = draw(st.lists(st.sampled_from(WRITABLE), min_size=1, max_size=len(WRITABLE), unique=True))
        return [["write_batch", [[r, draw(value_st)] for r in rs]]]
    if kind == "set_input":
        return [["set_input", draw(st.sampled_from(READ_ONLY)), draw(st.sampled_from([0, 1, 2, 3, 4.5, "s", None]))]]
    if kind == "advance":
        return [["advance", draw(st.sampled_from(ADVANCES))]]
    if kind == "tick":
        return [["tick", draw(st.sampled_from(TICKS))]]
    if kind in ("fail_read", "fail_write", "fail_connect"):
        return [[kind, draw(st.booleans())]]
    if kind == "outage_on":
        return [["fail_read", True], ["fail_write", True], ["fail_connect", True]]
    if kind == "outage_off":
        return [["fail_read", False], ["fail_write", False], ["fail_connect", False]]
    if kind == "to_reconnect":
        which = draw(st.sampled_from(["read", "write", "cycle"]))
        flag = [["fail_read", True]] if which == "read" else ([["fail_write", True]] if which == "write" else [["fail_read", True], ["fail_write", True]])
        probe = {"read": ["read", "A"], "write": ["write", "X", draw(value_st)], "cycle": ["cycle", list(prev_cycle)]}[which]
        return flag + [probe, ["advance", draw(st.sampled_from([11, 11, 9.9, 10]))], probe]
    if kind == "to_error":
        probe = draw(st.sampled_from([["read", "Z"], ["write", "Y", 1], ["cycle", list(prev_cycle)], ["read_batch", ["A", "Z"]]]))
        return [["advance", draw(st.sampled_from([18001, 18001, 3600, 18000]))], probe]
    if kind == "recover":
        return [["fail_connect", False]] + ([["fail_read", False], ["fail_write", False]] if draw(st.booleans()) else []) \
            + [["tick", draw(st.sampled_from([6, 6, 21, 5]))]]
    if kind == "connect":
        return [["connect"]]
    raise AssertionError(kind)


@st.composite
def configs(draw, omv=None):
    return {
        "T_i": draw(st.sampled_from([10, 10, 10, 1, 0.5])),
        "T_e": draw(st.sampled_from([18000, 18000, 18000, 60, 2])),
        "omv": draw(st.booleans()) if omv is None else omv,
        "connected": draw(st.sampled_from([True, True, True, True, False])),
        "volatile": draw(st.sampled_from([False, False, True])),
    }


@st.composite
def cases(draw, max_ops: int, frags=FRAGS_C23):
    cfg = draw(configs())
    ops: list = []
    prev_cycle = [draw(value_st) for _ in WRITABLE]
    if not cfg["connected"] and draw(st.integers(0, 9)) > 0:
        ops.append(["connect"])
    n = draw(st.integers(1, max_ops))
    while len(ops) < n:
        ops.extend(_fragment(draw, draw(st.sampled_from(frags)), prev_cycle))
    return {"cfg": cfg, "ops": ops[:max_ops]}


def classes_of(case, m: RefModel, vs) -> list[str]:
    cl = set(m.labels)
    for s in set(m.visited):
        cl.add("visit:" + s)
    cl.add("states-visited:%d" % len(set(m.visited)))
    cl.add("len:%s" % ("<=10" if len(case["ops"]) <= 10 else ("<=40" if len(case["ops"]) <= 40 else ">40")))
    cl.add("cfg:omv" if case["cfg"]["omv"] else "cfg:write-all")
    if case["cfg"]["volatile"]:
        cl.add("cfg:volatile")
    if not case["cfg"]["connected"]:
        cl.add("cfg:start-disconnected")
    if case["cfg"]["T_i"] != 10 or case["cfg"]["T_e"] != 18000:
        cl.add("cfg:short-timeouts")
    return sorted(cl)



def run_chunks(col, cfg, strategy, body):
    """Spend cfg['per_shard'] examples in chunks so that an expired budget stops generation after at most one chunk
    (hyp_run keeps generating examples after expiry).  Chunk 0 uses the plain shard seed."""
    left, i = int(cfg["per_shard"]), 0
    chunk = int(cfg.get("chunk", 1250))
    while left > 0 and not col.expired():
        n = min(chunk, left)
        hyp_run(strategy, body, n, shard_seed(col.seed, col.shard) + 7919000 * i, col)
        left -= n
        i += 1


def run_shard(col, cfg):
    def body(case):
        if not valid_case(case):
            raise AssertionError("generator produced a case outside its own domain: %r" % (case,))
        steps = execute(case)
        vs, m = judge(case, steps)
        col.record(case, nontrivial_of(m), classes=classes_of(case, m, vs), violations=vs)

    run_chunks(col, cfg, cases(cfg["max_ops"]), body)
