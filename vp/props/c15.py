"""C15 — the run log is always producible and well-formed.

Statement (properties.jsonl): for any execution the run log can be produced.  Its items are ordered by start time and
have distinct ids, no item ends before it starts, and every completed, failed or cancelled item has an end time and is
neither cancellable nor forcible.  Every method instruction other than Stop, blank and comment lines that completed
appears as a completed item.

Domain  : executions of (a) the mixed campaign of vp.harness.dialects_h (three P-code dialects, injected snippets, user
          control commands, live edits, cancel/force requests on offered items, a UOD command whose exec function raises),
          cancel/force requests are also served while a tick is in its hardware read phase (the engine does not hold its lock
          there; the clock has moved on 0.03 s since the tick time was taken) - the single-threaded equivalent of a request thread,
          (b) the method x control-schedule scenarios of C08/C09 (vp.harness.ctrl_scen), (c) the block/clock scenarios of
          C07 (tick increments 0 .. 5 s).  Tracking.get_runlog() is sampled after EVERY tick of every case.
Oracle  : (P) producible     get_runlog() does not raise            runlog-raised:<exc>:<conclusive state>><state recorded after it>
                                                                     runlog-raised:<exc>:state-time-out-of-order
          (S) sorted         items ordered by start                  unsorted
          (I) ids            item ids pairwise distinct              duplicate-id:<names of the two items' instructions>
          (T) times          end is None or end >= start             ends-before-start
          (C) conclusive     state in completed|failed|cancelled =>  end set, not cancellable, not forcible
                                                                     conclusive:<state>:<no-end|cancellable|forcible joined by +>
                                                                     conclusive:command-instance-adopted-after-live-edit (flaw seen after an
                                                                     accepted live edit: consequence of the merge re-running the method)
                                                                     conclusive:booked-on-newer-invocation (an earlier invocation of the
                                                                     same line is still 'started')
          (F) completed      a method line with a unique payload (Mark, Quick, Set, Flow, Slow, Block, Notify as rendered by
                             the generator; recognised on the TEXT) that the method state reports executed and whose effect
                             the harness observed in the current run (Mark tag assignment, UOD exec+finalize callbacks,
                             block-start / notify event) has an item of that name in state completed
                                                                     completed-item-missing:<kind>
          (F) is judged within one run-log lifetime: it restarts at every Start/Stop/Restart and accepted method edit
          (the engine builds a new log); UOD command lines are skipped once something was cancelled/forced by request.
"""
from __future__ import annotations

import os

from hypothesis import strategies as st

from vp.core.framework import Violation, hyp_run, shard_seed
from vp.harness import dialects_h as D
from vp.harness import pcode_gen as G

ID = "C15"
LEVEL = "exploration"
ENGINE = "engine_harness"
DESIGN_REF = "DESIGN.md §3 C15"
TECHNIQUE = ("history invariants on Tracking.get_runlog() sampled after every tick of Hypothesis-generated campaigns "
             "(own mixed campaign + the C07 / C08-C09 scenario generators); completed items matched through unique payloads observed at the UOD/tag boundary")
RULE = ("a case = method lines + schedule (ticks, user commands, injects, edits, input changes, cancel/force of offered items); origins: "
        "mixed campaign (60 %), C08/C09 control scenarios (25 %), C07 clock scenarios (15 %). Non-trivial = some sampled run log had >= 5 items "
        "of >= 3 instruction kinds including an interrupt (Watch/Alarm) item or a cancelled/failed item. Distinct = distinct case JSON.")
ASSUMPTIONS = [
    "the run log of 'an execution' is the log of the current interpreter: Start, Stop, Restart and an accepted method edit begin a new log",
    "a UOD command whose exec function raises (Boom at once, Slow/OvA/OvB in a later iteration through the scripted 'fault' step) is part "
    "of 'any execution' (the engine handles it as a method error)",
    "(F) uses the engine's own report 'executed' as the premise 'completed' and the harness' observation of the effect as confirmation; "
    "lines outside the generator's payload grammar (hostile / broken text) carry no (F) expectation",
    "exceptions raised by inject_code, set_method, cancel_instruction, force_instruction themselves are outside the statement (counted)",
]
TIERS = {
    "quick": {"examples": int(os.environ.get("VERIF_C15_EXAMPLES", "12000")), "budget_s": 150},   # env: development aid for mutant runs
    "thorough": {"examples": int(os.environ.get("VERIF_C15_THOROUGH_EXAMPLES", "200000")), "budget_s": 1400, "deep": True},
}
CONCLUSIVE = ("completed", "failed", "cancelled")


# ---------------------------------------------------------------------------------------------------------------
# case sources
# ---------------------------------------------------------------------------------------------------------------

def _from_ctrl(case):
    from vp.harness import ctrl_scen as S
    lines = [[l.id, l.text] for l in S.render(case["tree"])]
    steps = [["tick"]] * int(case.get("pre_ticks", 0))
    if case.get("autostart", True):
        steps = steps + [["user", "Start"], ["tick"]]
    for s in case["steps"]:
        if s[0] == "tick":
            steps.append(["tick"])
        elif s[0] == "user" and s[1] in D.USER_OPS:
            steps.append(["user", s[1]])
    return {"method": lines, "steps": steps, "epilogue": "none", "mix": "ctrl_scen", "autostart": False, "inputs": {}}


def _from_c07(case):
    lines = [[l.id, l.text] for l in G.render(case["tree"])]
    steps = []
    for s in case["steps"]:
        if s[0] == "tick":
            steps.append(["tick", float(s[1])])
        elif s[0] == "user" and s[1] in D.USER_OPS:
            steps.append(["user", s[1]])
        elif s[0] == "fault" and s[1] == "inject-boom":
            steps.append(["inject", "Boom: x"])
        # other step kinds of that generator (hardware read/write faults) have no counterpart in this campaign: dropped
    return {"method": lines, "steps": steps, "epilogue": "none", "mix": "c07", "autostart": True, "inputs": {}}


@st.composite
def cases(draw, deep: bool = False):
    k = draw(st.integers(0, 19))
    if k < 12:
        c = draw(D.campaign(boom=True, deep=deep))
        c["epilogue"] = "none"
        return c
    if k < 17:
        from vp.harness import ctrl_scen as S
        return _from_ctrl(draw(S.cases(with_boom=True)))
    from vp.props import c07
    return _from_c07(draw(c07.cases()))


# ---------------------------------------------------------------------------------------------------------------
# oracle
# ---------------------------------------------------------------------------------------------------------------

def judge(case, c: D.Campaign, viol, info):
    epoch = None
    marks: set = set()
    blocks: set = set()
    notes: set = set()
    execs: dict = {}       # (name, args) -> count of exec callbacks
    inst_of: dict = {}     # (name, args) -> instance ids
    finalized: set = set()
    best = {"items": 0, "kinds": 0}
    for r in c.recs:
        if r.raised is not None:
            info["tick-raised"] = 1      # C13's business
            break
        if r.epoch != epoch:
            epoch, marks, blocks, notes, execs, inst_of, finalized = r.epoch, set(), set(), set(), {}, {}, set()
        for e in r.events:
            if e[1] == "mark":
                marks.add(e[2])
            elif e[1] == "block_start":
                blocks.add(e[2])
            elif e[1] == "notify":
                notes.add(e[2])
            elif e[1] == "cmd":
                if e[4] == "exec":
                    key = (e[2], str(e[5]))
                    execs[key] = execs.get(key, 0) + 1
                    inst_of.setdefault(key, set()).add(e[3])
                elif e[4] == "finalize":
                    finalized.add(e[3])
        if r.runlog_exc is not None:
            pat = "state-time-out-of-order" if "out of order" in str(r.runlog_exc) else r.runlog_pat
            viol("runlog-raised:%s:%s" % (type(r.runlog_exc).__name__, pat),
                 "tick %d: get_runlog() raised %r" % (r.no, r.runlog_exc))
            info["runlog-raised"] = 1
            continue
        items = r.runlog
        if items is None:
            continue
        # (S)
        for a, b in zip(items, items[1:]):
            if a[3] > b[3]:
                viol("unsorted", "tick %d: item %r (start %r) precedes item %r (start %r)" % (r.no, a[1], a[3], b[1], b[3]))
                break
        # (I)
        seen: dict = {}
        for it in items:
            if it[0] in seen:
                viol("duplicate-id:%s+%s" % tuple(sorted([seen[it[0]][1].split(":")[0], it[1].split(":")[0]])),
                     "tick %d: items %r (%s) and %r (%s) share the id %s" % (r.no, seen[it[0]][1], seen[it[0]][2], it[1], it[2], it[0]))
                break
            seen[it[0]] = it
        # (T) (C)
        for it in items:
            _id, name, state, start, end, cancellable, forcible, cancelled, forced = it
            if end is not None and end < start:
                viol("ends-before-start", "tick %d: item %r (%s) start %r end %r" % (r.no, name, state, start, end))
            if state in CONCLUSIVE:
                flaws = [w for w, bad in (("no-end", end is None), ("cancellable", cancellable), ("forcible", forcible)) if bad]
                if flaws:      # one signature per item state and combination of flaws (one root cause usually sets several)
                    older = [o for o in items if o[1] == name and o[0] != _id and o[2] not in CONCLUSIVE and o[3] < start]
                    sig = "conclusive:%s:%s" % (state, "+".join(flaws))
                    if older and "no-end" not in flaws:
                        # mechanism: an earlier invocation of the same instruction never concluded while this newer one is conclusive
                        # and goes on - the conclusive state of the earlier invocation was booked on the newer one
                        sig = "conclusive:booked-on-newer-invocation"
                    elif r.merged and "no-end" not in flaws:
                        # after an accepted live edit the method is run again from the top (recorded finding of the merge) while the
                        # commands of the pre-edit run keep executing: the re-issued line adopts the still running command instance,
                        # its completion concludes the new item, then the line's own command starts
                        sig = "conclusive:command-instance-adopted-after-live-edit"
                    viol(sig, "tick %d: item %r (id ..%s) is %s but %s"
                         % (r.no, name, _id[-4:], state, ", ".join({"no-end": "has no end time", "cancellable": "is still cancellable",
                                                                    "forcible": "is still forcible"}[w] for w in flaws)
                            + ("; an earlier invocation (id ..%s) never concluded" % older[0][0][-4:] if older else "")))
        # non-triviality
        kinds = {it[1].split(":")[0] for it in items}
        if len(items) >= 5 and len(kinds) >= 3 and (kinds & {"Watch", "Alarm"} or any(it[2] in ("failed", "cancelled") for it in items)):
            info["nontrivial"] = 1
        if any(it[2] == "cancelled" for it in items):
            info["has-cancelled-item"] = 1
        if any(it[2] == "failed" for it in items):
            info["has-failed-item"] = 1
        if kinds & {"Watch", "Alarm"}:
            info["has-interrupt-item"] = 1
        if any(it[7] for it in items) or any(it[8] for it in items):
            info["has-user-cancelled/forced-item"] = 1
        best["items"] = max(best["items"], len(items))
        # (F)
        if r.ms_exc is not None or not r.executed:
            continue
        texts = {l[0]: l[1] for l in r.lines}
        completed_names = {it[1] for it in items if it[2] == "completed"}
        for lid in r.executed:
            t = texts.get(lid)
            pe = D.payload_effect(t) if t is not None else None
            if pe is None:
                continue
            kind, payload, name = pe
            if kind == "mark":
                seen_effect = payload in marks
            elif kind == "block":
                seen_effect = payload in blocks
            elif kind == "notify":
                seen_effect = payload in notes
            else:
                if r.foreign:
                    continue
                cmd = name.split(":")[0]
                key = (cmd, payload)
                need = int(payload[0]) if kind == "slow" else 1
                seen_effect = execs.get(key, 0) >= max(1, need) and any(i in finalized for i in inst_of.get(key, ()))
            if not seen_effect:
                info["executed-without-observed-effect"] = 1
                continue
            info["F-judged"] = info.get("F-judged", 0) + 1
            if name not in completed_names:
                others = [(it[1], it[2]) for it in items if it[1] == name]
                viol("completed-item-missing:%s" % kind, "tick %d: line %r is reported executed and its effect was observed, but the run log has no "
                     "completed item %r (items of that name: %r)" % (r.no, t, name, others))
    info["max-items"] = best["items"]


def run_case(case):
    out: list[Violation] = []
    info: dict = {}

    def viol(sig, msg):
        if not any(v.sig == sig for v in out):
            out.append(Violation(sig, msg, case))

    c = D.Campaign(case, with_runlog=True)
    try:
        c.run_steps()
        judge(case, c, viol, info)
    finally:
        c.close()
    for k, v in c.info.items():
        if v:
            info["ops:" + k] = v
    return out, info, c


def check_case(case):
    if not D.valid(case):
        return []
    return run_case(case)[0]


def shrink_hints(case):
    m = case["method"]
    for i in range(len(m)):
        ind = D.split_indent(m[i][1])[0] or 0
        j = i + 1
        while j < len(m) and (D.split_indent(m[j][1])[0] or 0) > ind:
            j += 1
        if j > i + 1:
            c2 = dict(case)
            c2["method"] = m[:i] + m[j:]
            yield c2


def run_shard(col, cfg):
    deep = bool(cfg.get("deep"))

    def body(case):
        vs, info, c = run_case(case)
        classes = ["origin:" + case["mix"]]
        for k in info:
            if k in ("nontrivial", "has-cancelled-item", "has-failed-item", "has-interrupt-item", "has-user-cancelled/forced-item", "runlog-raised",
                     "tick-raised", "executed-without-observed-effect", "reissue-while-running", "fault-in-reissue-tick") or k.startswith("ops:"):
                classes.append(k)
        if info.get("F-judged"):
            classes.append("F-judged")
            col.count("F-judged-line-ticks", info["F-judged"])
        if info.get("max-items", 0) >= 10:
            classes.append("items>=10")
        col.count("ticks-sampled", len(c.recs))
        col.record(case, bool(info.get("nontrivial")), classes=classes, violations=vs,
                   sample={"method": [l[1] for l in case["method"]], "steps": [s for s in case["steps"] if s[0] != "tick"][:12],
                           "ticks": len(c.recs), "origin": case["mix"], "max_items": info.get("max-items", 0)})
    hyp_run(cases(deep=deep), body, max(1, cfg["examples"] // col.nshards), shard_seed(col.seed, col.shard), col)
