"""C02 -- method instructions run once each, in source order.

Domain : (blank/comment lines appear anywhere a user may type them: between a scope opener and its body, with their own
         indentation -- empty lines, comments further left than the scope -- never deeper than the body they sit in;
         1 in 10 methods with a macro contains "Block with a Watch that ends it + Call macro, then Call macro again")
         generated well-formed methods over Block / End block / End blocks, Watch, Alarm, Macro / Call macro,
         Wait, thresholds (Base: s), Mark, Notify, UOD commands of varying duration (Quick, Slow: n, Set, OvA/OvB),
         Info, blank and comment lines (also trailing, at scope ends and at the end of the method), blocks without
         a terminator of their own (ended from a Watch in their body or never) -- no live edit, no Restart/Stop/Pause.
         Inputs In1/In2/Temp follow a generated trajectory so Watch/Alarm conditions fire at generated ticks.
Oracle : history invariants over the global event order of one run (vp/harness/order_h.py), evaluated on two
         independent observation channels -- L: run-log states with tick numbers (plus the interpreter's command
         schedule calls and interrupt registrations), E: effects (Mark assignments, first exec of a UOD command
         instance, block start events, Notify events), each mapped to its source line by a unique payload:
  S1  a line starts at most once per invocation of its enclosing scope (method: once; Block body: per block start;
      Watch body: per registration; Alarm body: per activation; Macro body: per started Call macro);
  S2  siblings start in source order within one invocation;
  S3  a line starts only after the instruction before it at that level has started and -- where the language defines
      the end of an instruction (Mark, Block, Call macro, End block(s), Macro, Base, Notify) -- has its completed
      run-log state; after a Wait only when the Wait's duration has elapsed (one tick tolerance); after a command
      only that it was issued (completion of commands is counted, not judged); after Watch/Alarm only that it was
      registered;
  S4  a line starts only after its enclosing Block / Watch / Alarm activation / Call macro has started, a macro body
      line only while a call of that macro is in progress;
  S6  an invocation that is over has started its lines: when a Call macro completes, an Alarm or Watch body ends
      (scope end), every instruction line directly in that body has started during the invocation -- unless a block
      ended during (or in the tick before) the invocation, which may cut it short, or calls of the macro overlap;
      a Call macro that completes without ever getting a `started` state (and had no call in progress to join) is
      judged the same way;
  S7  bounded response inside repeated bodies, the bound taken from the run itself: a line of an Alarm / Macro body (also
      inside a Block of that body) which an earlier invocation started `lat` ticks after its reference point (instruction
      before it completed -- commands/Watch/Alarm: started --, or its scope started) and which, in the latest invocation,
      has that reference point behind it, must have started lat + 3 ticks later if its scope is still open and no block
      ended since (`invocation-stalled:<alarm|macro>`); lines with thresholds and Block lines (lock) are not judged;
  S5  blank/comment lines after the last instruction of the method are never reported executed (= passed) by the
      method state at any tick end (being reported `started` for the one tick of their first visit is counted, not
      judged); follow-up on interrupt-free methods (one live edit at the end of the run): a `Mark: zz` appended below
      them, in the scope of the last instruction, runs exactly once -- given the interpreter was parked at the first
      trailing line and that scope was still open.  (The current merge re-runs the method from the top, which is C01's
      subject; the follow-up therefore allows a complete re-run before it expects `zz`.)
Per case only the FIRST violation in event order is reported (later ones are cascades of an undefined interpreter
state).  Lines in blocks that have ended are C05's subject and are skipped here.  Violations on lines that are, or lie
inside, a Watch/Alarm declared in a body that runs repeatedly (Alarm / Macro body) share one signature
(`interrupt-in-repeated-body:once-and-in-order`): the re-arming Alarm resets the run-time state of the nested interrupt
while its handler of the previous invocation is still alive (re-registration, body executed by two handlers, skipped
Watch).  Effect-channel duplicates of a command with ONE instance id are reported as `engine-restarted-command-instance`
(the interpreter issued the command once; the command manager re-created a cancelled command).
"""
from __future__ import annotations

from vp.core.framework import Violation, hyp_run, shard_seed
from vp.harness import order_h as O
from vp.harness import pcode_gen as G

ID = "C02"
LEVEL = "exploration"
ENGINE = "engine_harness"
TECHNIQUE = ("Hypothesis-generated P-code programs x input trajectories on the real engine (virtual clock); history "
             "invariants on the global order of run-log states and of effects (two channels), plus an append follow-up")
RULE = ("Hypothesis draws a program tree (pcode_gen grammar + unterminated blocks + trailing blank/comment lines), an "
        "input trajectory and start values; the method runs for a fixed number of ticks. Non-trivial = the run started "
        "lines at >= 2 nesting levels below the method (e.g. inside a block inside a block / a watch body inside a "
        "block) or executed >= 1 interrupt body (Watch/Alarm activation). Distinct = distinct (tree, trajectory, init).")
ASSUMPTIONS = [
    "'starts' is observed as the run-log state `started` of the line (commands: the interpreter's schedule call; "
    "Watch/Alarm: the registration event) and, independently, as the line's first external effect",
    "'completed' is required of the predecessor only where the language defines it (Mark, Block, Call macro, End block(s), "
    "Macro, Base, Notify, Wait by elapsed time); for command lines only that the command was issued (DESIGN section 4)",
    "'blank and comment lines at the end of a scope' is read as the pinned contract of WhitespaceCheckAnalyzer: lines after "
    "which no instruction follows in the method; blank/comment lines at the end of an inner scope that is followed by "
    "further instructions are counted (class inner-ws-passed), not judged",
    "methods whose run hits a method error (e.g. a Watch calling a macro before its definition has executed) are judged up "
    "to the tick before the error only",
    "lines inside a macro that is called while another call of the same macro is still in progress are not judged "
    "(class macro-concurrent-call): the statement does not say how overlapping invocations share the body",
]
TIERS = {"quick": {"examples": 3200, "ticks": 110, "budget_s": 150, "depth": 3, "max_top": 8},
         "thorough": {"examples": 80000, "ticks": 220, "budget_s": 840, "depth": 4, "max_top": 12}}


def gen_cfg(depth: int, max_top: int) -> G.GenCfg:
    return G.GenCfg(kinds={"mark": 6, "quick": 2, "slow": 2, "set": 1, "ova": 1, "ovb": 1, "wait": 2, "notify": 1, "info": 1,
                           "block": 4, "watch": 3, "alarm": 2, "macro": 3, "callmacro": 4, "blank": 1, "comment": 1,
                           "endblock": 1},
                    max_depth=depth, max_top=max_top, max_children=4, thresholds=True, threshold_max=1.5, wait_max=1.5,
                    base_first="s", trailing_ws=True)


def run_case(case):
    tr = O.run_trace(case, follow_up=True)
    v2, _v5, info = O.analyse(tr)
    if not v2 and tr.second is not None:
        # the same rules in the second run of the method (after Restart / Stop + Start); same signatures, the message says which run
        v2b, _v5b, info2 = O.analyse(tr.second)
        v2 = [(s, "[run 2 after %s] %s" % (tr.second_how, m)) for s, m in v2b]
        info["classes"] = set(info["classes"]) | {"second-run:" + tr.second_how} | \
            ({"second-run:trailing-ws-at-method-end"} if tr.prog.trailing_ws else set())
    return [Violation(s, m, case) for s, m in v2], info, tr


def check_case(case):
    if not O.valid_case(case):
        return []
    return run_case(case)[0]


def _classes(case, info, tr):
    prog = tr.prog
    cl = set(info["classes"])
    kinds = G.count_kinds(case["tree"])
    depth_started = 0
    started = {e[2] for e in tr.events if e[1] == "rt" and e[3] == "started" and e[2] in prog.byid}
    for lid in started:
        depth_started = max(depth_started, len(prog.anc[lid]))
    if depth_started >= 2:
        cl.add("started-depth>=2")
    if depth_started >= 3:
        cl.add("started-depth>=3")
    if info["interrupt_bodies"]:
        cl.add("interrupt-body-ran")
    if info["alarm_reruns"]:
        cl.add("alarm-body-ran-repeatedly")
    if info["macro_calls"] >= 2:
        cl.add("macro-called>=2")
    elif info["macro_calls"] == 1:
        cl.add("macro-called-once")
    if info["blocks_from_interrupt"]:
        cl.add("block-started-from-interrupt")
    if prog.trailing_ws:
        cl.add("trailing-ws-at-method-end")
        if any(prog.byid[w].depth > 0 for w in prog.trailing_ws):
            cl.add("trailing-ws-in-open-scope")
    for i, l in enumerate(prog.lines[:-1]):
        nx = prog.lines[i + 1]
        if l.kind in O.CONTAINERS and nx.kind in O.WS:
            cl.add("ws-between-opener-and-body")
            if l.depth >= 1 and (len(nx.text) - len(nx.text.lstrip(" ")) if nx.text.strip() else len(nx.text)) < 4 * l.depth:
                cl.add("ws-left-of-a-nested-opener-before-its-body")
    nstart: dict = {}
    for e in tr.events:
        if e[1] == "block_start" and e[2] in prog.block:
            nstart[prog.block[e[2]]] = nstart.get(prog.block[e[2]], 0) + 1
    for b, k in nstart.items():
        rep = prog.repeater(b)
        if rep and k >= 2:
            cl.add("block-in-%s-body-ran>=2-times" % rep)
    if any(l.kind in O.WS and (l.node or {}).get("wsi") is not None for l in prog.lines):
        cl.add("ws-with-own-indentation")
    if info["inner_ws_passed"]:
        cl.add("inner-ws-passed")
    if info["cmd_succ_before_completion"]:
        cl.add("successor-started-before-command-completed")
    if any(l.node and l.node.get("t") is not None for l in prog.lines):
        cl.add("has-threshold")
    if kinds.get("wait"):
        cl.add("has-wait")
    if tr.aborted:
        cl.add("aborted:" + tr.aborted.split(":")[0])
    if any(l.kind == "block" and not (l.node or {}).get("end") for l in prog.lines):
        cl.add("unterminated-block")
    nontrivial = depth_started >= 2 or info["interrupt_bodies"] > 0
    return nontrivial, sorted(cl)


def run_shard(col, cfg):
    gcfg = gen_cfg(int(cfg.get("depth", 3)), int(cfg.get("max_top", 8)))

    def body(case):
        vs, info, tr = run_case(case)
        nontrivial, classes = _classes(case, info, tr)
        if case.get("excluded_nested"):
            classes = classes + ["excluded_known:interrupt-in-repeated-body"]
        col.record(case, nontrivial, classes=classes, violations=vs,
                   sample={"method": G.text_of(tr.prog.lines), "traj": case["traj"], "init": case["init"], "ticks": case["ticks"]})
    hyp_run(O.cases(gcfg, int(cfg["ticks"])), body, max(1, int(cfg["examples"]) // col.nshards), shard_seed(col.seed, col.shard), col)
