"""C37 — the active-user list tracks live connections.

Case    : {"ops": [...]} — frontend operations against two registered process units E1, E2:
            {"op":"fe_connect","conn":c}                a browser tab opens its pub/sub websocket (fresh id)
            {"op":"fe_subscribe","conn":c,"user":u}     the tab subscribes its dead-man-switch topic `dead_man_switch/<u>`
            {"op":"fe_register","engine":E,"user":u}    POST register_active_user   (details page opened)
            {"op":"fe_unregister","engine":E,"user":u}  POST unregister_active_user (details page left)
            {"op":"fe_disconnect","conn":c}             the websocket closes
          executed by vp.harness.agg_h on the real FromFrontend / FrontendPublisher / PubSubEndpoint / RpcChannel /
          router functions.
Model   : DESIGN A.5.  live[c] = user for subscribed open connections, registered[unit] = set(user).
          subscribe binds, register adds, unregister removes, disconnect unbinds and — if it was the user's last
          live connection — removes the user from every unit.
Oracle  : after every operation, for both units and every user that is not exempt:
            listed but not in registered[unit]   -> stale-user:<cause>
            in registered[unit] but not listed   -> dropped-live-user:<cause>
          reported at the operation where model and implementation start to differ (one report per divergence).
Not judged (counted): users that registered while they had no live subscribed connection (the statement does not say
          whether such a registration counts) until they are unregistered or lose a last connection; the KeyError the
          disconnect of a never-subscribed connection raises inside on_ws_disconnect.
"""
from __future__ import annotations

import re

from hypothesis import strategies as st

from vp.core.framework import Violation, hyp_run, shard_seed
from vp.harness.agg_h import AggHarness

ID = "C37"
LEVEL = "exploration"
ENGINE = "aggregator_harness"
DESIGN_REF = "DESIGN.md §3 C37, Appendix A.5"
TECHNIQUE = "model-based testing: generated subscribe/register/unregister/disconnect histories on the real FromFrontend + pub/sub endpoint against a connection/registration model, compared after every operation"
RULE = ("Hypothesis builds histories of 8-40 frontend operations over 3 users, 2 units and fresh connection ids "
        "(stateful generator: mostly valid operations, some on closed/never-subscribed connections). Non-trivial = "
        "some user subscribed >= 2 connections (overlapping or one after the other), closed all of them and was registered "
        "on a unit when the last one closed. Distinct = distinct operation list.")
ASSUMPTIONS = [
    "a connection id is never reused after it closed (real ids are fresh uuids) and one connection subscribes the dead man switch of one user only (one browser tab = one user)",
    "both directions are judged: listed => registered with a live connection (statement), registered with a live connection => listed ('tracks'); they have different signatures",
    "a registration made while the user has no live subscribed connection is exempt from judgement until the user is unregistered or closes a last connection",
    "the KeyError raised by FromFrontend.on_ws_disconnect for a connection that never subscribed a dead man switch is counted (class disconnect-unsubscribed-keyerror), not judged",
    "engines stay registered for the whole history (no engine disconnect in this property)",
]
TIERS = {
    "quick": {"cases": 6000, "budget_s": 170},
    "thorough": {"cases": 400000, "budget_s": 800},
}

UNITS = ["E1", "E2"]
USERS = ["u1", "u2", "u3"]
_USER_RE = re.compile(r"^u[0-9]+$")
OTHER_TOPICS = ["process_units", "E1/run_log", "E1/control_state", "E2/active_users", "E1/error_log"]   # topic strings the frontend also subscribes (not dead-man-switch topics)


# ---- oracle ------------------------------------------------------------------------------------------

def _run(case):
    """-> (violations, classes, nontrivial)"""
    out: list[Violation] = []
    classes: set[str] = set()
    ops = case.get("ops") if isinstance(case, dict) else None
    if not isinstance(ops, list):
        return out, classes, False
    live: dict[str, str] = {}                    # open + subscribed connection -> user
    registered = {u: set() for u in UNITS}
    exempt: set[tuple[str, str]] = set()
    subscribed_total: dict[str, int] = {}        # user -> number of distinct connections that ever subscribed
    divergent: set[tuple[str, str]] = set()
    nontrivial = False
    with AggHarness() as h:
        for u in UNITS:
            h.register(u)
            h.connect(u)
        for idx, op in enumerate(ops):
            if not isinstance(op, dict):
                continue
            kind = op.get("op")
            conn, user, unit = op.get("conn"), op.get("user"), op.get("engine")
            cause = str(kind)
            # ---- domain filter (never executed when outside) --------------------------------------
            if kind == "fe_connect":
                if not isinstance(conn, str) or not conn:
                    continue
            elif kind == "fe_subscribe":
                if not (isinstance(conn, str) and isinstance(user, str) and _USER_RE.match(user)) or "topics" in op:
                    continue
                if not all(isinstance(op.get(k, []), list) and all(t in OTHER_TOPICS for t in op.get(k, [])) for k in ("before", "after")):
                    continue
                if conn in live and live[conn] != user:
                    classes.add("skipped:second-user-on-connection")
                    continue
            elif kind == "fe_disconnect":
                if not isinstance(conn, str):
                    continue
            elif kind in ("fe_register", "fe_unregister"):
                if unit not in UNITS or not (isinstance(user, str) and _USER_RE.match(user)):
                    continue
            else:
                continue
            if kind == "fe_subscribe" and (op.get("before") or op.get("after")):
                # one subscribe request that lists further topics around the dead-man-switch topic (what the frontend's
                # pubsub client sends when it re-subscribes all its topics after a websocket reconnect)
                classes.add("multi-topic-subscribe" + (":other-topic-first" if op.get("before") else ""))
                res = h.apply({"op": "fe_subscribe", "conn": conn,
                               "topics": list(op.get("before", [])) + [h.dead_man_topic(user)] + list(op.get("after", []))})
            else:
                res = h.apply(op)
            if res["skipped"] is not None:
                classes.add("skipped:" + res["skipped"])
                continue
            # ---- model ------------------------------------------------------------------------------
            if kind == "fe_subscribe":
                if conn in live:
                    classes.add("dup-subscribe")
                else:
                    live[conn] = user
                    subscribed_total[user] = subscribed_total.get(user, 0) + 1
                    if sum(1 for v in live.values() if v == user) >= 2:
                        classes.add("overlapping-connections")
                    elif subscribed_total[user] >= 2:
                        classes.add("sequential-reconnect")
            elif kind == "fe_register":
                if res.get("reply") != "ServerSuccessResponse":
                    out.append(Violation("register-refused", "op %d %r answered %r" % (idx, op, res), case))
                    continue
                if user not in live.values() and user not in registered[unit]:
                    exempt.add((unit, user))
                    classes.add("register-without-connection")
                registered[unit].add(user)
            elif kind == "fe_unregister":
                classes.add("unregister")
                registered[unit].discard(user)
                exempt.discard((unit, user))
            elif kind == "fe_disconnect":
                if conn not in live:
                    classes.add("disconnect-unsubscribed")
                    if res.get("error"):
                        classes.add("disconnect-unsubscribed-keyerror")
                    cause = "disconnect-unsubscribed"
                else:
                    if res.get("error"):
                        out.append(Violation("disconnect-raises", "op %d %r raised %s" % (idx, op, res["error"]), case))
                    u = live.pop(conn)
                    if u in live.values():
                        cause = "disconnect-with-other-connection"
                        classes.add("disconnect-with-other-connection")
                    else:
                        was_registered = any(u in registered[x] for x in UNITS)
                        cause = "last-disconnect:" + ("after-earlier-connection" if subscribed_total[u] >= 2 else "only-connection")
                        classes.add("last-disconnect")
                        if was_registered:
                            classes.add("last-disconnect-while-registered")
                            if subscribed_total[u] >= 2:
                                nontrivial = True
                        for x in UNITS:
                            registered[x].discard(u)
                            exempt.discard((x, u))
            # ---- compare ------------------------------------------------------------------------------
            for x in UNITS:
                listed = h.active_users(x)
                if listed is None:
                    out.append(Violation("unit-vanished", "unit %s has no engine data after op %d" % (x, idx), case))
                    continue
                for u in sorted(set(listed) | registered[x]):
                    if (x, u) in exempt:
                        continue
                    has, want = u in listed, u in registered[x]
                    if has == want:
                        divergent.discard((x, u))
                        continue
                    if (x, u) in divergent:
                        continue
                    divergent.add((x, u))
                    if has:
                        out.append(Violation("stale-user:" + cause,
                                             "after op %d %r user %s is still listed on %s (listed=%s) but the model has registered=%s, live connections=%s"
                                             % (idx, op, u, x, listed, sorted(registered[x]), sorted(live.items())), case))
                    else:
                        out.append(Violation("dropped-live-user:" + cause,
                                             "after op %d %r user %s is registered on %s with live connections %s but listed=%s"
                                             % (idx, op, u, x, sorted(c for c, v in live.items() if v == u), listed), case))
    if subscribed_total and max(subscribed_total.values()) >= 2:
        classes.add("user-with-2+-connections")
    return out, classes, nontrivial


def check_case(case) -> list[Violation]:
    return _run(case)[0]


# ---- generator -----------------------------------------------------------------------------------------

@st.composite
def histories(draw):
    n = draw(st.integers(8, 40))
    ops: list[dict] = []
    serial = 0
    open_conns: list[str] = []       # open, in creation order
    bound: dict[str, str] = {}       # open + subscribed
    closed: list[str] = []
    reg = {u: [] for u in UNITS}
    # bias: one "focus" user gets most of the traffic so that multi-connection stories are common
    focus = draw(st.sampled_from(USERS))
    user_st = st.one_of(st.just(focus), st.sampled_from(USERS))
    def sub(c, u):
        o = {"op": "fe_subscribe", "conn": c, "user": u}
        k = draw(st.integers(0, 5))
        if k == 0:
            o["before"] = draw(st.lists(st.sampled_from(OTHER_TOPICS), min_size=1, max_size=2, unique=True))
        if k in (0, 1) and draw(st.booleans()):
            o["after"] = draw(st.lists(st.sampled_from(OTHER_TOPICS), min_size=1, max_size=2, unique=True))
        return o

    while len(ops) < n:
        choice = draw(st.sampled_from(["open", "open", "subscribe", "register", "register", "unregister", "close", "close", "close",
                                       "odd"]))
        if choice == "open":
            serial += 1
            c = "c%d" % serial
            ops.append({"op": "fe_connect", "conn": c})
            open_conns.append(c)
            if draw(st.integers(0, 9)) < 8:
                u = draw(user_st)
                ops.append(sub(c, u))
                bound[c] = u
        elif choice == "subscribe":
            cands = [c for c in open_conns if c not in bound]
            if cands:
                c = draw(st.sampled_from(cands))
                u = draw(user_st)
                ops.append(sub(c, u))
                bound[c] = u
            elif bound and draw(st.booleans()):
                c = draw(st.sampled_from(sorted(bound)))
                ops.append({"op": "fe_subscribe", "conn": c, "user": bound[c]})      # duplicate subscribe, same user
        elif choice == "register":
            live_users = sorted(set(bound.values()))
            u = draw(st.sampled_from(live_users)) if live_users and draw(st.integers(0, 9)) < 9 else draw(user_st)
            x = draw(st.sampled_from(UNITS))
            ops.append({"op": "fe_register", "engine": x, "user": u})
            if u not in reg[x]:
                reg[x].append(u)
        elif choice == "unregister":
            x = draw(st.sampled_from(UNITS))
            if reg[x] and draw(st.integers(0, 9)) < 8:
                u = draw(st.sampled_from(reg[x]))
                reg[x].remove(u)
            else:
                u = draw(user_st)
            ops.append({"op": "fe_unregister", "engine": x, "user": u})
        elif choice == "close":
            if open_conns:
                c = draw(st.sampled_from(open_conns))
                open_conns.remove(c)
                u = bound.pop(c, None)
                closed.append(c)
                ops.append({"op": "fe_disconnect", "conn": c})
                if u is not None and u not in bound.values():
                    for x in UNITS:
                        if u in reg[x]:
                            reg[x].remove(u)
        else:   # operations on connections that are gone (skipped by the harness, as a real peer cannot do them)
            if closed:
                c = draw(st.sampled_from(closed))
                ops.append(draw(st.sampled_from([{"op": "fe_disconnect", "conn": c},
                                                 {"op": "fe_subscribe", "conn": c, "user": focus}])))
    return {"ops": ops}


def run_shard(col, cfg):
    per_shard = max(1, cfg["cases"] // col.nshards)

    def body(case):
        vs, classes, nontrivial = _run(case)
        classes.add("ops:%s" % ("<=15" if len(case["ops"]) <= 15 else "<=30" if len(case["ops"]) <= 30 else ">30"))
        col.record(case, nontrivial, classes=sorted(classes), violations=vs)

    hyp_run(histories(), body, per_shard, shard_seed(col.seed, col.shard), col)


def shrink_hints(case):
    """rename connections/users to canonical small names is not needed; try dropping the second unit's traffic"""
    ops = case.get("ops", [])
    for x in UNITS:
        cand = [o for o in ops if o.get("engine", x) == x]
        if len(cand) < len(ops):
            yield {"ops": cand}
