"""C28 — a run survives engine reconnects and aggregator restarts (fault enumeration).

Case    : {"db": "memory"|"file", "interval": D, "readings": [...], "ops": [...]} — operations of vp.harness.agg_h for
          one engine E1: the story of 1-2 sequential runs (register, connect, UodInfo, snapshot, RunStarted r, tag
          batches, RunStopped r, ...) with fault blocks inserted:
            reconnect          disconnect, register, connect, UodInfo[, run-less snapshot]
            graceful restart   restart(graceful) = Aggregator.shutdown() + dispatcher.shutdown(), then the connect block
            drained restart    disconnect (uvicorn closes the sockets first), restart(graceful), connect block
            abrupt restart     restart(abrupt): new Aggregator/dispatcher/handlers on the same database, nothing stored
          For every generated story EVERY insertion position is enumerated for every fault kind (single faults), plus
          sampled pairs of faults.  Tag batches of a run are spaced by more than the data-log interval and carry one tick
          time, so each of them is due under any reading of the throttle.
Domain  : check_case executes only histories an EngineRunner can produce: after a fault nothing but register/connect is
          sent until the engine is connected and has sent UodInfo; run notifications follow story order (C30 covers
          duplicates/reordering); run-tagged batches only for the engine's current run.  Other operations are skipped.
Oracle  : engine truth `cur` = run started and not yet stopped by the engine.
            lost-run:<faults>          engine registered, cur = r, but the aggregator has no active run
            wrong-run:<faults>         ... the aggregator's active run is another id
            unrecorded-data:<faults>   a delivered (Success) batch of run r left no new row (tag, value) under a plot log of r
            data-in-wrong-run:<faults> the new row is under a plot log of another run id
            run-not-stored:<faults>    RunStopped(r) delivered (Success) but no RecentRun(r)
            run-stored-twice:<faults>  more than one RecentRun(r) at any time
            plotlogs!=1:<faults>       r has not exactly one PlotLog after its RunStarted was accepted
          <faults> = the fault kinds since the run started ("none", "reconnect", "graceful-restart", "reconnect+graceful-restart",
          ...); any set containing an abrupt restart is labelled "abrupt-restart" only, so that a finding there cannot
          mask the graceful paths.  Consequences of a run already reported lost are not reported again.
"""
from __future__ import annotations

from hypothesis import strategies as st

from vp.core.framework import Violation, hyp_run, shard_seed
from vp.harness.agg_h import AggHarness

ID = "C28"
LEVEL = "fault_enumeration"
ENGINE = "aggregator_harness"
DESIGN_REF = "DESIGN.md §3 C28"
TECHNIQUE = "fault enumeration: for generated run stories every insertion point x {engine reconnect, graceful restart, drained restart, abrupt restart} (+ sampled fault pairs) replayed on the real aggregator/dispatcher/handlers with sqlite, database and engine data inspected after every message"
RULE = ("Hypothesis draws a story (interval, 1-3 readings, 1-2 runs, 1-4 tag batches per run, optional idle traffic); every position "
        "after the first connect block x 4 fault kinds is enumerated as a single-fault case, plus up to 12 sampled fault pairs per "
        "story; ~4 % of restart cases run on a sqlite file that is re-opened by the restart. Non-trivial = at least one fault "
        "strictly between an accepted RunStarted and the RunStopped of that run. Distinct = distinct case.")
ASSUMPTIONS = [
    "after a lost connection or an aggregator restart the engine re-registers, reconnects and sends UodInfo before anything else (EngineRunner._on_connection_established)",
    "messages the engine produced while disconnected are delivered after the reconnect in their original order; the history lists them there",
    "tag batches of a run are more than one data-log interval apart and later than everything sent before, so each is due for persistence under any reading of the throttle",
    "an abrupt restart models a crashed aggregator process (no shutdown hook ran); the statement's 'the aggregator restarts' is taken to include it, reported under its own signature label",
    "a graceful restart is Aggregator.shutdown() + AggregatorDispatcher.shutdown() (AggregatorServer.lifespan); the drained variant closes the engine sockets first as uvicorn does",
]
TIERS = {
    "quick": {"stories": 96, "budget_s": 170},
    "thorough": {"stories": 4000, "budget_s": 850},
}
T0 = AggHarness.T0
E = "E1"
FAULTS = ["reconnect", "graceful", "drained", "abrupt", "reconnect-dbfail", "reconnect-slowpush"]
# The engine reports its System State as an ordinary tag.  The RunStarted notification precedes the tag update that carries
# "Running" (EngineRunner posts RunStartedMsg from the on_start event, the state change travels with the next tag batch),
# so for a moment the aggregator knows the run while the last System State it has seen is still "Stopped".
SYS = "System State"
SYS_VALUES = ("Stopped", "Running", "Paused", "Holding")


def _num(x):
    return isinstance(x, (int, float)) and not isinstance(x, bool) and x == x and abs(x) != float("inf")


def _label(faults: list[str]) -> str:
    if not faults:
        return "none"
    if "abrupt-restart" in faults:
        return "abrupt-restart"
    return "+".join(sorted(set(faults), key=["reconnect", "graceful-restart"].index))


# ---- oracle ---------------------------------------------------------------------------------------------

def _run(case):
    out: list[Violation] = []
    classes: set[str] = set()
    if not isinstance(case, dict):
        return out, classes, False
    interval, readings, ops, db = case.get("interval"), case.get("readings"), case.get("ops"), case.get("db", "memory")
    if not (_num(interval) and interval >= 0 and isinstance(readings, list) and isinstance(ops, list) and db in ("memory", "file")
            and all(isinstance(r, str) and r for r in readings)):
        return out, classes, False
    cur = None                    # engine truth: active run
    fault_log: list[str] = []     # every fault kind so far, in order
    mark_start: dict[str, int] = {}   # run -> len(fault_log) when its RunStarted was accepted
    mark_idle = 0                 # len(fault_log) when the last run stopped
    finished: dict[str, str] = {} # run -> fault label at its stop
    accepted: set[str] = set()
    lost: set[str] = set()
    uod_sent = False
    last_t = None
    nontrivial = False
    seen_rows = 0
    emitted: set[str] = set()
    release_push = None

    def emit(sig, msg):
        if sig not in emitted:
            emitted.add(sig)
            out.append(Violation(sig, msg, case))

    with AggHarness(db=db) as h:
        def check_counts(idx, op):
            rr = {}
            for r in h.recent_runs():
                rr[r["run_id"]] = rr.get(r["run_id"], 0) + 1
            for rid in sorted(rr):
                if rr[rid] > 1:
                    lab = _label(fault_log[mark_start.get(rid, 0):])
                    emit("run-stored-twice:" + lab, "after op %d %r run %s has %d RecentRun rows (engine's current run: %r, aggregator's active run: %r)"
                         % (idx, op, rid, rr[rid], cur, h.active_run(E)))
            return rr

        for idx, op in enumerate(ops):
            if not isinstance(op, dict):
                continue
            kind = op.get("op")
            connected = h.is_connected(E)
            # ---- domain filter ------------------------------------------------------------------------
            if kind in ("register", "connect", "disconnect"):
                pass
            elif kind == "restart":
                if not isinstance(op.get("graceful"), bool):
                    continue
            elif kind == "uod_info":
                if not connected:
                    continue
            elif kind in ("tags", "run_started", "run_stopped"):
                if not connected or not uod_sent:
                    classes.add("skipped:not-ready")
                    continue
                if kind == "run_started" and not (cur is None and isinstance(op.get("run"), str) and op["run"] and op["run"] not in accepted
                                                  and op["run"] not in finished and _num(op.get("t"))):
                    continue
                if kind == "run_stopped" and not (cur is not None and op.get("run") == cur):
                    continue
                if kind == "tags":
                    tags = op.get("tags")
                    if op.get("run") != cur and op.get("run") is not None:
                        continue
                    if not (isinstance(tags, list) and tags and all(isinstance(t, list) and len(t) == 3 and isinstance(t[0], str) and t[0]
                                                                    and (_num(t[1]) or (t[0] == SYS and t[1] in SYS_VALUES)) and _num(t[2]) for t in tags)):
                        continue
                    if any(t[0] == SYS for t in tags):
                        classes.add("has:system-state-tag")
                    if op.get("run") is not None:
                        ts = {t[2] for t in tags}
                        if len(ts) != 1 or (last_t is not None and not (tags[0][2] - last_t > interval)):
                            classes.add("skipped:batch-not-due")
                            continue
            else:
                continue
            op = dict(op, engine=E)
            if kind == "uod_info":      # always the case's own readings/interval (the oracle relies on them)
                op = {"op": "uod_info", "engine": E, "readings": readings, "interval": interval, "annotate": ["Mark"]}
            run_faults = fault_log[mark_start[cur]:] if cur is not None else []
            idle_faults = fault_log[mark_idle:]
            if kind == "disconnect" and op.get("db_fault") is True and connected:
                res = _disconnect_with_failing_db_write(h, op, classes)
            elif kind == "disconnect" and op.get("slow_push") is True and connected:
                res, release_push = _disconnect_with_slow_push(h, classes)
            else:
                res = h.apply(op)
                if release_push is not None and kind == "register":
                    release_push()          # the push service answers after the engine has registered again
                    release_push = None
            if res["skipped"] is not None:
                classes.add("skipped:" + res["skipped"])
                continue
            # ---- model ------------------------------------------------------------------------------------
            if kind == "disconnect":
                uod_sent = False
                fault_log.append("reconnect")
                nontrivial |= cur is not None
            elif kind == "restart":
                uod_sent = False
                f = "graceful-restart" if op["graceful"] else "abrupt-restart"
                fault_log.append(f)
                classes.add("fault:" + f + (":engine-offline" if not connected else ""))
                nontrivial |= cur is not None
            elif kind == "uod_info":
                uod_sent = res.get("reply") == "SuccessMessage"
                if not uod_sent:
                    # the engine has registered and connected as the protocol demands; an aggregator that does not know it
                    # any more cannot continue its run (everything the engine sends from here on is refused)
                    emit("uod-info-refused:" + _label(run_faults if cur is not None else idle_faults),
                         "op %d %r answered %r although the engine registered and connected before (engine's current run: %r; "
                         "aggregator knows the engine: %r)" % (idx, op, res.get("reply"), cur, h.engine_data(E) is not None))
            elif kind == "run_started":
                if res.get("reply") == "SuccessMessage":
                    cur = op["run"]
                    accepted.add(cur)
                    mark_start[cur] = len(fault_log)
                    n = len([p for p in h.plot_logs() if p["run_id"] == cur])
                    if n != 1:
                        emit("plotlogs!=1:" + _label(idle_faults), "op %d %r: run has %d PlotLog rows right after its RunStarted" % (idx, op, n))
                else:
                    emit("run-started-refused:" + _label(idle_faults), "op %d %r answered %r (aggregator's active run: %r)" % (idx, op, res.get("reply"), h.active_run(E)))
            elif kind == "tags":
                if op.get("run") is not None or cur is None:      # run-less updates during a run are dropped by the aggregator
                    for t in op["tags"]:
                        last_t = t[2] if last_t is None else max(last_t, t[2])
                rows = h.plot_rows()
                new = rows[seen_rows:]
                seen_rows = len(rows)
                if op.get("run") is not None and cur is not None and cur not in lost:
                    lab = _label(run_faults)
                    if res.get("reply") != "SuccessMessage":
                        emit("tags-refused:" + lab, "op %d %r answered %r" % (idx, op, res.get("reply")))
                    for name, value, t in op["tags"]:
                        if name not in readings:
                            continue
                        mine = [r for r in new if r["name"] == name and r["value"] == value]
                        if not mine:
                            emit("unrecorded-data:" + lab, "op %d %r: no new plot-log row for %s=%r (new rows: %r; aggregator's active run: %r)"
                                 % (idx, op, name, value, [(r["name"], r["value"], r["run_id"]) for r in new], h.active_run(E)))
                        elif not any(r["run_id"] == cur for r in mine):
                            emit("data-in-wrong-run:" + lab, "op %d %r: %s=%r was written under run %r" % (idx, op, name, value, mine[0]["run_id"]))
                    classes.add("recorded-batch:" + ("after-fault" if run_faults else "no-fault"))
            elif kind == "run_stopped":
                lab = _label(run_faults)
                rr = check_counts(idx, op)
                if cur not in lost:
                    if res.get("reply") != "SuccessMessage":
                        emit("run-stopped-refused:" + lab, "op %d %r answered %r" % (idx, op, res.get("reply")))
                    elif rr.get(cur, 0) == 0:
                        emit("run-not-stored:" + lab, "op %d %r answered Success but there is no RecentRun row for %s (aggregator's active run before: see lost-run)" % (idx, op, cur))
                    n = len([p for p in h.plot_logs() if p["run_id"] == cur])
                    if n != 1:
                        emit("plotlogs!=1:" + lab, "op %d %r: run has %d PlotLog rows when it stops" % (idx, op, n))
                finished[cur] = lab
                classes.add("run-completed:" + lab)
                cur = None
                mark_idle = len(fault_log)
            # ---- continuity, checked whenever the aggregator knows the engine ---------------------------------
            run_faults = fault_log[mark_start[cur]:] if cur is not None else []
            idle_faults = fault_log[mark_idle:]
            if kind not in ("disconnect", "restart") and h.engine_data(E) is not None:
                act = h.active_run(E)
                if cur is not None and cur not in lost and act != cur:
                    lost.add(cur)
                    emit(("lost-run:" if act is None else "wrong-run:") + _label(run_faults),
                         "after op %d %r the engine is in run %s but the aggregator's active run is %r (faults since run start: %s; RecentEngine rows: %r)"
                         % (idx, op, cur, act, run_faults, [(r["engine_id"], r["run_id"]) for r in h.recent_engines()]))
                if cur is None and act is not None and kind in ("register", "connect", "uod_info"):
                    classes.add("resurrected-finished-run:" + _label(idle_faults))
                check_counts(idx, op)
    return out, classes, nontrivial


def _disconnect_with_slow_push(h, classes):
    """the engine's websocket closes while the web push service is slow: the disconnect handling is started, runs as far
    as it can without the push service's answer, and the caller gets a function that lets the service answer."""
    import asyncio
    e = h._eng(E)
    ch, e.channel = e.channel, None
    e.registered_id = None
    ch.closed = True
    gate = asyncio.Event()
    wp = h.webpush_publisher
    real_publish = wp.publish_message
    waited = []

    async def slow_publish(notification, topic, process_unit):
        waited.append(1)
        await gate.wait()
        return await real_publish(notification, topic, process_unit)

    wp.publish_message = slow_publish
    task = h.loop.create_task(h.dispatcher.on_client_disconnect(ch))

    async def spin():
        for _ in range(30):
            await asyncio.sleep(0)
    h.loop.run_until_complete(spin())
    classes.add("fault:slow-push-at-disconnect:" + ("push-pending" if waited and not gate.is_set() else "no-push")
                + (":handler-waits-for-it" if not task.done() else ""))

    def release():
        gate.set()
        wp.publish_message = real_publish

        async def fin():
            for _ in range(50):
                if task.done():
                    break
                await asyncio.sleep(0)
            if task.done() and not task.cancelled() and task.exception() is not None:
                classes.add("fault:slow-push-at-disconnect:handler-raised:" + type(task.exception()).__name__)
        h.run(fin())
    return {"op": "disconnect", "skipped": None}, release


def _disconnect_with_failing_db_write(h, op, classes):
    """the connection drops and the one database write of the disconnect handling (the RecentEngine row) fails once.
    Whatever the handler does with the error - the websocket endpoint logs an exception of its on_disconnect callback -
    the engine re-registers afterwards like after any lost connection, and the statement's continuity applies."""
    from sqlalchemy.exc import OperationalError
    from openpectus.aggregator.data.repository import RecentEngineRepository
    real = RecentEngineRepository.store_recent_engine
    fired = []

    def failing(self, engine_data):
        if not fired:
            fired.append(1)
            raise OperationalError("INSERT INTO RecentEngines ...", {}, Exception("database is locked"))
        return real(self, engine_data)

    RecentEngineRepository.store_recent_engine = failing
    try:
        try:
            res = h.apply(op)
            classes.add("fault:db-write-failed-at-disconnect:" + ("handled" if fired else "no-write-attempted"))
        except OperationalError:
            classes.add("fault:db-write-failed-at-disconnect:raised-to-endpoint")
            res = {"op": "disconnect", "skipped": None}
    finally:
        RecentEngineRepository.store_recent_engine = real
    return res


def check_case(case) -> list[Violation]:
    return _run(case)[0]


# ---- generator ------------------------------------------------------------------------------------------

def _connect_block(interval, readings, snapshot_t=None, sys_state=None):
    b = [{"op": "register"}, {"op": "connect"}, {"op": "uod_info"}]
    if snapshot_t is not None:
        b.append({"op": "tags", "run": None, "tags": [[r, 0, snapshot_t] for r in readings] + ([[SYS, sys_state, snapshot_t]] if sys_state else [])})
    return b


def _fault_block(kind, interval, readings, snapshot_t, sys_state=None):
    if kind == "reconnect":
        head = [{"op": "disconnect"}]
    elif kind == "reconnect-slowpush":
        # the "connection lost" push notification of the disconnect is still being delivered (slow push service) when the
        # engine registers again: whatever part of the disconnect handling waits for it runs AFTER the re-registration
        head = [{"op": "disconnect", "slow_push": True}]
    elif kind == "reconnect-dbfail":
        # the database write the aggregator makes when the connection drops fails (locked file, full disk)
        head = [{"op": "disconnect", "db_fault": True}]
    elif kind == "graceful":
        head = [{"op": "restart", "graceful": True}]
    elif kind == "drained":
        head = [{"op": "disconnect"}, {"op": "restart", "graceful": True}]
    else:
        head = [{"op": "restart", "graceful": False}]
    return head + _connect_block(interval, readings, snapshot_t, sys_state)


@st.composite
def stories(draw):
    interval = draw(st.sampled_from([0.0, 0.5, 1.0, 5.0]))
    readings = draw(st.lists(st.sampled_from(["A", "B", "C"]), min_size=1, max_size=3, unique=True))
    t = T0
    body: list[dict] = []
    sysstate = draw(st.integers(0, 2)) > 0          # the stream carries the System State tag like a real engine's
    if draw(st.booleans()) or sysstate:
        body.append({"op": "tags", "run": None, "tags": [[r, 1, t] for r in readings] + ([[SYS, "Stopped", t]] if sysstate else [])})
    counter = 10
    for k in range(draw(st.integers(1, 2))):
        run = "run-%d" % (k + 1)
        t += interval + 0.5
        body.append({"op": "run_started", "run": run, "t": t})
        nb = draw(st.integers(1, 4))
        running_in = draw(st.integers(0, min(1, nb - 1)))      # batch that first carries "Running"
        mid_state = draw(st.sampled_from([None, None, "Paused", "Holding"]))
        for b in range(nb):
            t += interval + draw(st.sampled_from([0.25, 0.5, 2.0]))
            names = draw(st.lists(st.sampled_from(readings + ["X"]), min_size=1, max_size=3, unique=True))
            tags = []
            for n in names:
                counter += 1
                tags.append([n, counter if draw(st.booleans()) else counter + 0.5, t])
            if sysstate and b == running_in:
                tags.append([SYS, "Running", t])
            elif sysstate and b > running_in and mid_state and b == nb - 1:
                tags.append([SYS, mid_state, t])
            body.append({"op": "tags", "run": run, "tags": tags})
        stopped_first = sysstate and draw(st.booleans())
        if stopped_first:                                      # the state change may reach the aggregator before or after RunStopped
            t += interval + 0.5
            body.append({"op": "tags", "run": run, "tags": [[SYS, "Stopped", t]]})
        body.append({"op": "run_stopped", "run": run})
        if draw(st.integers(0, 2)) == 0 or (sysstate and not stopped_first):
            t += interval + 0.5
            body.append({"op": "tags", "run": None, "tags": [[r, 2, t] for r in readings] + ([[SYS, "Stopped", t]] if sysstate else [])})
    snapshot = draw(st.booleans())
    pairs = draw(st.lists(st.tuples(st.integers(0, len(body)), st.sampled_from(FAULTS), st.integers(0, len(body)), st.sampled_from(FAULTS)),
                          min_size=0, max_size=12, unique=True))
    file_pick = draw(st.integers(0, 24))
    return {"interval": interval, "readings": readings, "body": body, "snapshot": snapshot, "pairs": pairs, "file_pick": file_pick,
            "sysstate": sysstate}


def expand(story, faults):
    """faults: list of (position in body, kind); several faults at one position are applied in list order"""
    interval, readings, body = story["interval"], story["readings"], story["body"]
    ops = _connect_block(interval, readings)
    t_here = T0
    engine_state = "Stopped"      # what the engine itself would report in a snapshot at this point of the story
    for p in range(len(body) + 1):
        for pos, kind in faults:
            if pos == p:
                # the run-less snapshot an engine sends when it is in steady state again carries the engine's current time
                ops += _fault_block(kind, interval, readings, t_here if story["snapshot"] else None,
                                    engine_state if story.get("sysstate") else None)
        if p < len(body):
            ops.append(body[p])
            if body[p]["op"] == "tags":
                t_here = max(t_here, max(t[2] for t in body[p]["tags"]))
                for tg in body[p]["tags"]:
                    if tg[0] == SYS:
                        engine_state = tg[1]
            elif body[p]["op"] == "run_started":
                t_here = max(t_here, body[p]["t"])
                engine_state = "Running"
            elif body[p]["op"] == "run_stopped":
                engine_state = "Stopped"
    return ops


def run_shard(col, cfg):
    per_shard = max(1, cfg["stories"] // col.nshards)
    n_enum = [0]

    def body(story):
        plans = [[]]
        for p in range(len(story["body"]) + 1):
            for k in FAULTS:
                plans.append([(p, k)])
        for p1, k1, p2, k2 in story["pairs"]:
            plans.append([(p1, k1), (p2, k2)])
        for i, plan in enumerate(plans):
            if col.expired():
                return
            restart = any(not k.startswith("reconnect") for _, k in plan)
            db = "file" if restart and (i % 25) == story["file_pick"] else "memory"
            case = {"db": db, "interval": story["interval"], "readings": story["readings"], "ops": expand(story, plan)}
            vs, classes, nontrivial = _run(case)
            classes.add("faults:%d" % len(plan))
            classes.add("db:" + db)
            for _, k in plan:
                classes.add("plan:" + k)
            if len(plan) == 1:
                n_enum[0] += 1
            col.record(case, nontrivial, classes=sorted(classes), violations=vs)

    hyp_run(stories(), body, per_shard, shard_seed(col.seed, col.shard), col)
    col.extra["single_fault_cases_enumerated"] = n_enum[0]


def shrink_hints(case):
    ops = case.get("ops", [])
    if case.get("db") == "file":
        yield dict(case, db="memory")
    # drop whole fault blocks / whole batches
    for i, o in enumerate(ops):
        if isinstance(o, dict) and o.get("op") == "tags":
            yield dict(case, ops=ops[:i] + ops[i + 1:])
    if isinstance(case.get("readings"), list) and len(case["readings"]) > 1:
        for r in case["readings"]:
            keep = [x for x in case["readings"] if x != r]
            yield dict(case, readings=keep)
