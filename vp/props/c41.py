"""C41 — macros run their latest definition once per call and never recurse.

Domain : methods over macro names A, B, C with definitions, redefinitions (before / between / after calls), nested
         calls, direct and mutual recursion (cycles of length 1..3, closing call first / later / nested in a block of
         the body), calls inside blocks and watch bodies, recursion through a Watch/Alarm body inside a macro body, re-definition while a call of the name is in progress
         (Macro line inside a macro body), macros ending the caller's Block with a final End block, plus up to 3 live edits per run (body change / added line /
         removed line / removed definition of a called or an uncalled macro, benign comment).
Oracle : reference model `vp.harness.macro_h.simulate` written from the statement.
  trace      the sequence of observed effects (Mark values, Quick command executions, Block starts - every line has a
             unique payload) equals the model's: each call contributes the body lines of the definition most recently
             *executed* before the call, once, in order.
  cycles     a call whose macro can reach itself through the current definitions: the run ends Error + Paused, the
             failed line is one of the calls on the execution path between the first such call and the call closing the
             cycle (the statement does not say which call of the chain fails: all are accepted), the effects are
             exactly those before that call, and nothing repeats afterwards.
  edits      an edit that changes / extends / shortens / removes a macro of which a call has certainly started must be
             rejected and change nothing (the remaining trace is the unedited model's); an edit of the body of a macro
             of which certainly no call has started is accepted (documented by test_macro_allows_editing_uncalled_macro)
             and later calls run the edited body.  Edits whose target is in neither class are applied but not judged.
"""
from __future__ import annotations

from hypothesis import strategies as st

from vp.core.framework import Violation, hyp_run, shard_seed
from vp.harness import macro_h as M
import vp.harness.engine_h  # noqa: F401  (imported in the parent so that the forked shard workers do not import it again)

# Hypothesis runs one gc.collect() per hyp_run; in a forked worker a full collection touches every inherited object
# (copy-on-write of the parent's heap).  Freezing the parent's objects before the fork keeps that cheap.
import gc  # noqa: E402
gc.collect()
gc.freeze()

ID = "C41"
LEVEL = "exploration"
ENGINE = "engine_harness"
TECHNIQUE = "Hypothesis-generated macro programs (redefinitions, cycles, edits) vs. a reference model of the statement"
RULE = ("Hypothesis draws a method over macro names A,B,C (definitions and redefinitions, calls at top level, in blocks, in "
        "watch bodies and in macro bodies incl. cycles of length 1-3) and 0-3 live edits. Non-trivial = in the model two "
        "calls of one name resolve to different definitions (redefinition between calls) or a reached call closes a cycle "
        "of length >= 2. Distinct = distinct (method, edits).")
ASSUMPTIONS = [
    "which call of a recursive chain fails is not fixed by the statement: every call on the execution path from the first "
    "call that can reach itself to the call closing the cycle is accepted as the failing one",
    "a macro 'has started' = a call resolved to that definition lies, in execution order, before an effect already observed; "
    "'has not started' = every such call lies after the next expected effect; edits in between are not judged",
    "calls of a name that has no executed definition are outside the statement (prefix of the trace checked only)",
    "macro definitions only at top level; a Watch/Alarm inside a macro body is judged only as a link of a recursive call chain "
    "(then some call of the chain must fail; only the outermost failure point has an exact expected trace); outside such a "
    "chain judging stops at it (statement silent on re-arming / re-entrancy of interrupts defined in a macro)",
]
TIERS = {"quick": {"examples": 4000, "budget_s": 100, "max_top": 9, "max_body": 4},
         "thorough": {"examples": 90000, "budget_s": 1200, "max_top": 14, "max_body": 6}}

# Known defect of live edit (C01 territory; the upstream edit tests are skip-listed "until the new impl is in place"):
# an accepted live edit re-runs lines that had completed, and MethodManager.merge_method commits a state-less program so
# the next edit is not validated against the run.  With the switch on, the trace after an accepted edit is not judged
# (counted as excluded_known); what C41 itself states - a macro that had started before is then edited without error -
# is still emitted (signature started-macro-edit-accepted:<kind>:after-merge).  With the switch off the full oracle
# applies: after an accepted edit of an uncalled macro later calls must run the edited body.
EXCLUDE_KNOWN_RERUN_AFTER_MERGE = True


@st.composite
def cases(draw, max_top, max_body):
    return {"tree": draw(M.programs(max_top=max_top, max_body=max_body)), "edits": draw(M.edits())}


def _observed(events):
    out = []
    for e in events:
        if e[1] == "mark":
            out.append((e[0], ("mark", e[2])))
        elif e[1] == "cmd" and e[2] == "Quick" and e[4] == "exec":
            out.append((e[0], ("cmd", e[5])))
        elif e[1] == "block_start" and e[2] != "root":
            out.append((e[0], ("block", e[2])))
    return out


def _started_class(sim: M.Sim, n_obs: int, def_id: str, for_later: bool = False) -> str:
    """'started' | 'not-started' | 'superseded' | 'ambiguous' for the macro definition line def_id after n_obs observed effects.
    'superseded': a call of it has started but a later definition of the same name may already have replaced it - whether
    'a macro that has already started' still covers the replaced text is not decided by the statement (not judged).
    for_later: the answer must stay valid for the rest of the run (no later definition of the name at all)."""
    eff_steps = [i for i, s in enumerate(sim.steps) if s["eff"] is not None]
    p = eff_steps[n_obs - 1] if n_obs >= 1 else -1
    q = eff_steps[n_obs] if n_obs < len(eff_steps) else len(sim.steps)
    calls = [i for i, s in enumerate(sim.steps) if s["kind"] == "callmacro" and s.get("resolved") == def_id]
    if q < len(sim.steps) and sim.steps[q]["watch"]:
        # the next expected effect belongs to a Watch body: if that thread stalls (known finding: Block of a macro called inside
        # a Block) the main thread goes on after its Wait and the number of observed effects no longer tells where it is
        return "ambiguous"
    if any(i < p for i in calls):
        name = sim.def_name[def_id]
        # other definitions of the name that can run after this one: textually later ones, and definitions nested in macro
        # bodies (they run when their macro is called, wherever they stand in the text)
        nested = {s["line"] for s in sim.steps if s["kind"] == "macro" and s["stack"]}
        same = [d for d in sim.defs if d != def_id and sim.def_name[d] == name
                and (sim.defs.index(d) > sim.defs.index(def_id) or d in nested)]
        if same and for_later:
            return "superseded"
        own = [i for i, s in enumerate(sim.steps) if s["kind"] == "macro" and s["line"] == def_id]
        exec_steps = [i for i, s in enumerate(sim.steps) if s["kind"] == "macro" and s["line"] in same and (not own or i > own[0])]
        if any(i < q for i in exec_steps) or (same and sim.outcome != "complete" and not exec_steps):
            return "superseded"
        return "started"
    if all(i > q for i in calls):
        return "not-started"
    return "ambiguous"


def run_case(case):
    from vp.harness.engine_h import EngineHarness, MethodEditError
    out: list[Violation] = []
    info = {"classes": set()}

    def viol(sig, msg):
        if not any(v.sig == sig for v in out):
            out.append(Violation(sig, msg, case))

    recs = M.records(case["tree"])
    sim = M.simulate(recs)
    info["sim0"] = sim
    T = int(sim.ticks * 1.5) + 25
    # edit k is applied before tick 1 + at mod (T-2) of the initial tick budget (stable order)
    eds = sorted(((1 + ed["at"] % max(T - 2, 1), k, ed) for k, ed in enumerate(case["edits"])), key=lambda x: (x[0], x[1]))
    h = EngineHarness(M.method_lines(recs))
    judge_trace = True       # False: an unjudgeable edit happened; only the prefix up to `frozen[0]` is compared
    frozen = None            # (number of effects observed when judging stopped, model valid at that time)
    merges = 0
    started_at_freeze: set = set()
    last = None
    try:
        last = h.start()
        t = 0
        ei = 0
        while t < T:
            t += 1
            while ei < len(eds) and eds[ei][0] <= t:
                _at, k, ed = eds[ei]
                ei += 1
                if last.state != "Running" or last.status == "Error":
                    info["classes"].add("edit-skipped-not-running")
                    continue
                if judge_trace and (sim.outcome == "unjudged" or (sim.outcome == "cycle" and (sim.cycle_in_watch or sim.cycle_via_interrupt))):
                    # a recursive call chain in a Watch body: if it does not fail the main thread goes on alone and there is no
                    # single expected order of effects any more; such cases are judged on the failure itself only (no edits)
                    info["classes"].add("edit-skipped-cycle-in-watch")
                    continue
                obs = [e for _, e in _observed(h.events)]
                n = len(obs)
                new_recs, einfo = M.apply_edit(recs, ed, k + 1)
                kind = einfo["kind"]
                if judge_trace and obs != sim.effects()[:n]:
                    # trace already diverged: reported at the end; edits are no longer judged
                    judge_trace, frozen = False, (n, sim)
                if judge_trace:
                    cls = "benign" if einfo["def"] is None else _started_class(sim, n, einfo["def"])
                elif einfo["def"] is not None and einfo["def"] in started_at_freeze:
                    cls = "started"     # a call of it had started before the earlier accepted edit
                else:
                    cls = "unjudged"
                try:
                    res = h.set_method(M.method_lines(new_recs))
                    accepted, err = True, None
                except MethodEditError as ex:
                    res, accepted, err = None, False, ex
                info["classes"].add("edit:%s:%s:%s" % (kind, cls, "accepted" if accepted else "rejected"))
                if not accepted:
                    if cls == "not-started" and kind != "remove-def":
                        viol("uncalled-macro-edit-rejected:%s" % kind,
                             "tick %d: edit %r of macro line %s rejected (%s) although no call of it had started; observed so far %r"
                             % (t, kind, einfo["def"], err, obs))
                    continue       # a rejected edit changes nothing: the model stays
                if res == "set_method" and merges == 0 and n == 0:
                    # the program had not started executing: plain replacement, the model starts over with the new text
                    info["classes"].add("edit-before-program-start")
                    recs, sim = new_recs, M.simulate(new_recs)
                    T = max(T, t + int(sim.ticks * 1.5) + 25)
                    continue
                merges += 1
                if cls == "started":
                    viol("started-macro-edit-accepted:%s" % ("after-merge" if merges >= 2 else kind),
                         "tick %d: edit %r of macro line %s was accepted (%s) although a call of it had started; observed so far %r"
                         % (t, kind, einfo["def"], res, obs))
                if judge_trace:
                    if EXCLUDE_KNOWN_RERUN_AFTER_MERGE:
                        # known defect: an accepted live edit re-runs the method; the rest of the trace is not judged
                        started_at_freeze = {d for d in sim.defs if _started_class(sim, n, d, for_later=True) == "started"}
                        judge_trace, frozen = False, (n, sim)
                        info["excluded"] = "rerun-after-accepted-edit"
                    elif cls in ("not-started", "benign") and kind != "remove-def" and M.simulate(new_recs).effects()[:n] == obs:
                        sim = M.simulate(new_recs)      # later calls must run the edited text
                        T = max(T, t + int(sim.ticks * 1.5) + 25)
                    else:
                        # started (already reported), ambiguous, or removal of an executed definition (the statement does
                        # not say what later calls of that name see): only the prefix is judged
                        judge_trace, frozen = False, (n, sim)
                recs = new_recs
            last = h.tick()
            if last.raised is not None:
                viol("tick-raised:%s" % type(last.raised).__name__, "tick %d: %r" % (t, last.raised))
                break
        # settle: a run that is still producing effects gets more ticks (a short tick budget must never look like a stall)
        for _round in range(6):
            n_before = len(_observed(h.events))
            if last.raised is not None or last.state != "Running" or n_before >= len(sim.effects()) + 3:
                break
            for _ in range(40):
                last = h.tick()
                if last.raised is not None:
                    break
            if len(_observed(h.events)) == n_before:
                break
        obs_t = _observed(h.events)
        obs = [e for _, e in obs_t]
        err = h.last_error
        err_line = getattr(getattr(err, "node", None), "id", None)
        failed_ids = list(h.engine.method_manager._get_method_state(h.engine.method_manager.interpreter._program).failed_line_ids)
        state, status = last.state, last.status
    finally:
        h.close()

    info["sim"] = sim
    info["judged"] = judge_trace
    if not judge_trace:
        # only the prefix up to the point where judging stopped is compared, against the model valid at that time
        n, sim = frozen
        obs = obs[:n]
        exp_all = sim.effects()[:n]
    else:
        exp_all = sim.effects()

    def line_of(eff):
        for r in recs:
            if r["payload"] == eff[1] and ((eff[0] == "mark" and r["kind"] == "mark") or (eff[0] == "cmd" and r["kind"] == "quick")
                                           or (eff[0] == "block" and r["kind"] == "block")):
                return r
        return None

    def owner_def(rec):
        """Macro line record owning this body line (or None)"""
        idx = recs.index(rec)
        d = rec["depth"]
        for j in range(idx - 1, -1, -1):
            if recs[j]["depth"] < d:
                d = recs[j]["depth"]
                if recs[j]["kind"] == "macro":
                    return recs[j]
                if d == 0:
                    return None
        return None

    def divergence(exp):
        """signature suffix describing the first difference between obs and exp (exp is not a proper description of obs)"""
        i = 0
        while i < len(obs) and i < len(exp) and obs[i] == exp[i]:
            i += 1
        es = [x for x in sim.steps if x["eff"] is not None]
        nxt = es[i] if i < len(es) else None
        stalled_in_watch = (i < len(obs) and nxt is not None and nxt["kind"] == "block" and nxt["stack"] and nxt["blocks"] and nxt["watch"])
        if i == len(obs) or stalled_in_watch:
            # the run stopped short: name what should have come next (kind, inside a macro body, inside an open Block).
            # stalled_in_watch: the expected next effect is a Block of a macro called inside a Block in a Watch body; when that
            # thread stalls there the main thread still goes on after its Wait, so later effects follow instead of nothing
            ctx = ""
            st_state, st_status = state, status
            if nxt is not None:
                ctx = ":next=%s%s%s" % (nxt["kind"], "-in-macro" if nxt["stack"] else "", "-inside-block" if nxt["blocks"] else "")
                # the state named in the signature is the state the missing effect was left in.  An error raised later by a line
                # the model runs only *after* the missing step (another thread went on while this one stalled, e.g. the main
                # thread after its Wait) cannot explain the missing effect: the stall itself happened while Running / OK.
                k_nxt = sim.steps.index(nxt)
                k_err = [k for k, x in enumerate(sim.steps) if x["line"] == err_line]
                if status == "Error" and err_line is not None and err_line != nxt["line"] and (not k_err or min(k_err) > k_nxt):
                    st_state, st_status = "Running", "OK"
            return "missing-effect%s:state=%s/%s" % (ctx, st_state, st_status), i
        o = obs[i]
        if o in obs[:i]:
            return "repeated-effect", i
        orec = line_of(o)
        od = owner_def(orec) if orec is not None else None
        if i < len(exp):
            erec = line_of(exp[i])
            edf = owner_def(erec) if erec is not None else None
            if od is not None and edf is not None and od["id"] != edf["id"] and od["name"] == edf["name"]:
                return ("stale-definition" if recs.index(od) < recs.index(edf) else "later-definition"), i
            if od is not None and edf is None:
                return "unexpected-body-effect", i
            if od is None and edf is not None:
                return "body-effect-skipped", i
            return "order-mismatch", i
        return ("extra-body-effect" if od is not None else "extra-effect"), i

    where = "method %r" % [r["text"] for r in recs]
    if not judge_trace:
        if obs != exp_all:
            what, i = divergence(exp_all)
            viol("trace:%s" % what, "effects before edit differ from the model at index %d: observed %r, expected %r; %s" % (i, obs, exp_all, where))
    elif sim.outcome == "unjudged":
        # a Watch/Alarm inside a macro body that is not part of a recursive chain: only the effects before it are compared
        info["classes"].add("unjudged:interrupt-in-macro")
        exp = sim.effects(sim.unjudged_at)
        if obs[:len(exp)] != exp:
            what, i = divergence(exp)
            viol("trace:%s" % what, "effects before the Watch/Alarm inside a macro differ at index %d: observed %r, expected prefix %r; %s"
                 % (i, obs, exp, where))
    elif sim.outcome == "complete":
        if obs != exp_all:
            what, i = divergence(exp_all)
            viol("trace:%s" % what,
                 "effects differ from the model at index %d: observed %r, expected %r; state %s/%s error %r; %s"
                 % (i, obs, exp_all, state, status, str(err)[:160] if err else None, where))
    else:
        # accepted failure points: effects before the failing call, that call line failed, run Error + Paused
        accepted = []
        for idx, reason in sim.fails:
            accepted.append((sim.effects(idx), sim.steps[idx]["line"], reason))
        longest = accepted[-1][0]
        match = [a for a in accepted if a[0] == obs]
        if sim.outcome == "undefined":
            info["classes"].add("undefined-call-reached")
            if obs[:len(longest)] != longest:
                what, i = divergence(longest)
                viol(("trace:%s" if what.startswith("missing-effect") else "trace-before-undefined-call:%s") % what, "observed %r, expected prefix %r; %s" % (obs, longest, where))
        elif (sim.cycle_via_interrupt or sim.cycle_in_watch) and len(obs) < len(accepted[0][0]) and accepted[0][0][:len(obs)] == obs:
            # the run never got as far as the first call of the chain: an ordinary stall / error before it
            what, i = divergence(accepted[0][0])
            viol("trace:%s" % what, "effects before the recursive chain: observed %r, expected %r; state %s/%s error %r; %s"
                 % (obs, accepted[0][0], state, status, str(err)[:160] if err else None, where))
        elif sim.cycle_via_interrupt:
            # the chain passes a Watch/Alarm inside a macro body.  The first accepted failure (the outermost call that can reach
            # itself) has a well-defined trace; a later one happens while interrupt body, macro body and main thread run side
            # by side, so it is accepted by its line alone.
            first = accepted[0]
            ok_first = first[0] == obs and (first[1] == err_line or first[1] in failed_ids)
            ok_later = any(a[1] == err_line or a[1] in failed_ids for a in accepted[1:])
            if not (state == "Paused" and status == "Error" and (ok_first or ok_later)):
                viol("cycle-not-failed:%s" % sim.cycle_cls,
                     "a call that makes a macro call itself through a Watch/Alarm body inside a macro (cycle length %d, %s) did not "
                     "fail: state %s/%s, error line %r (accepted failing calls %r), failed lines %r, effects %r; %s"
                     % (sim.cycle_len, sim.cycle_cls, state, status, err_line, [a[1] for a in accepted], failed_ids, obs, where))
        elif sim.cycle_in_watch and not (state == "Paused" and status == "Error"
                                         and any(a[0] == obs and (a[1] == err_line or a[1] in failed_ids) for a in accepted)):
            # the recursive chain runs in a Watch body: when it does not fail, the main thread continues on its own (and may
            # collide with the hanging invocation), so only the missing failure is reported
            viol("cycle-not-failed:%s" % sim.cycle_cls,
                 "a call in a Watch body that makes a macro call itself (cycle length %d, %s) did not fail: state %s/%s, error line %r "
                 "(accepted failing calls %r), failed lines %r, effects %r; %s"
                 % (sim.cycle_len, sim.cycle_cls, state, status, err_line, sorted(a[1] for a in accepted), failed_ids, obs, where))
        elif not match:
            if len(obs) > len(longest) and obs[:len(longest)] == longest:
                viol("cycle-recursed:%s" % sim.cycle_cls,
                     "a call closing a macro cycle (length %d) did not fail: effects continue past the closing call: observed %r, "
                     "expected at most %r; state %s/%s; %s" % (sim.cycle_len, obs, longest, state, status, where))
            else:
                what, i = divergence(longest)
                viol(("trace:%s" if what.startswith("missing-effect") else "cycle-trace:%s") % what, "effects before the failing call differ: observed %r, accepted %r; state %s/%s; %s"
                     % (obs, [a[0] for a in accepted], state, status, where))
        else:
            if not (state == "Paused" and status == "Error"):
                viol("cycle-not-failed:%s" % sim.cycle_cls,
                     "a call that makes a macro call itself (cycle length %d, %s) did not fail: state %s/%s, failed lines %r, effects %r; %s"
                     % (sim.cycle_len, sim.cycle_cls, state, status, failed_ids, obs, where))
            else:
                lines_ok = {a[1] for a in match}
                if match[-1][2] != "undefined" and err_line not in lines_ok and not (set(failed_ids) & lines_ok):
                    # the run stopped with an error, but not at the call whose preceding effects were observed: the chain was
                    # entered further than the failing line admits (same root cause class as a cycle that is not detected)
                    viol("cycle-wrong-line-failed:%s" % sim.cycle_cls,
                         "run failed at line %r (failed lines %r) but with these effects the failing call must be %r; effects %r; %s"
                         % (err_line, failed_ids, sorted(lines_ok), obs, where))
    return out, info


def check_case(case):
    if not isinstance(case, dict) or not M.valid_tree(case.get("tree")) or not M.valid_edits(case.get("edits")):
        return []
    return run_case(case)[0]


def run_shard(col, cfg):
    def body(case):
        vs, info = run_case(case)
        sim0, sim = info["sim0"], info["sim"]
        nontrivial = sim0.redefinition_between_calls or (sim0.outcome == "cycle" and sim0.cycle_len >= 2)
        classes = sorted(info["classes"])
        classes.append("outcome:" + sim0.outcome)
        classes.append("flavor:" + case["tree"].get("flavor", "?"))
        if sim0.outcome == "cycle":
            classes.append("cycle-len:%d" % sim0.cycle_len)
            classes.append("cycle:" + sim0.cycle_cls)
        if sim0.redefinition_between_calls:
            classes.append("redefinition-between-calls")
        if sim0.block_ended_by_macro:
            classes.append("block-ended-by-macro-then-called-again" if any(len(v) >= 2 for v in sim0.calls_resolved.values())
                           else "block-ended-by-macro")
        if sim0.nested_def_executed:
            classes.append("redefined-while-call-in-progress")
        if any(len(s["stack"]) >= 2 for s in sim0.steps):
            classes.append("nested-call-depth>=2")
        if sim0.watch_steps and any(s["kind"] == "callmacro" for s in sim0.steps):
            classes.append("has-watch")
        if case["edits"]:
            classes.append("has-edits")
        if not info["judged"]:
            classes.append("trace-not-judged-to-end")
        if info.get("excluded"):
            col.count("excluded_known:" + info["excluded"])
        col.record(case, nontrivial, classes=classes, violations=vs,
                   sample={"method": [r["text"] for r in M.records(case["tree"])], "edits": case["edits"]})
    hyp_run(cases(cfg["max_top"], cfg["max_body"]), body, max(1, cfg["examples"] // col.nshards), shard_seed(col.seed, col.shard), col)
