"""C05 -- blocks nest and end correctly; the Block tag names the active block.

Domain : generated well-formed methods with nested and sequential blocks (unique names), `End block` / `End blocks`
         in block bodies, in Watch and Alarm bodies (also with no block active), blocks without a terminator of their
         own, blocks declared in Watch / Alarm bodies (started from an interrupt, also repeatedly), blocks in macros,
         Waits, thresholds, commands; inputs follow a generated trajectory.  No live edit, no Stop/Restart/Pause.
Oracle : invariants over the listener's block events, the run-log states and the Block tag (vp/harness/order_h.py):
  B1  a block starts only while every active block (started, not ended) lexically encloses it, and never while it
      is itself active  -> the active blocks always form one nested chain;
  B2  at every tick end the Block tag equals the name of the innermost active block, None/'' when none;
  B3  block end events occur only while an `End block` / `End blocks` instruction executes; one `End block` ends
      exactly one block when a block is active (none otherwise) and it is the innermost one; after `End blocks`
      no block is active;
  B4  after a block's end event the interpreter begins no further instruction line that lies lexically inside that
      block (signature part `interrupt`: the line belongs to a Watch/Alarm declared in the block, `body`: to the
      block's own body) until the block starts again; lines whose visit began before the end event may finish (a Watch
      line being visited may still register); a Watch/Alarm that was pending when the block ended (registered during
      this invocation of the block) is not registered again afterwards;
  B5  the instruction after a block (next instruction sibling) starts / produces its effect only after that block's
      end event.
Per case only the FIRST violation in event order is reported.  Violations that involve a Watch/Alarm declared in a body
that runs repeatedly (Alarm / Macro body) share one signature (`interrupt-in-repeated-body:block-bookkeeping`); the
judged part of such a case also ends at the first C02 violation of that class (see c02.py).
"""
from __future__ import annotations

from vp.core.framework import Violation, hyp_run, shard_seed
from vp.harness import order_h as O
from vp.harness import pcode_gen as G

ID = "C05"
LEVEL = "exploration"
ENGINE = "engine_harness"
TECHNIQUE = ("Hypothesis-generated block-heavy P-code programs x input trajectories on the real engine (virtual clock); "
             "per-event and per-tick invariants on listener block events, run-log states and the Block tag")
RULE = ("Hypothesis draws a program tree (blocks weighted up; End block/End blocks in bodies and interrupts; unterminated "
        "blocks; blocks inside Watch/Alarm bodies), an input trajectory and start values; the method runs for a fixed "
        "number of ticks. Non-trivial = at some moment >= 2 blocks were active simultaneously, or a block declared in a "
        "Watch/Alarm body started. Distinct = distinct (tree, trajectory, init).")
ASSUMPTIONS = [
    "active block = block with a listener block_start event and no block_end event since; the pseudo block 'root' of the "
    "program is not a block",
    "'nested chain' is read lexically (each active block encloses the next); the interpreter offers no other way to nest",
    "'ends ... together with its pending Watches and Alarms' is judged on lines the interpreter begins to visit after the end "
    "event; a line already being visited (or a UOD command already issued) when the block ends may finish",
    "methods whose run hits a method error are judged up to the tick before the error only",
]
TIERS = {"quick": {"examples": 3200, "ticks": 110, "budget_s": 150, "depth": 3, "max_top": 7},
         "thorough": {"examples": 80000, "ticks": 220, "budget_s": 840, "depth": 4, "max_top": 10}}


def gen_cfg(depth: int, max_top: int) -> G.GenCfg:
    return G.GenCfg(kinds={"mark": 5, "wait": 2, "block": 6, "watch": 3, "alarm": 1, "endblock": 2, "endblocks": 1,
                           "quick": 1, "slow": 1, "blank": 1, "comment": 1, "macro": 1, "callmacro": 1},
                    max_depth=depth, max_top=max_top, max_children=4, thresholds=True, threshold_max=1.0, wait_max=1.0,
                    base_first="s", trailing_ws=True)


def run_case(case):
    tr = O.run_trace(case, follow_up=False)
    _v2, v5, info = O.analyse(tr)
    if not v5 and tr.second is not None:
        _v2b, v5b, _info2 = O.analyse(tr.second)
        v5 = [(s, "[run 2 after %s] %s" % (tr.second_how, m)) for s, m in v5b]
    return [Violation(s, m, case) for s, m in v5], info, tr


def check_case(case):
    if not O.valid_case(case):
        return []
    prog = O.Prog(O.render(case["tree"]))
    if any(prog.nested_interrupt_in_alarm(l.id) for l in prog.lines):
        return []      # outside C05's domain (see run_shard): the shape belongs to C02's registered finding
    return run_case(case)[0]


def _classes(case, info, tr):
    prog = tr.prog
    cl = set()
    if info["max_active"] >= 2:
        cl.add("two-blocks-active")
    if info["max_active"] >= 3:
        cl.add("three-blocks-active")
    if info["blocks_from_interrupt"]:
        cl.add("block-started-from-interrupt")
    if info["endblock_in_interrupt"]:
        cl.add("end-block(s)-executed-in-interrupt")
    if info["endblocks"]:
        cl.add("end-blocks-executed")
    if info["blocks_started"] == 0:
        cl.add("no-block-started")
    if info["alarm_reruns"]:
        cl.add("alarm-body-ran-repeatedly")
    if any(l.kind == "block" and not (l.node or {}).get("end") for l in prog.lines):
        cl.add("unterminated-block")
    # a watch/alarm declared inside a block that was still pending when the block ended
    if tr.aborted:
        cl.add("aborted:" + tr.aborted.split(":")[0])
    ends = [e for e in tr.events if e[1] == "block_end"]
    if ends:
        cl.add("block-ended")
    pend = _pending_interrupts_at_end(tr)
    if pend:
        cl.add("block-ended-with-pending-interrupt")
    nontrivial = info["max_active"] >= 2 or info["blocks_from_interrupt"] > 0
    return nontrivial, sorted(cl)


def _pending_interrupts_at_end(tr) -> int:
    """number of block end events at which a Watch/Alarm declared in that block was registered and had not finished"""
    prog = tr.prog
    reg: dict = {}
    n = 0
    for e in tr.events:
        if e[1] == "scope_start" and e[2] in ("Watch", "Alarm") and e[3] in prog.byid:
            reg[e[3]] = True
        elif e[1] == "scope_end" and e[2] == "Watch":
            reg.pop(e[3], None)
        elif e[1] == "block_end" and e[2] in prog.block:
            b = prog.block[e[2]]
            if any(b in prog.anc[w] for w in reg):
                n += 1
            for w in [w for w in reg if b in prog.anc[w]]:
                reg.pop(w)
    return n


def run_shard(col, cfg):
    gcfg = gen_cfg(int(cfg.get("depth", 3)), int(cfg.get("max_top", 7)))

    def body(case):
        vs, info, tr = run_case(case)
        nontrivial, classes = _classes(case, info, tr)
        if case.get("excluded_nested"):
            classes = classes + ["excluded_known:interrupt-in-repeated-body"]
        col.record(case, nontrivial, classes=classes, violations=vs,
                   sample={"method": G.text_of(tr.prog.lines), "traj": case["traj"], "init": case["init"], "ticks": case["ticks"]})
    # Watch/Alarm declared in a repeated body (Alarm / Macro): registered finding of C02 (`interrupt-in-repeated-body:...`);
    # its block-side symptoms are the same root cause, so the shape is excluded here by construction (counted as class
    # excluded_known:interrupt-in-repeated-body) instead of being reported a second time under C05
    hyp_run(O.cases(gcfg, int(cfg["ticks"]), keep_nested=False), body, max(1, int(cfg["examples"]) // col.nshards), shard_seed(col.seed, col.shard), col)
