"""C38 — distinct engines never share an engine id.

Two clauses of the statement, two case kinds:

kind "pair"  : {"kind": "pair", "a": [computer, uod], "b": [computer, uod] | None}
               Injectivity of the real `Aggregator.create_engine_id` on (computer name, UOD name) pairs.
               * exhaustive part: ALL pairs whose two components are non-blank strings of length 1..maxlen over
                 a small alphabet (separator `_`, `%`, `/`, space, a letter, a non-ASCII letter, ...) are mapped
                 to their id and bucketed; every name pair is decided against every other one.  One record per
                 name pair; `b` is the smallest other pair with the same id (None if there is none).
               * generated part: Hypothesis draws longer names and derives the second pair from the first by
                 transformations that are the plausible collision mechanisms (moving the separator, re-splitting,
                 swapping components, case, padding, percent-encoding / -decoding, Unicode normal forms).
kind "reg"   : {"kind": "reg", "engines": [{c, u, secret_ok, version_ok, ignore_version}], "ops": [[op, i], ...]}
               "a registration cannot take over the id of an engine that is currently connected", through the
               real AggregatorMessageHandlers.handle_RegisterEngineMsg (via dispatcher._register_handler), the real
               AggregatorDispatcher._on_delayed_client_connect / on_client_disconnect (what the websocket endpoint
               calls) and a mock RPC channel exactly like /repo/openpectus/test/aggregator/test_aggregator.py.
               ops: reg i | conn i (websocket connect with the id granted to i) | disc i.
               * exhaustive part: all op sequences up to a length over two engines x three name relations
                 (same pair / different pair with colliding id / different id).
               * generated part: 2-4 engines, random flags (secret, version, ignore_version), up to 14 ops.

Oracle "pair": a != b and id(a) == id(b)  -> violation `collision:<mechanism>`.
Oracle "reg" : model = {engine id -> (owner engine, owner channel)} of currently connected ids.
               - reg i whose id is in the model must be answered success=False        (`takeover:register-accepted`)
               - after every op the dispatcher's channel for every modelled id is still the owner's channel and
                 `has_connected_engine_id` is true                                     (`takeover:owner-lost:<op>`)
               What is NOT judged (statement silent): whether a registration for a free id succeeds, what a refused
               websocket connect does besides not replacing the owner (close is classified), engine data contents.
"""
from __future__ import annotations

import itertools
import re
import unicodedata
import zlib
from urllib.parse import unquote as _ref_unquote

from hypothesis import strategies as st

from vp.core.framework import Violation, hyp_run, shard_seed

ID = "C38"
LEVEL = "exploration"
ENGINE = "pure"
DESIGN_REF = "DESIGN.md §3 C38"
TECHNIQUE = ("exhaustive enumeration of short name pairs (bucketing by id = all-pairs injectivity) + Hypothesis "
             "collision-seeking pair transformations; exhaustive + generated register/connect/disconnect histories "
             "against an ownership model through the real handler and dispatcher")
RULE = ("pair cases: every (computer, uod) pair with components of length 1..maxlen over the tier alphabet is decided "
        "against all others (one evaluation per name pair), plus generated pairs-of-pairs with longer names; "
        "reg cases: one evaluation per op history. Non-trivial pair case = some name contains the separator '_' or a "
        "character that URL-quoting changes; non-trivial reg case = at least one registration or websocket connect "
        "was attempted for an id that was connected at that moment. Distinct = distinct case JSON.")
ASSUMPTIONS = [
    "computer names (socket.gethostname()) and UOD names (UodBuilder.with_instrument: non-blank) are non-blank str "
    "without lone surrogates and without C0/C1 control characters; empty components are outside the domain",
    "'currently connected' = the dispatcher holds a websocket channel for the id (AggregatorDispatcher."
    "_engine_id_channel_map), established by _on_delayed_client_connect as the websocket endpoint does",
    "an engine opens its websocket only with an id granted by a successful registration reply (EngineDispatcher)",
    "RPC channels are unittest.mock objects like in the repo's own aggregator tests; sqlite in memory",
]
TIERS = {
    "quick": {"alphabet": ["a", "_", "%", "/", " ", "é"], "maxlen": 3, "hyp_pairs": 1500,
              "reg_len": 5, "hyp_regs": 800, "budget_s": 100, "exhaustive": True},
    "thorough": {"alphabet": ["a", "_", "%", "/", " ", "é", "2", "5", "A"], "maxlen": 3, "hyp_pairs": 40000,
                 "reg_len": 6, "hyp_regs": 30000, "budget_s": 800, "exhaustive": True},
}

SEP = "_"
_UNRESERVED = set("abcdefghijklmnopqrstuvwxyzABCDEFGHIJKLMNOPQRSTUVWXYZ0123456789_.-~")


# ---- domain -------------------------------------------------------------------------------------

def _name_ok(s) -> bool:
    if not isinstance(s, str) or s.strip() == "" or len(s) > 300:
        return False
    for ch in s:
        cat = unicodedata.category(ch)
        if cat in ("Cs", "Cc"):
            return False
    return True


def _pair_ok(p) -> bool:
    return isinstance(p, (list, tuple)) and len(p) == 2 and _name_ok(p[0]) and _name_ok(p[1])


def _special(s: str) -> bool:
    return any(ch not in _UNRESERVED or ch == SEP for ch in s)


# ---- system under test --------------------------------------------------------------------------

_ctx: dict = {}


def _sut():
    """Lazily build one Aggregator (for create_engine_id) and the sqlite db the registration path needs."""
    if _ctx:
        return _ctx
    import asyncio
    from unittest.mock import Mock
    import openpectus.aggregator.data.models as DMdl
    import openpectus.protocol.engine_messages as EM
    from openpectus import __version__
    from openpectus.aggregator.aggregator import Aggregator
    from openpectus.aggregator.data import database
    from openpectus.protocol.aggregator_dispatcher import AggregatorDispatcher

    database.configure_db("sqlite:///:memory:")
    DMdl.DBModel.metadata.create_all(database._engine)  # type: ignore
    _ctx["EM"] = EM
    _ctx["version"] = __version__
    _ctx["agg"] = Aggregator(AggregatorDispatcher(), Mock(), Mock())
    _ctx["loop"] = asyncio.new_event_loop()
    return _ctx


def _msg(c: str, u: str, secret: str = "", version: str | None = None, ignore: bool = False):
    s = _sut()
    return s["EM"].RegisterEngineMsg(
        computer_name=c, uod_name=u, uod_author_name="author", uod_author_email="author@example.org",
        uod_filename="uod.py", location="loc", engine_version=s["version"] if version is None else version,
        secret=secret, ignore_version_error=ignore)


def engine_id(c: str, u: str):
    """-> ("ok", id) | ("raise", "Type: text")"""
    s = _sut()
    try:
        r = s["agg"].create_engine_id(_msg(c, u))
    except Exception as e:  # code under test on an in-domain input: reported as a violation, not swallowed
        return ("raise", "%s: %s" % (type(e).__name__, e))
    return ("ok", r)


# ---- oracle: pairs ------------------------------------------------------------------------------

def _mechanism(a, b) -> str:
    """Narrow root-cause label for a collision between two DIFFERENT pairs."""
    ra, rb = a[0] + SEP + a[1], b[0] + SEP + b[1]
    if ra == rb:
        return "separator-shift"           # the raw concatenations already coincide: the split point is ambiguous
    if ra.encode("ascii", "replace") == rb.encode("ascii", "replace") or \
            ra.encode("ascii", "ignore") == rb.encode("ascii", "ignore"):
        return "non-ascii-lost"
    if ra.casefold() == rb.casefold():
        return "case-folded"
    if "".join(ra.split()) == "".join(rb.split()):
        return "whitespace-dropped"
    if _ref_unquote(ra) == _ref_unquote(rb):
        return "percent-not-escaped"
    if unicodedata.normalize("NFKC", ra) == unicodedata.normalize("NFKC", rb):
        return "unicode-normalised"
    if sorted(a) == sorted(b):
        return "components-swapped"
    return "other"


def check_pair(case) -> list[Violation]:
    a, b = case.get("a"), case.get("b")
    if not _pair_ok(a):
        return []
    ia = engine_id(a[0], a[1])
    out = []
    if ia[0] == "raise":
        out.append(Violation("no-id:" + ia[1].split(":")[0], "create_engine_id(%r, %r) raised %s" % (a[0], a[1], ia[1]), case))
    if b is None:
        return out
    if not _pair_ok(b) or list(a) == list(b):
        return out
    ib = engine_id(b[0], b[1])
    if ib[0] == "raise":
        out.append(Violation("no-id:" + ib[1].split(":")[0], "create_engine_id(%r, %r) raised %s" % (b[0], b[1], ib[1]), case))
    if ia[0] == "ok" and ib[0] == "ok" and ia[1] == ib[1]:
        out.append(Violation("collision:" + _mechanism(a, b),
                             "engines (computer=%r, uod=%r) and (computer=%r, uod=%r) both get engine id %r"
                             % (a[0], a[1], b[0], b[1], ia[1]), case))
    return out


# ---- oracle: registration histories ---------------------------------------------------------------

_OPS = ("reg", "conn", "disc")


def _reg_case_ok(case) -> bool:
    engines, ops = case.get("engines"), case.get("ops")
    if not isinstance(engines, list) or not isinstance(ops, list) or not (1 <= len(engines) <= 6) or len(ops) > 40:
        return False
    for e in engines:
        if not isinstance(e, dict) or not _name_ok(e.get("c")) or not _name_ok(e.get("u")):
            return False
    for o in ops:
        if not (isinstance(o, list) and len(o) == 2 and o[0] in _OPS and isinstance(o[1], int)
                and not isinstance(o[1], bool) and 0 <= o[1] < len(engines)):
            return False
    return True


def run_reg(case):
    """-> (violations, classes, touched_connected)"""
    import asyncio
    from unittest.mock import AsyncMock, Mock
    from fastapi_websocket_rpc.schemas import RpcResponse
    from openpectus.aggregator.aggregator import Aggregator
    from openpectus.aggregator.aggregator_message_handlers import AggregatorMessageHandlers
    from openpectus.protocol.aggregator_dispatcher import AggregatorDispatcher
    s = _sut()
    SECRET = "s3cret"
    engines = case["engines"]
    out: list[Violation] = []
    classes: set[str] = set()
    touched = [0]

    async def scenario():
        dispatcher = AggregatorDispatcher()
        publisher = Mock(publish_process_units_changed=AsyncMock(), publish_control_state_changed=AsyncMock())
        aggregator = Aggregator(dispatcher, publisher, Mock(), secret=SECRET)
        AggregatorMessageHandlers(aggregator)
        assert dispatcher._register_handler is not None
        msgs = [_msg(e["c"], e["u"], SECRET if e.get("secret_ok", True) else "wrong",
                     None if e.get("version_ok", True) else "0.0.0-other", bool(e.get("ignore_version", False)))
                for e in engines]
        granted: list = [None] * len(engines)      # id the engine holds from its last successful registration
        channel: list = [None] * len(engines)      # live (accepted) channel of the engine
        owner: dict = {}                           # model: connected id -> (engine index, channel)

        def verify(opname, step):
            for eid, (oi, och) in owner.items():
                cur = dispatcher._engine_id_channel_map.get(eid)
                if cur is not och or not dispatcher.has_connected_engine_id(eid):
                    out.append(Violation("takeover:owner-lost:" + opname,
                                         "step %d (%s): engine #%d (computer=%r, uod=%r) is connected under id %r but the "
                                         "dispatcher now maps that id to %s"
                                         % (step, opname, oi, engines[oi]["c"], engines[oi]["u"], eid,
                                            "nothing" if cur is None else "another channel"), case))
                    return False
            return True

        for step, (op, i) in enumerate(case["ops"]):
            if op == "reg":
                try:
                    eid = aggregator.create_engine_id(msgs[i])
                except Exception:
                    classes.add("reg:id-raises")
                    return
                busy = eid in owner
                reply = await dispatcher._register_handler(msgs[i])
                if busy:
                    touched[0] += 1
                    classes.add("reg-while-connected:" + ("same-engine" if owner[eid][0] == i else
                                                          "same-names" if (engines[owner[eid][0]]["c"], engines[owner[eid][0]]["u"])
                                                          == (engines[i]["c"], engines[i]["u"]) else "colliding-names"))
                    if reply.success:
                        oi = owner[eid][0]
                        out.append(Violation("takeover:register-accepted",
                                             "step %d: registration of (computer=%r, uod=%r) was accepted with engine id %r while "
                                             "engine #%d (computer=%r, uod=%r) is connected under that id"
                                             % (step, engines[i]["c"], engines[i]["u"], eid, oi, engines[oi]["c"], engines[oi]["u"]), case))
                else:
                    classes.add("reg-free:" + ("accepted" if reply.success else "refused"))
                if reply.success:
                    granted[i] = reply.engine_id
            elif op == "conn":
                if granted[i] is None or channel[i] is not None:
                    classes.add("op-skipped")
                    continue
                eid = granted[i]
                response = RpcResponse[str | None](result=eid, result_type=None)
                ch = Mock(close=AsyncMock(), other=Mock(get_engine_id_async=AsyncMock(return_value=response)))
                busy = eid in owner
                await dispatcher._on_delayed_client_connect(ch)
                if busy:
                    touched[0] += 1
                    classes.add("conn-while-connected:" + ("closed" if ch.close.called else "not-closed"))
                    # the websocket endpoint reports the closed socket back through on_disconnect
                    if not verify("conn", step):
                        return
                    await dispatcher.on_client_disconnect(ch)
                    if not verify("refused-channel-disconnect", step):
                        return
                    continue
                if dispatcher._engine_id_channel_map.get(eid) is ch:
                    owner[eid] = (i, ch)
                    channel[i] = ch
                    classes.add("conn-free:accepted")
                else:
                    classes.add("conn-free:refused")
            else:  # disc
                if channel[i] is None:
                    classes.add("op-skipped")
                    continue
                ch = channel[i]
                eid = [k for k, v in owner.items() if v[1] is ch][0]
                del owner[eid]
                channel[i] = None
                await dispatcher.on_client_disconnect(ch)
                classes.add("disc")
            if not verify(op, step):
                return
        for _ in range(3):   # let the fire-and-forget publisher tasks finish
            await asyncio.sleep(0)

    s["loop"].run_until_complete(scenario())
    return out, sorted(classes), touched[0]


def check_case(case) -> list[Violation]:
    if not isinstance(case, dict):
        return []
    if case.get("kind") == "pair":
        return check_pair(case)
    if case.get("kind") == "reg" and _reg_case_ok(case):
        return run_reg(case)[0]
    return []


# ---- generators -----------------------------------------------------------------------------------

_BASE_ALPHABET = "ab_AB%/?#&= .-~+:@éü日ß25fF_"
_name_chars = st.one_of(st.sampled_from(list(_BASE_ALPHABET)), st.sampled_from(list(_BASE_ALPHABET)),
                        st.characters(blacklist_categories=("Cs", "Cc")))
_names = st.text(_name_chars, min_size=1, max_size=14).filter(lambda s: s.strip() != "")
_MODES = ["independent", "shift", "shift", "resplit", "swap", "case", "pad", "pct-encode", "pct-decode", "normal-form",
          "sep-variant"]


def _transform(draw, mode, c, u):
    if mode == "shift":
        raw = c + SEP + u
        cuts = [k for k, ch in enumerate(raw) if ch == SEP and k != len(c)
                and raw[:k].strip() != "" and raw[k + 1:].strip() != ""]
        if cuts:
            k = draw(st.sampled_from(cuts))
            return raw[:k], raw[k + 1:]
    elif mode == "resplit":
        raw = c + u
        cuts = [k for k in range(1, len(raw)) if k != len(c) and raw[:k].strip() != "" and raw[k:].strip() != ""]
        if cuts:
            k = draw(st.sampled_from(cuts))
            return raw[:k], raw[k:]
    elif mode == "swap":
        return u, c
    elif mode == "case":
        return (c.swapcase(), u) if draw(st.booleans()) else (c, u.swapcase())
    elif mode == "pad":
        w = draw(st.sampled_from([0, 1, 2, 3]))
        return [(" " + c, u), (c + " ", u), (c, " " + u), (c, u + " ")][w]
    elif mode == "pct-encode":
        which = draw(st.booleans())
        s = c if which else u
        k = draw(st.integers(0, len(s) - 1))
        enc = "".join("%%%02X" % byte for byte in s[k].encode("utf-8"))
        if draw(st.booleans()):
            enc = enc.lower()
        s2 = s[:k] + enc + s[k + 1:]
        return (s2, u) if which else (c, s2)
    elif mode == "pct-decode":
        if re.search(r"%[0-9A-Fa-f]{2}", c + u):
            return _ref_unquote(c), _ref_unquote(u)
        c2 = c + "%5F"
        return _ref_unquote(c2), u
    elif mode == "normal-form":
        form = draw(st.sampled_from(["NFD", "NFC", "NFKC", "NFKD"]))
        return unicodedata.normalize(form, c), unicodedata.normalize(form, u)
    elif mode == "sep-variant":
        rep = draw(st.sampled_from(["%5F", "%5f", "-", "__", " ", "＿"]))
        if SEP in c:
            return c.replace(SEP, rep, 1), u
        if SEP in u:
            return c, u.replace(SEP, rep, 1)
        return c + rep, u
    return None


@st.composite
def pair_cases(draw):
    c, u = draw(_names), draw(_names)
    mode = draw(st.sampled_from(_MODES))
    if mode == "shift" and draw(st.booleans()):
        # guarantee a second separator: a = (x_y, z)  ->  b = (x, y_z)
        x, y, z = c, draw(_names), u
        c, u = x + SEP + y, z
        b = (x, y + SEP + z)
        return {"kind": "pair", "a": [c, u], "b": [b[0], b[1]]}, mode
    b = None if mode == "independent" else _transform(draw, mode, c, u)
    if b is None or not _pair_ok(b) or list(b) == [c, u]:
        mode = "independent"
        b = (draw(_names), draw(_names))
    return {"kind": "pair", "a": [c, u], "b": [b[0], b[1]]}, mode


def _all_names(alphabet, maxlen):
    out = []
    for n in range(1, maxlen + 1):
        for t in itertools.product(alphabet, repeat=n):
            s = "".join(t)
            if s.strip() != "":
                out.append(s)
    return out


_REL_NAMES = {
    "same-pair": [("a_b", "c"), ("a_b", "c")],
    "colliding": [("a_b", "c"), ("a", "b_c")],      # collide on the unchanged tree (separator shift)
    "distinct": [("a_b", "c"), ("a_b", "d")],
}

_reg_names = st.sampled_from(["a", "b", "a_b", "b_c", "c", "a b", "x/y", "a_b_c", "%41", "A"])


@st.composite
def reg_cases(draw):
    n = draw(st.integers(2, 4))
    engines = []
    for _ in range(n):
        engines.append({"c": draw(_reg_names), "u": draw(_reg_names),
                        "secret_ok": draw(st.sampled_from([True, True, True, False])),
                        "version_ok": draw(st.sampled_from([True, True, False])),
                        "ignore_version": draw(st.booleans())})
    if draw(st.booleans()):     # make a collision / duplicate likely
        j, k = draw(st.integers(0, n - 1)), draw(st.integers(0, n - 1))
        if j != k:
            t = _transform(draw, draw(st.sampled_from(["shift", "same"])), engines[j]["c"], engines[j]["u"])
            engines[k]["c"], engines[k]["u"] = t if t is not None else (engines[j]["c"], engines[j]["u"])
    ops = [("reg", i) for i in range(n) if draw(st.booleans())]      # most engines register before anything else
    ops += draw(st.lists(st.tuples(st.sampled_from(["reg", "reg", "conn", "conn", "conn", "disc"]), st.integers(0, n - 1)),
                         min_size=1, max_size=14))
    return {"kind": "reg", "engines": engines, "ops": [[o, i] for o, i in ops]}


# ---- shard driver -----------------------------------------------------------------------------------

def _record_reg(col, case, extra_classes):
    vs, classes, touched = run_reg(case)
    col.record(case, touched > 0, classes=["kind:reg"] + extra_classes + ["reg:" + c for c in classes], violations=vs)


def run_shard(col, cfg):
    # 1. exhaustive pairs: bucket every name pair by id; this shard owns the ids with crc32(id) % nshards == shard
    names = _all_names(cfg["alphabet"], cfg["maxlen"])
    col.extra["enumerated_names"] = len(names) if col.shard == 0 else 0
    first: dict[str, tuple] = {}
    enumerated = 0
    for c in names:
        if col.expired():
            break
        for u in names:
            r = engine_id(c, u)
            if r[0] == "raise":
                key = "raise:" + c + "\x00" + u
            else:
                key = r[1]
            if zlib.crc32(key.encode("utf-8", "surrogatepass")) % col.nshards != col.shard:
                continue
            enumerated += 1
            other = first.get(key)
            if other is None:
                first[key] = (c, u)
            case = {"kind": "pair", "a": [c, u], "b": list(other) if other is not None else None}
            vs = check_pair(case)
            special = _special(c) or _special(u)
            col.record(case, special, classes=["kind:pair-enum", "enum:special" if special else "enum:plain",
                                               "enum:has-partner" if other is not None else "enum:unique-so-far"],
                       violations=vs)
    col.extra["enumerated_name_pairs"] = enumerated
    first.clear()

    # 2. exhaustive registration histories over two engines x three name relations
    syms = [(o, i) for o in _OPS for i in (0, 1)]
    k = 0
    for rel in ("same-pair", "colliding", "distinct"):
        engines = [{"c": c, "u": u, "secret_ok": True, "version_ok": True, "ignore_version": False} for c, u in _REL_NAMES[rel]]
        for n in range(1, cfg["reg_len"] + 1):
            for seq in itertools.product(syms, repeat=n):
                k += 1
                if k % col.nshards != col.shard:
                    continue
                if col.expired():
                    break
                _record_reg(col, {"kind": "reg", "engines": engines, "ops": [[o, i] for o, i in seq]}, ["reg-enum:" + rel])

    # 3. generated longer names / histories
    seed = shard_seed(col.seed, col.shard)

    def pair_body(x):
        case, mode = x
        vs = check_pair(case)
        special = any(_special(s) for s in case["a"] + case["b"])
        col.record(case, special, classes=["kind:pair-gen", "gen:" + mode], violations=vs)

    hyp_run(pair_cases(), pair_body, max(1, cfg["hyp_pairs"] // col.nshards), seed * 10 + 1, col)
    hyp_run(reg_cases(), lambda case: _record_reg(col, case, ["reg-gen"]), max(1, cfg["hyp_regs"] // col.nshards), seed * 10 + 2, col)


def shrink_hints(case):
    if isinstance(case, dict) and case.get("kind") == "pair" and case.get("b"):
        for k in ("a", "b"):
            for j in (0, 1):
                s = case[k][j]
                for t in {s[1:], s[:-1], s.replace("é", "a"), "a"}:
                    if t != s and t.strip():
                        c = {"kind": "pair", "a": list(case["a"]), "b": list(case["b"])}
                        c[k][j] = t
                        yield c
