"""C10 - Stop and Restart leave no command running and start cleanly.

Domain : Hypothesis-generated methods with long-running (Slow: n) and overlapping (OvA/OvB) UOD commands, timed
         Pause/Hold, Simulate, Watch/Alarm/Block, now and then a failing (Boom) or rejected (Bad) command or a
         method-issued Stop/Restart, plus 0-3 earlier user requests / injected commands.  For every program a Stop and a
         Restart are delivered at EVERY tick index of its natural length, each (a) as the user request of
         ExecuteControlCommandMsg and (b) as injected code (runs in the interpreter, i.e. after the method line of that tick);
         and at every tick index PAIRS of user requests {Stop,Restart} x {Stop,Restart} 0, 1 or 2 ticks apart (quick: all
         combinations one tick apart, the other distances in rotation; thorough: all).  A rejected request is just not made.
Oracle : judged at every on_stop event (the tick in which Stop completes / Restart reaches its Stopped phase):
           held-instance            uod.command_instances is empty (for Restart also in the tick the new run starts)
           request-still-executing  no UOD request is left in the command manager's executing list
           callback-after-stop      no init/exec callback between on_stop and the next run start, and none ever again for an
                                    instance that existed before the stop
           runlog                   the run log of the run-stopped message (real EngineMessageBuilder.create_run_stopped_msg,
                                    built in an on_stop listener as EngineRunner does) can be built and shows every UOD
                                    instance that executed in the run as ended / cancelled / failed
           simulated                no tag is simulated;   runid-not-cleared   Run Id is None
         and for Restart: a new run starts in the next tick (restart:no-new-run) under a non-empty, never used Run Id
         (runid-not-fresh), and the new run's effects (marks, command callbacks with arguments and iteration, block events,
         System State; tick by tick) equal those of a fresh Start of the same method (restart:not-from-first-line when the
         first effect differs, restart:differs-from-fresh-start otherwise) up to the next external request.
         An accepted user Restart with no Stop requested/begun from 3 ticks before it onwards must lead to a new run within 8
         ticks (restart:accepted-but-no-new-run:<run-ended|run-not-ended>); with a Stop nearby the winner is not judged.
Signatures name the mechanism: args-rejected:instance-never-disposed (an instance whose arguments were rejected never
gets a callback and is never removed), started-after-cancel:<code-issued|user-request>:command-survives-stop (a command
first initialised after the Stop/Restart - issued by code or requested by the user - had cancelled the running commands),
restarted-after-cancel:command-survives-stop (an instance id that was cancelled + finalized and then created again by its own
stale request), pending-request-started-after-cancel:command-survives-stop (a request left un-started by an aborted command
loop starts after a later Stop/Restart cancelled everything), not-cancelled:<Stop|Restart>:<symptom> (a command that was running
before), runlog:not-producible:<exception>; symptoms that merely follow from a leaked instance at the same stop (old
instance executing in the new run, restart differing from a fresh start) are attributed to that mechanism and counted.
"""
from __future__ import annotations

from hypothesis import strategies as st

from vp.core.framework import Violation, hyp_run, shard_seed
from vp.harness import cmd_h as C

ID = "C10"
LEVEL = "exploration"
ENGINE = "engine_harness"
TECHNIQUE = ("generated command-heavy methods x exhaustive enumeration of the stop tick (user/injected Stop/Restart at every "
             "tick index); history invariants at on_stop + differential against a fresh Start after Restart")
RULE = ("Hypothesis draws a method (Slow/OvA/OvB of 1..N iterations, timed Pause/Hold, Simulate, Watch/Alarm/Block, rarely "
        "Boom/Bad/Stop/Restart lines), constant inputs and 0-3 earlier requests; the check then enumerates every tick index "
        "of the method's natural length x {user Stop, user Restart, injected Stop, injected Restart}. One case = one "
        "(method, earlier requests, stop point, delivery). Non-trivial = a run was stopped/restarted while a UOD command "
        "instance existed or a timed Pause/Hold was executing in the tick before the Stop/Restart began, or a command "
        "callback happened in the tick it began. Distinct = distinct case JSON.")
ASSUMPTIONS = [
    "'completes' = the tick in which the engine emits on_stop (Stop: state becomes Stopped; Restart: its Stopped phase); for "
    "Restart the instance check is repeated in the tick the new run starts",
    "'shown as completed, failed or cancelled' = the run-stopped message has a line whose id is the instance id and whose end "
    "is set or whose cancelled/failed flag is set (RunLogLine has no state field)",
    "'started in the run' = the instance received an exec callback between the run's on_start and on_stop; commands issued with "
    "execute_control_command_from_user are not generated here (their records are NullNodes, which the run log omits by design)",
    "'runs again from its first line' is decided differentially: same per-tick effects as a fresh Start of the same method with "
    "the same constant inputs, compared until the next external request",
    "inputs are constant per case; Watch/Alarm conditions therefore fire at once or never unless a Simulate line changes them",
]
TIERS = {
    "quick": {"programs": 400, "pairs": "rotating", "max_len": 40, "post": 12, "long_max": 8, "depth": 2, "top": 8, "budget_s": 110},
    "thorough": {"programs": 2000, "pairs": "all", "max_len": 70, "post": 18, "long_max": 14, "depth": 3, "top": 12, "budget_s": 1500},
}
RESTART_BOUND = 8      # ticks; Restart takes 3 (Restarting, Stopped, Running)
MODES = [("user", "Stop"), ("user", "Restart"), ("inject", "Stop"), ("inject", "Restart")]


# ---------------------------------------------------------------------------------------------
# generation
# ---------------------------------------------------------------------------------------------

def _cfg(cfg):
    return C.cfg_with({"stop": 1, "restart": 1}, max_depth=cfg["depth"], max_top=cfg["top"])


@st.composite
def bases(draw, cfg):
    tree = draw(C.programs(_cfg(cfg), long_max=cfg["long_max"], faulty_every=8))
    pre = []
    for _ in range(draw(st.sampled_from([0, 0, 1, 1, 2, 3]))):
        i = draw(st.integers(0, cfg["max_len"] - 5))
        if draw(st.integers(0, 2)) == 0:
            pre.append([i, "inject", draw(C.snippet(kinds=("slow", "ova", "ovb", "quick", "pause", "hold"), long_max=cfg["long_max"]))])
        else:
            pre.append([i, "user", draw(st.sampled_from(["Pause", "Unpause", "Hold", "Unhold", "Pause", "Hold"]))])
    pre.sort(key=lambda o: o[0])
    return {"tree": tree, "inputs": draw(C.INPUTS), "pre": pre}


def make_case(base, j: int, delivery, post: int) -> dict:
    """delivery: [(offset, mode, cmd), ...] - requests made before tick index j + offset"""
    ops = [o for o in base["pre"] if o[0] <= j]
    for off, mode, cmd in delivery:
        ops.append([j + off, "user", cmd] if mode == "user" else [j + off, "inject", [[cmd.lower(), 0]]])
    return {"tree": base["tree"], "inputs": base["inputs"], "ops": ops, "n_ticks": j + max(d[0] for d in delivery) + 1 + post}


PAIR_COMBOS = [("Stop", "Stop"), ("Stop", "Restart"), ("Restart", "Stop"), ("Restart", "Restart")]


def deliveries(j: int, pairs: str) -> list:
    """single deliveries + pairs of user requests 0, 1 or 2 ticks apart (a rejected second request is simply not made: the
    runner counts it).  'rotating': every pair combination one tick apart, the 0- and 2-tick distances for one combination
    per tick index in turn; 'all': every combination at every distance"""
    out = [[(0, mode, cmd)] for mode, cmd in MODES]
    for k, (a, b) in enumerate(PAIR_COMBOS):
        for d in (0, 1, 2):
            if pairs == "all" or d == 1 or k == j % 4:
                out.append([(0, "user", a), (d, "user", b)])
    return out


def reference(case, n: int) -> list:
    """effects of a fresh Start of the same method (no requests)"""
    tr = C.run_case({"tree": case["tree"], "inputs": case.get("inputs", {}), "ops": [], "n_ticks": n})
    return C.effects(tr, 0, n)


# ---------------------------------------------------------------------------------------------
# oracle
# ---------------------------------------------------------------------------------------------

def oracle(case, tr: C.Trace, ref_eff: list | None = None) -> tuple[list[Violation], dict]:
    out: list[Violation] = []
    info = {"stops": 0, "restarts": 0, "alive_at_stop": False, "timed_at_stop": False, "sim_at_stop": False,
            "paused_at_stop": False, "holding_at_stop": False, "error_at_stop": False, "overlap_alive": False,
            "restart_compared": 0, "compared_ticks": 0, "derived_suppressed": 0, "uod_in_runlog": 0, "callback_in_begin_tick": False,
            "stop_kinds": [], "deliveries": [], "suppressed_by": [], "leftover_suppressed": [], "restart_accepted": 0,
            "restart_vs_stop_not_judged": 0, "restart_request_left_after_stop": False, "tick_raised": 0}

    def viol(sig, msg):
        if not any(v.sig == sig for v in out):
            out.append(Violation(sig, msg, case))

    insts = C.instances(tr.events, tr)
    runs = C.runs_of(tr)
    seen_ids: list = []
    leaked_earlier: dict = {}      # instance id -> mechanism under which its leak was reported at the end of an earlier run
    for ri, r in enumerate(runs):
        seen_ids.append(r["run_id"])
        s = r["stop_tick"]
        if s is None:
            continue
        kind = r["kind"]
        T = tr.by_no(s)
        B = tr.by_no(s - 1)      # the tick in which Stop/Restart began (cancel_all_commands)
        P = tr.by_no(s - 2)      # the tick before
        nxt = runs[ri + 1] if ri + 1 < len(runs) else None
        stop_pos = r["stop_pos"]
        next_start_pos = nxt["start_pos"] if nxt is not None else len(tr.events)
        info["stops" if kind == "Stop" else "restarts"] += 1
        info["stop_kinds"].append(kind)
        if P is not None and P.no >= r["start_tick"]:
            if P.inst:
                info["alive_at_stop"] = True
                if any(C.group_of(n) != n for n, _ in P.inst):
                    info["overlap_alive"] = True
            if any(n in ("Pause", "Hold") for n in P.internal):
                info["timed_at_stop"] = True
            if P.simulated:
                info["sim_at_stop"] = True
            info["paused_at_stop"] |= P.state == "Paused"
            info["holding_at_stop"] |= P.state == "Holding"
            info["error_at_stop"] |= P.status == "Error"
        if B is not None and any(e[1] == "cmd" for e in B.ev):
            info["callback_in_begin_tick"] = True
        # position at which this Stop/Restart cancelled the running commands (engine.cancel_all_commands, logged by the runner)
        marks = [p for p, ev in enumerate(tr.events[:stop_pos]) if ev[1] == "cancel_all" and p > r["start_pos"]]
        begin_pos = marks[-1] if marks else stop_pos
        # how this Stop/Restart was delivered (user request vs issued by code: method line, Watch/Alarm body, injected code)
        delivery = {"user": "user-request", "code": "code-issued"}.get(tr.events[marks[-1]][3], "unknown-delivery") \
            if marks else "unknown-delivery"
        info["deliveries"].append(delivery)

        def cause(iid) -> str:
            if iid in leaked_earlier:
                # held since the end of an earlier run, where it was reported under its mechanism; not judged again here
                return "leftover-of-earlier-run=" + leaked_earlier[iid]
            it = insts.get(iid)
            if it is None or (not it.init and not it.exec):
                return "args-rejected"       # an instance object that never got a callback: created, arguments rejected
            began = [p for p, _ in it.init] or [p for p, _ in it.exec]
            if max(began) >= begin_pos:
                if any(fp < max(began) for fp, _ in it.fin):
                    # the instance id had a life before: it was cancelled + finalized and then its own, still listed request
                    # created it again (by-name cancellation in the command manager); independent of how Stop was delivered
                    return "restarted-after-cancel"
                if P is not None and any(rid == iid for _n, rid in P.reqs):
                    # its request was already listed before the tick of the Stop/Restart but had not started (the command loop
                    # of that tick was aborted by a failing command): every later Stop/Restart is placed in front of it
                    return "pending-request-started-after-cancel"
                return "started-after-cancel"   # requested in the tick of the Stop/Restart, started after its cancellation
            return "not-cancelled"

        symptoms: dict = {}      # mechanism -> {symptom: message}

        def symptom(mech, name, msg):
            symptoms.setdefault(mech, {}).setdefault(name, msg)

        # (1) no command holds an instance / is still executing
        checks = [(T, "")]
        if kind == "Restart" and nxt is not None and tr.by_no(nxt["start_tick"]) is not None:
            checks.append((tr.by_no(nxt["start_tick"]), " (tick the new run starts)"))
        for tk, where in checks:
            for name, iid in tk.inst:
                symptom(cause(iid), "held-instance", "tick %d%s: %s completed but uod.command_instances still holds %s "
                        "(instance ..%s)" % (tk.no, where, kind, name, iid[-4:]))
            for name, iid in tk.reqs:
                symptom(cause(iid), "request-still-executing", "tick %d%s: %s completed but the request of %s (..%s) is "
                        "still in the executing list" % (tk.no, where, kind, name, iid[-4:]))
        # (2) no callbacks after the stop
        old_in_new = None
        for it in insts.values():
            for ph, lst in (("init", it.init), ("exec", it.exec)):
                for pos, tick in lst:
                    if stop_pos < pos < next_start_pos:
                        symptom(cause(it.id), "callback-after-stop", "tick %d: %s callback of %s (..%s) after on_stop of tick "
                                "%d and before any new run" % (tick, ph, it.name, it.id[-4:], s))
                    elif pos >= next_start_pos and it.first_pos < stop_pos and old_in_new is None:
                        old_in_new = "tick %d: %s callback of %s (..%s), an instance of the run that ended in tick %d" \
                            % (tick, ph, it.name, it.id[-4:], s)
        # (3) run log of the run-stopped message
        recs = [x for x in tr.stops if x["pos"] == stop_pos + 1 or x["tick"] == s]
        rec = recs[0] if recs else None
        if rec is None:
            viol("harness:no-stop-record", "no run-stopped record for the on_stop of tick %d" % s)
        elif rec["error"] is not None:
            # context of the failure (narrows the signature to the mechanism): a command whose exec raised in this run, or a
            # method line whose command was invoked again (Alarm body) while the run lasted
            in_run = [it for it in insts.values() if it.exec and r["start_pos"] < it.exec[0][0] < stop_pos]
            failed = any(it.name == "Boom" for it in in_run)
            per_line: dict = {}
            for it in in_run:
                per_line[(it.name, it.args)] = per_line.get((it.name, it.args), 0) + 1
            ctx = "command-failed" if failed else ("line-reinvoked" if any(v > 1 for v in per_line.values()) else "other")
            viol("runlog:not-producible:%s:%s" % (rec["error"].split(":")[0], ctx),
                 "tick %d (%s): the run-stopped message could not be built: %s" % (s, kind, rec["error"]))
        else:
            lines = {}
            for l in rec["lines"]:
                lines.setdefault(l["id"], []).append(l)
            for it in insts.values():
                if not it.exec or not (r["start_pos"] < it.exec[0][0] < stop_pos) or it.name in ("Open1", "Open2"):
                    continue
                info["uod_in_runlog"] += 1
                ls = lines.get(it.id, [])
                # every life of the instance id ended before on_stop (an id that was re-initialised after its finalize has 2 lives)
                finalized = bool(it.fin) and sum(1 for p, _ in it.fin if p < stop_pos) >= sum(1 for p, _ in it.init if p < stop_pos)
                if finalized and (not ls or (len(ls) == 1 and ls[0]["end"] is None and not ls[0]["cancelled"] and not ls[0]["failed"])):
                    # the command did end (finalize callback before on_stop): only the run log is wrong
                    # mechanism: does another line of the same instruction text carry a final state although its instance
                    # never executed?  (final state booked on another instance of the same method line)
                    twin = [l for l in rec["lines"] if l["id"] != it.id and ls and l["name"] == ls[0]["name"]
                            and (l["end"] is not None or l["cancelled"] or l["failed"])
                            and not (insts.get(l["id"]) and insts[l["id"]].exec)]
                    lives = sum(1 for p, _ in it.init if p < stop_pos)
                    if lives > 1:
                        # the instance id was cancelled + finalized and created again by its own stale request (by-name
                        # cancellation in CommandManager._cancel_command: the Cancelled state of the first life is booked on the
                        # request that was named, which never ran): a consequence of restarted instances, not of the tracking
                        sig_rl = "runlog:restarted-instance-shown-%s" % ("running" if ls else "missing")
                    elif twin:
                        sig_rl = "runlog:final-state-booked-on-other-instance"
                    else:
                        sig_rl = "runlog:finalized-instance-shown-%s" % ("running" if ls else "missing")
                    viol(sig_rl,
                         "tick %d (%s): %s (..%s, args %r) was finalized in tick %d but the run-stopped run log %s"
                         % (s, kind, it.name, it.id[-4:], it.args, it.fin[0][1],
                            ("shows %r with end=None cancelled=False failed=False" % ls[0]["name"]) if ls else "has no line for it")
                         + ((" (the instance id had %d lives: re-initialised after finalize in ticks %r)"
                             % (lives, [t2 for _p, t2 in it.init][1:])) if lives > 1 else ""))
                elif not ls:
                    symptom(cause(it.id), "runlog-missing", "tick %d: %s (..%s, args %r) executed in the run but the "
                            "run-stopped run log has no line for it" % (s, it.name, it.id[-4:], it.args))
                elif len(ls) > 1:
                    viol("runlog:duplicate-line:%s" % kind, "tick %d: %d run log lines for instance ..%s of %s"
                         % (s, len(ls), it.id[-4:], it.name))
                elif ls[0]["end"] is None and not ls[0]["cancelled"] and not ls[0]["failed"]:
                    symptom(cause(it.id), "runlog-not-final", "tick %d: run-stopped run log shows %r (..%s) still running: "
                            "end=None cancelled=False failed=False progress=%r" % (s, ls[0]["name"], it.id[-4:], ls[0]["progress"]))
        # one signature per mechanism for the two mechanisms that are independent of the Stop/Restart bodies; the symptoms are
        # listed in the message.  'not-cancelled' (a command that was running before the Stop/Restart began) keeps phase + symptom
        for mech in sorted(symptoms):
            sy = symptoms[mech]
            if mech == "args-rejected":
                viol("args-rejected:instance-never-disposed", "[%s] %s" % (", ".join(sorted(sy)), sorted(sy.values())[0]))
            elif mech == "started-after-cancel":
                # the delivery is part of the mechanism: for a Stop/Restart issued by code the request queue order puts the
                # Stop ahead of a command the main thread requested in that tick; for a user request it does not
                viol("started-after-cancel:%s:command-survives-stop" % delivery,
                     "[%s] (%s %s) %s" % (", ".join(sorted(sy)), delivery, kind, "; ".join(sy[k] for k in sorted(sy))))
            elif mech == "pending-request-started-after-cancel":
                viol("pending-request-started-after-cancel:command-survives-stop",
                     "[%s] (%s %s) %s" % (", ".join(sorted(sy)), delivery, kind, "; ".join(sy[k] for k in sorted(sy))))
            elif mech == "restarted-after-cancel":
                viol("restarted-after-cancel:command-survives-stop",
                     "[%s] (%s %s) %s" % (", ".join(sorted(sy)), delivery, kind, "; ".join(sy[k] for k in sorted(sy))))
            elif mech.startswith("leftover-of-earlier-run"):
                info["leftover_suppressed"].append(mech.split("=", 1)[1])
            else:
                for name in sorted(sy):
                    viol("not-cancelled:%s:%s" % (kind, name), sy[name])
        for tk, _w in checks:
            for _n, iid in tk.inst:
                if iid not in leaked_earlier:
                    m = cause(iid)
                    leaked_earlier[iid] = m + ((":" + delivery) if m == "started-after-cancel" else "")
        leaked = bool(symptoms)
        if leaked:
            info["derived_suppressed"] += 1
            info["suppressed_by"].extend("%s%s" % (m.split("=")[-1], (":" + delivery) if m == "started-after-cancel" else "")
                                         for m in sorted(symptoms))
        if old_in_new is not None and not leaked:
            viol("callback-after-stop:%s:old-instance-in-new-run" % kind, old_in_new)
        if kind == "Stop" and "Restart" in T.internal:
            info["restart_request_left_after_stop"] = True   # internal command, outside the statement (C06): classified only
        # (4) simulations cleared, (5) run id cleared
        for name in T.simulated:
            viol("simulated-after:%s" % kind, "tick %d: %s completed but tag %s is still simulated" % (s, kind, name))
        if T.run_id is not None:
            viol("runid-not-cleared:%s" % kind, "tick %d: %s completed but Run Id is %r" % (s, kind, T.run_id))
        # (6) Restart: new run, fresh id, from the first line
        if kind == "Restart" and tr.by_no(s + 1) is not None:
            if nxt is None or nxt["start_tick"] != s + 1:
                viol("restart:no-new-run", "tick %d: Restart reached Stopped but no run started in tick %d (state %s)"
                     % (s, s + 1, tr.by_no(s + 1).state))
            else:
                N = tr.by_no(s + 1)
                if not N.run_id or N.run_id in seen_ids or N.run_id != nxt["run_id"]:
                    viol("runid-not-fresh:Restart", "tick %d: run id after Restart is %r (earlier ids %r)"
                         % (N.no, N.run_id, [x[-4:] for x in seen_ids if x]))
                if N.state != "Running":
                    viol("restart:not-running", "tick %d: state %s in the tick the restarted run starts" % (N.no, N.state))
                # horizon: ticks after the new start without any external request
                horizon = 0
                while True:
                    t = tr.by_no(N.no + horizon + 1)
                    if t is None or t.ops:
                        break
                    horizon += 1
                late_ops = any(t.ops for t in tr.ticks if s <= t.no <= N.no)
                if horizon > 0 and not late_ops and not leaked:   # a leaked instance is reported by its mechanism above
                    if ref_eff is None or len(ref_eff) < horizon:
                        ref_eff = reference(case, horizon)
                    got = C.effects(tr, N.no, horizon)
                    info["restart_compared"] += 1
                    info["compared_ticks"] += horizon
                    first_seen = False
                    for k in range(min(len(got), len(ref_eff))):
                        if got[k] != ref_eff[k]:
                            sig = "restart:differs-from-fresh-start" if first_seen else "restart:not-from-first-line"
                            viol(sig, "tick %d (= %d ticks after the restarted run began): state/effects %r, a fresh Start "
                                 "of the same method gives %r" % (N.no + k + 1, k + 1, got[k], ref_eff[k]))
                            break
                        if got[k][1]:
                            first_seen = True
    # (7) a user Restart that was accepted leads to a new run within RESTART_BOUND ticks - unless a Stop (user, injected or a
    # method line) was accepted / began from 3 ticks before the request onwards: which of the two wins is not stated
    stop_activity = [t.no for t in tr.ticks for o in t.ops
                     if o[0] in ("user", "inject") and o[2] and (o[1] == "Stop" or o[1] == [["stop", 0]])]
    stop_activity += [e[0] for e in tr.events if e[1] == "cancel_all" and e[2] == "Stop"]
    last_no = tr.ticks[-1].no if tr.ticks else -1
    for t in tr.ticks:
        for o in t.ops:
            if not (o[0] == "user" and o[1] == "Restart" and o[2]) or last_no < t.no + RESTART_BOUND:
                continue
            info["restart_accepted"] += 1
            if any(e[1] == "start" and t.no <= e[0] <= t.no + RESTART_BOUND for e in tr.events):
                continue
            if any(x >= t.no - 3 for x in stop_activity):
                info["restart_vs_stop_not_judged"] += 1
                continue
            ended = [r for r in runs if r["stop_tick"] is not None and r["stop_tick"] >= t.no]
            viol("restart:accepted-but-no-new-run:%s" % ("run-ended" if ended else "run-not-ended"),
                 "user Restart accepted before tick %d (state then %s), no Stop requested, but no run started up to tick %d; "
                 "the running run %s; state at the end: %s, Run Id %r"
                 % (t.no, tr.by_no(t.no - 1).state if tr.by_no(t.no - 1) else "?", t.no + RESTART_BOUND,
                    ("was ended in tick %d" % ended[0]["stop_tick"]) if ended else "was not ended",
                    tr.ticks[-1].state, tr.ticks[-1].run_id))
    info["tick_raised"] = sum(1 for t in tr.ticks if t.raised is not None)   # judged by C13, only classified here
    return out, info


def check_case(case):
    if not C.valid(case):
        return []
    tr = C.run_case(case)
    return oracle(case, tr)[0]


# ---------------------------------------------------------------------------------------------
# driver
# ---------------------------------------------------------------------------------------------

def _natural_length(tr: C.Trace, max_len: int) -> int:
    last = 0
    prev = None
    for t in tr.ticks:
        if any(e[1] in ("mark", "cmd", "block_start", "block_end", "scope_activate", "start", "stop") for e in t.ev) \
                or t.state != prev or t.inst or t.internal:
            last = t.no
        prev = t.state
    return max(3, min(max_len, last + 2))


def run_shard(col, cfg):
    post = cfg["post"]

    def body(base):
        if col.expired():
            return
        base_tr = C.run_case({"tree": base["tree"], "inputs": base["inputs"], "ops": base["pre"], "n_ticks": cfg["max_len"]})
        L = _natural_length(base_tr, cfg["max_len"])
        kinds = {l.split(":")[0].strip().split(" ")[0] for l in base_tr.lines}
        ref_eff = None
        for j in range(L):
            for dl in deliveries(j, cfg.get("pairs", "rotating")):
                if col.expired():
                    return
                case = make_case(base, j, dl, post)
                tr = C.run_case(case)
                if ref_eff is None and any(c == "Restart" for _o, _m, c in dl):
                    ref_eff = reference(case, cfg["max_len"] + post + 2)
                vs, info = oracle(case, tr, ref_eff)
                n_pre = len(case["ops"]) - len(dl)
                made = [o for t in tr.ticks for o in t.ops if o[0] in ("user", "inject")][n_pre:]
                delivered = [o for o in made if o[2]]
                nontrivial = (info["stops"] + info["restarts"] > 0) and \
                    (info["alive_at_stop"] or info["timed_at_stop"] or info["callback_in_begin_tick"])
                if len(dl) == 1:
                    classes = ["%s-%s" % (dl[0][1], dl[0][2])]
                else:
                    classes = ["pair:%s+%s" % (dl[0][2], dl[1][2]), "pair:%d-ticks-apart" % dl[1][0]]
                    if len(delivered) == 2:
                        classes.append("pair:both-accepted")
                        classes.append("pair:both-accepted:%s+%s:%d-ticks-apart" % (dl[0][2], dl[1][2], dl[1][0]))
                classes += [k for k in ("alive_at_stop", "timed_at_stop", "sim_at_stop", "paused_at_stop", "holding_at_stop",
                                        "error_at_stop", "overlap_alive", "callback_in_begin_tick") if info[k]]
                if info["restart_compared"]:
                    classes.append("restart-compared-with-fresh-start")
                if not delivered:
                    classes.append("request-rejected")
                if info["stops"] + info["restarts"] == 0:
                    classes.append("no-stop-happened")
                if info["stops"] + info["restarts"] > 1:
                    classes.append("several-stops")
                if "Stop" in kinds or "Restart" in kinds:
                    classes.append("method-issues-stop-or-restart")
                if "Boom" in kinds or "Bad" in kinds:
                    classes.append("method-has-failing-or-rejected-command")
                if base["pre"]:
                    classes.append("earlier-requests")
                if info["tick_raised"]:
                    classes.append("tick-raised(judged-by-C13)")
                col.count("count:accepted-user-restarts-judged-for-a-new-run", info["restart_accepted"] - info["restart_vs_stop_not_judged"])
                if info["restart_vs_stop_not_judged"]:
                    classes.append("restart-with-stop-nearby(new-run-not-judged)")
                if info["restart_request_left_after_stop"]:
                    classes.append("stale-Restart-request-listed-after-Stop-completed(not-judged,C06)")
                col.count("count:uod-instances-checked-in-runlog", info["uod_in_runlog"])
                col.count("count:restart-ticks-compared", info["compared_ticks"])
                for m in sorted(set(info["leftover_suppressed"])):
                    col.count("excluded_known:instance-leaked-at-an-earlier-run-end-under:%s" % m)
                for m in sorted(set(info["suppressed_by"])):
                    # derived symptoms (old instance in the new run, restart differing) are not judged separately when the
                    # mechanism signature named here is emitted for the same stop; the mechanism signature itself IS emitted
                    col.count("excluded_known:derived-symptoms-attributed-to:%s" % m)
                col.record(case, nontrivial, classes=classes, violations=vs,
                           sample={"method": tr.lines, "ops": case["ops"], "n_ticks": case["n_ticks"],
                                   "stops": info["stop_kinds"]})
        col.count("count:programs")

    hyp_run(bases(cfg), body, max(1, cfg["programs"] // col.nshards), shard_seed(col.seed, col.shard), col)


def shrink_hints(case):
    """drop earlier requests; shorten the tail"""
    ops = case.get("ops", [])
    for i in range(len(ops) - 1):
        c = dict(case)
        c["ops"] = ops[:i] + ops[i + 1:]
        yield c
    if isinstance(case.get("n_ticks"), int) and ops:
        last = max(o[0] for o in ops)
        for n in (last + 4, last + 6):
            if n < case["n_ticks"]:
                c = dict(case)
                c["n_ticks"] = n
                yield c
