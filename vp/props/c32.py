"""C32 - role-based access control covers every unit and run endpoint.

Statement: a user who lacks every role a process unit or recent run requires can neither read its data, directly or through
the method-editor service, nor send it commands, method edits, cancels or forces; such requests are refused, and listings omit
the unit or run.  Units and runs that require no roles are open to everyone.  (docs/src/User Authorization (OIDC).rst: access is
"restricted to those users who have any of the roles in a given list".)

Case    : {"required": [...], "user": [...], "route": "<METHOD> <route path>", "content": {...}}   roles over {A, B, C(, D)}
          exhaustively, plus pairs of free-text role names with LIKE/JSON metacharacters and near-collisions (TRICKY_PAIRS:
          'Pilot_Plant' vs 'Pilot-Plant', 'QC%' vs 'QC-Lab', 'Lab' vs 'Lab2', 'admin' vs 'Admin', quotes, blanks ...); two roles
          are the same only if the strings are equal.
World   : the real FastAPI application (vp.harness.api_h) with
            T  online unit "PC-T (UodT)" requiring `required`: UOD definition, readings, tags, method (saved once by an entitled
               user), a finished run run-T-old (stored as recent run with run log, method, error log, plot log, archive) and -
               content["run"] - an active run run-T-cur with run log, method state, error log, control state, active user;
            F  unit "PC-F (UodF)" requiring `required`, disconnected (a RecentEngines row: listed as "not online");
            N  online unit requiring no roles with a finished run run-N-old (keeps listings non-empty; identical in both twins).
          Everything arrives the way an engine sends it (POST /engine-rest, websocket-RPC messages); the owner's method save and
          active-user registration are real requests with an entitled identity.
Twin    : the same world with every piece of T's and F's data replaced ("b": other tag values, other method/run-log/error-log
          text, other UOD command names and docstrings, other location/author, other archive) - ids and tag names stay.
          content["stale"] (roles or null): T has an earlier life under the same engine id in which it required `stale`; its
          disconnect left a RecentEngines row with those roles, then the UOD's roles were changed and the engine came back.
          Every world has its own engine/run ids, so state keyed by an id cannot leak from one case into the next.
Request : the JUDGED request is built from the template of the route and sent with the identity (roles=user) injected at the
          dependency boundary.  content["warm"] == "opposite": in the same application another user opens the pages of the
          addressed object first (all its read routes + listings) - a user holding exactly the required roles when the judged user
          is unauthorised, a stranger holding every other role when the judged user is open/entitled.
          Routes are DISCOVERED from app.routes; a route without an entry in TABLE is a harness error.
Oracle  : unauthorised (required != {} and required & user == {}):
            status 403 -> refused.  Anything else -> the same request against the twin world must give the identical status and
            body                                                                   else  leak:<route>[:<probe>]
            listings must not contain T / F / run-T-old                            else  listed:<route>:<what>
            nothing may reach T's engine                                           else  command-forwarded:<route>
            T's method / active users / contributors must be unchanged             else  state-changed:<route>
          authorised (required == {} -> "open", or required & user != {} -> "entitled"):
            status 403 (websocket: refused)                                        ->    denied-open:<route> | denied-entitled:<route>
            listings must contain T, F (units) / run-T-old (runs)                  else  unlisted-open|unlisted-entitled:<route>:<what>
          Other statuses of authorised requests are classified, not judged.
"""
from __future__ import annotations

import itertools
import json

from hypothesis import strategies as st

from vp.core.framework import Violation, hyp_run, shard_seed
from vp.harness.api_h import ApiHarness, HarnessError

ID = "C32"
LEVEL = "exploration"
ENGINE = "aggregator_harness"
DESIGN_REF = "DESIGN.md §3 C32"
TECHNIQUE = ("real FastAPI app + TestClient, identity injected via dependency_overrides; routes discovered from app.routes; exhaustive "
             "required-role x user-role sets over {A,B,C} per route; metamorphic twin world (unit data replaced) for non-interference; "
             "engine-side rpc recording; LSP websocket session (initialize/didOpen/hover/completion)")
RULE = ("Every discovered route that takes a unit, engine or run id, the unit and run listings, the tmLanguage route and the LSP "
        "websocket session x all 8 required-role sets x all 8 user-role sets over {A,B,C} (thorough: 16 x 16 over {A,B,C,D}) plus a list "
        "of (required, user) pairs of free-text role names with LIKE/JSON metacharacters and near-collisions ('Pilot_Plant' vs "
        "'Pilot-Plant', 'QC%' vs 'QC-Lab', 'Lab' vs 'Lab2', 'admin' vs 'Admin', quotes, blanks; thorough: derived systematically "
        "from 8 names) x fixed and Hypothesis-generated unit/run content. "
        "Non-trivial = an unauthorised combination (required non-empty, no common role) on a route whose template returns unit/run "
        "data or forwards a command for an entitled user. Distinct = distinct (required, user, route, content).")
ASSUMPTIONS = [
    "token validation (Azure OIDC/JWT, needs network keys) is outside the check: roles, user id and user name are injected at the FastAPI dependency boundary (auth.user_roles / user_id / user_name)",
    "the LSP endpoints take no identity at all, so the same anonymous request is sent for every user-role set",
    "lint diagnostics of the language server (textDocument/publishDiagnostics) are not observed: pylsp debounces them on a wall-clock timer thread; hover and completion are",
    "the frontend pub/sub websocket, the web-push routes and the engine-side routes do not take a unit or run in their path and are classified out of scope (C33 covers push targeting)",
    "two roles are the same role only if their names are equal strings (case sensitive, as the set intersection of has_access and Azure role values are); near-colliding names are different roles",
    "one judged request per case on a fresh world (own engine/run ids), optionally preceded by another user's read requests in the same application; the same sequence runs against the twin world only when the judged answer was not 403",
    "content['stale'] (when not null): the unit's RecentEngines row was written while the same engine id required other roles (disconnect, UOD roles changed, engine restarted); the live unit's roles decide",
    "content['other'] (when not null) gives the object the route does NOT address other required roles: for unit routes the finished run was stored while the unit required `other`; for run routes the unit (and the offline unit) require `other` now - the decision must follow the addressed object",
]
TIERS = {
    "quick": {"roles": "ABC", "fixed_contents": 2, "drawn_contents": 0, "exhaustive": True, "budget_s": 170},
    "thorough": {"roles": "ABCD", "fixed_contents": 3, "drawn_contents": 1, "exhaustive": True, "budget_s": 850},
}
ROLES = ("A", "B", "C", "D")          # quick uses {A,B,C}; thorough all four (256 combinations per route)


def role_sets(roles):
    return [list(c) for n in range(len(roles) + 1) for c in itertools.combinations(roles, n)]


ALL_ROLES = ("A", "B", "C", "D")
LSP_TEXT = "Watch: TT01 > 5 degC\n    Mark: a\nCmdX: 1\nCm\nWatch: Extra"
LSP_PROBES = [
    {"name": "hover-tag-value", "kind": "hover", "line": 0, "character": 9},          # "Current value: ..." of the live tag
    {"name": "hover-command-doc", "kind": "hover", "line": 2, "character": 2},        # docstring of a UOD command
    {"name": "completion-commands", "kind": "completion", "line": 3, "character": 2},  # UOD command names starting with "Cm"
    {"name": "completion-tags", "kind": "completion", "line": 4, "character": 12},     # tag names starting with "Extra"
]

# ---- the request table -------------------------------------------------------------------------------------
# scope: unit | run | list-units | list-runs | lsp-unit | lsp-ws | out          kind: read | command | effect
# "data": an entitled request returns unit/run data or forwards a command (non-triviality rule)
_PU = "/api/process_unit/"
_CMD = {"command": "Mark: injected", "source": "manually_entered"}
_BTN = {"command": "Start", "source": "unit_button"}
_METHOD = {"lines": [{"id": "n1", "content": "Mark: edited"}, {"id": "n2", "content": ""}], "version": 1, "last_author": ""}


def _u(path, kind="read", data=True, **kw):
    return dict(scope="unit", kind=kind, data=data, path=path, **kw)


def _r(path, data=True):
    return dict(scope="run", kind="read", data=data, path=path)


def _out(reason):
    return dict(scope="out", reason=reason)


TABLE = {
    ("GET", _PU + "{unit_id}"): _u(_PU + "{T}"),
    ("GET", "/api/process_units"): dict(scope="list-units", kind="read", data=True, path="/api/process_units", offline=True),
    ("GET", _PU + "{engine_id}/process_values"): _u(_PU + "{T}/process_values"),
    ("GET", _PU + "{engine_id}/all_process_values"): _u(_PU + "{T}/all_process_values"),
    ("GET", "/api/process_units/all_process_values"): dict(scope="list-units", kind="read", data=True,
                                                           path="/api/process_units/all_process_values", offline=False),
    ("POST", _PU + "{unit_id}/execute_command"): _u(_PU + "{T}/execute_command", "command", json=_CMD),
    ("POST", _PU + "{unit_id}/execute_control_button_command"): _u(_PU + "{T}/execute_control_button_command", "command", json=_BTN),
    ("GET", _PU + "{unit_id}/process_diagram"): _u(_PU + "{T}/process_diagram", data=False),
    ("GET", _PU + "{unit_id}/command_examples"): _u(_PU + "{T}/command_examples"),
    ("GET", _PU + "{unit_id}/run_log"): _u(_PU + "{T}/run_log"),
    ("GET", _PU + "{unit_id}/method-and-state"): _u(_PU + "{T}/method-and-state"),
    ("GET", _PU + "{unit_id}/method"): _u(_PU + "{T}/method"),
    ("POST", _PU + "{unit_id}/method"): _u(_PU + "{T}/method", "command", json=_METHOD),
    ("GET", _PU + "{unit_id}/plot_configuration"): _u(_PU + "{T}/plot_configuration"),
    ("GET", _PU + "{unit_id}/plot_log"): _u(_PU + "{T}/plot_log"),
    ("GET", _PU + "{unit_id}/control_state"): _u(_PU + "{T}/control_state"),
    ("GET", _PU + "{unit_id}/error_log"): _u(_PU + "{T}/error_log"),
    ("POST", _PU + "{unit_id}/run_log/force_line/{line_id}"): _u(_PU + "{T}/run_log/force_line/L1", "command"),
    ("POST", _PU + "{unit_id}/run_log/cancel_line/{line_id}"): _u(_PU + "{T}/run_log/cancel_line/L1", "command"),
    ("GET", _PU + "{unit_id}/active_users"): _u(_PU + "{T}/active_users"),
    ("POST", _PU + "{unit_id}/register_active_user"): _u(_PU + "{T}/register_active_user", "effect", params={"user_id": "viewer-1"}),
    ("POST", _PU + "{unit_id}/unregister_active_user"): _u(_PU + "{T}/unregister_active_user", "effect", params={"user_id": "owner-id"}),
    ("GET", "/api/recent_runs/"): dict(scope="list-runs", kind="read", data=True, path="/api/recent_runs/"),
    ("GET", "/api/recent_runs/{run_id}"): _r("/api/recent_runs/{RUN}"),
    ("GET", "/api/recent_runs/{run_id}/method-and-state"): _r("/api/recent_runs/{RUN}/method-and-state"),
    ("GET", "/api/recent_runs/{run_id}/run_log"): _r("/api/recent_runs/{RUN}/run_log"),
    ("GET", "/api/recent_runs/{run_id}/plot_configuration"): _r("/api/recent_runs/{RUN}/plot_configuration"),
    ("GET", "/api/recent_runs/{run_id}/plot_log"): _r("/api/recent_runs/{RUN}/plot_log"),
    ("GET", "/api/recent_runs/{run_id}/csv_json"): _r("/api/recent_runs/{RUN}/csv_json"),
    ("GET", "/api/recent_runs/{run_id}/archive"): _r("/api/recent_runs/{RUN}/archive"),
    ("GET", "/api/recent_runs/{run_id}/error_log"): _r("/api/recent_runs/{RUN}/error_log"),
    ("GET", "/api/lsp/engine/{engine_id}/pcode.tmLanguage.json"): dict(scope="lsp-unit", kind="read", data=True,
                                                                       path="/api/lsp/engine/{T}/pcode.tmLanguage.json"),
    ("WS", "/api/lsp/websocket"): dict(scope="lsp-ws", kind="read", data=True, path="/api/lsp/websocket"),
    # ---- classified out of scope: no unit / engine / run in the path and no unit or run data in the answer ----
    ("GET", "/openapi.json"): _out("static api description"),
    ("GET", "/docs"): _out("static api description"),
    ("GET", "/docs/oauth2-redirect"): _out("static api description"),
    ("GET", "/redoc"): _out("static api description"),
    ("GET", "/api/process_units/system_state_enum"): _out("constant, exposes an enum to the type generator"),
    ("GET", "/api/lsp/pcode.language-configuration.json"): _out("constant editor configuration"),
    ("GET", "/auth/config"): _out("authentication configuration"),
    ("GET", "/api/webpush/config"): _out("web push (C33)"),
    ("GET", "/api/webpush/notification_preferences"): _out("web push (C33)"),
    ("POST", "/api/webpush/notification_preferences"): _out("web push (C33)"),
    ("POST", "/api/webpush/subscribe"): _out("web push (C33)"),
    ("POST", "/api/webpush/test_notification"): _out("web push (C33)"),
    ("WS", "/engine-rpc"): _out("engine side of the protocol"),
    ("POST", "/engine-rest"): _out("engine side of the protocol"),
    ("POST", "/api/expose-pubsub-topics"): _out("exposes an enum to the type generator"),
    ("POST", "/api/trigger-publish-msw"): _out("mock-service-worker helper, publishes MSW_ topics only"),
    ("WS", "/api/frontend-pubsub"): _out("change notifications carry topic names only, no unit or run data (not a REST or LSP endpoint)"),
    ("GET", "/version"): _out("constant"),
    ("GET", "/build_number"): _out("constant"),
    ("GET", "/api/build_info"): _out("constant"),
    ("*", ""): _out("static frontend files"),
    ("*", "/"): _out("static frontend files"),
}
ID_PARAMS = ("{unit_id}", "{engine_id}", "{run_id}")


def route_key(method, path):
    return "%s %s" % (method, path)


def discover(h) -> list[str]:
    """in-scope route keys in app.routes order; raises HarnessError for a route the table does not know"""
    keys = []
    for kind, method, path in h.routes():
        spec = TABLE.get((method, path))
        if spec is None:
            raise HarnessError("discovered route %s %s has no entry in the C32 request table" % (method, path))
        if spec["scope"] == "out":
            if any(p in path for p in ID_PARAMS):
                raise HarnessError("route %s %s takes a unit/run id but is declared out of scope" % (method, path))
            continue
        keys.append(route_key(method, path))
    return keys


_SPEC_BY_KEY = {route_key(m, p): s for (m, p), s in TABLE.items() if s["scope"] != "out"}


# ---- domain guard ------------------------------------------------------------------------------------------

def _valid_roles(x):
    # role names are free text from the identity provider
    return (isinstance(x, list) and len(x) <= 6 and all(isinstance(r, str) and 0 < len(r) <= 40 for r in x)
            and len(set(x)) == len(x))


def _valid_content(c):
    if not isinstance(c, dict):
        return False
    def i(k, lo, hi):
        v = c.get(k)
        return isinstance(v, int) and not isinstance(v, bool) and lo <= v <= hi
    return (i("k", 0, 999) and i("n_lines", 1, 3) and i("n_errors", 0, 2) and i("n_runlog", 1, 2)
            and all(isinstance(c.get(b), bool) for b in ("run", "running", "archive", "str_tag"))
            and (c.get("other") is None or _valid_roles(c.get("other")))
            and (c.get("stale") is None or _valid_roles(c.get("stale")))
            and c.get("warm") in (None, "opposite"))


def _valid(case):
    return (isinstance(case, dict) and _valid_roles(case.get("required")) and _valid_roles(case.get("user"))
            and case.get("route") in _SPEC_BY_KEY and _valid_content(case.get("content")))


# ---- world -------------------------------------------------------------------------------------------------

def _tv(PM, name, value, t, unit=None):
    return PM.TagValue(name=name, value=value, tick_time=t, value_unit=unit)


class SetupDenied(Exception):
    """a set-up request of the (entitled) owner was answered 403"""

    def __init__(self, key, roles, required):
        super().__init__(key)
        self.key, self.roles, self.required = key, roles, required


def build_world(h, required, content, variant, run_scope=False, nonce=None):
    """-> dict(T=, F=, N= engine ids, RUN=, RUN_CUR=, RUN_N= run ids, nonce=).  `required` belongs to the addressed object:
    the finished run when run_scope, else the units T and F; the other object requires content['other'] (or the same roles when
    that is None).  Every world - the twin too - has its own ids (nonce W<serial>X in computer names and run ids; answers are
    compared with the nonce masked), so nothing keyed by an id can carry over from an earlier world in the same application."""
    import openpectus.protocol.engine_messages as EM
    import openpectus.protocol.models as PM
    h.reset_world()
    if nonce is None:
        nonce = "W%dX" % h.world_serial
    RUN_OLD, RUN_CUR, RUN_N = "run-T-old-" + nonce, "run-T-cur-" + nonce, "run-N-old-" + nonce
    b = variant == "b"
    sv = "beta" if b else "alpha"
    k = content["k"] + (5000 if b else 0)
    t0 = h.now
    other = content.get("other")
    run_roles = list(required) if (run_scope or other is None) else list(other)      # the unit's roles while run-T-old runs
    unit_roles = list(required) if (not run_scope or other is None) else list(other)  # the units' roles at request time

    def uod_info(roles, tagdefs, cmds, hw):
        readings = [PM.ReadingInfo(discriminator="reading", tag_name=n, valid_value_units=None, entry_data_type=None, commands=[],
                                   command_options=None) for n, _ in tagdefs]
        if readings:
            readings[0] = PM.ReadingInfo(discriminator="reading_with_entry", tag_name=tagdefs[0][0], valid_value_units=["degC"],
                                         entry_data_type="float",
                                         commands=[PM.ReadingCommand(command_id="c1", name="Set " + sv, command="SetTT", choice_names=[])],
                                         command_options=None)
        sysc = [PM.CommandDefinition(name=n, validator=None, docstring="system " + n) for n in ("Watch", "Mark", "Stop")]
        return EM.UodInfoMsg(
            readings=readings,
            commands=[PM.CommandInfo(name=n, docstring=d) for n, d in cmds],
            uod_definition=PM.UodDefinition(commands=[PM.CommandDefinition(name=n, validator=None, docstring=d) for n, d in cmds],
                                            system_commands=sysc,
                                            tags=[PM.TagDefinition(name=n, unit=u) for n, u in tagdefs]),
            plot_configuration=PM.PlotConfiguration(
                process_value_names_to_annotate=[tagdefs[-1][0]] if tagdefs else [], color_regions=[],
                sub_plots=[PM.SubPlot(axes=[PM.PlotAxis(label="axis " + sv, process_value_names=[n for n, _ in tagdefs[:2]], y_max=100 + k,
                                                        y_min=0, color="#ff0000")], ratio=1)] if tagdefs else [],
                x_axis_process_value_names=["Run Time"]),
            hardware_str=hw, required_roles=set(roles), data_log_interval_seconds=0.0)

    # ---- T ----------------------------------------------------------------------------------------------
    tagdefs = [("TT01", "degC"), ("Flow", "L/h")] + ([("Note", None)] if content["str_tag"] else []) + [("Extra-" + sv, None)]
    cmds = [("CmdX", "docstring of CmdX " + sv), ("Cmd-" + sv, "only in " + sv)]
    stale = content.get("stale")
    if stale is not None:
        # an earlier life of the same engine id: it required `stale`, disconnected (RecentEngines row with those roles), then
        # the UOD's required roles were changed and the engine was started again (below)
        T0_ = h.register("PC-T-" + nonce, "UodT", location="OldLoc-" + sv, author="OldAuthor-" + sv, email=sv + "@example.org",
                         filename="uod_old_%s.py" % sv)
        h.connect(T0_)
        h.send(T0_, uod_info(stale, tagdefs, cmds, "old hardware " + sv))
        h.send(T0_, EM.TagsUpdatedMsg(tags=[_tv(PM, "System State", "Stopped", t0)], run_id=None))
        h.disconnect(T0_)
    T = h.register("PC-T-" + nonce, "UodT", location="Loc-" + sv, author="Author-" + sv, email=sv + "@example.org",
                   filename="uod_%s.py" % sv)
    ch = h.connect(T)
    h.send(T, uod_info(run_roles, tagdefs, cmds, "hardware " + sv))

    def tags(t, run, state):
        vals = [_tv(PM, "TT01", 20.5 + k, t, "degC"), _tv(PM, "Flow", 3 + k, t, "L/h"), _tv(PM, "Extra-" + sv, k, t),
                _tv(PM, "System State", state, t), _tv(PM, "Run Time", 12.5 + k, t, "s"), _tv(PM, "Method Status", "OK", t)]
        if content["str_tag"]:
            vals.append(_tv(PM, "Note", "note " + sv, t))
        return EM.TagsUpdatedMsg(tags=vals, run_id=run)

    def runlog(prefix, n):
        return PM.RunLog(lines=[PM.RunLogLine(id="L%d" % (j + 1), command_name="%s %s %d" % (prefix, sv, j), start=t0 + j, end=None,
                                              progress=0.25, start_values=[_tv(PM, "TT01", 1.5 + k + j, t0 + j, "degC")], end_values=[],
                                              forcible=True, cancellable=True) for j in range(n)])

    def method_lines(n):
        return [PM.MethodLine(id="m%d" % (j + 1), content="Mark: %s %d" % (sv, j)) for j in range(n)] + [PM.MethodLine(id="m-end", content="")]

    def mstate(n):
        return PM.MethodState(started_line_ids=["m1"], executed_line_ids=["m%d" % (j + 1) for j in range(n if b else max(0, n - 1))],
                              injected_line_ids=[], failed_line_ids=[])

    def errlog(n, t):
        return PM.ErrorLog(entries=[PM.ErrorLogEntry(message="error %s %d" % (sv, j), created_time=t + j, severity=30 + j) for j in range(n)])

    h.send(T, tags(t0, None, "Stopped"))
    h.send(T, EM.MethodMsg(method=PM.Method(lines=method_lines(content["n_lines"]), version=0)))
    # the finished run
    h.now = t0 + 10
    h.send(T, EM.RunStartedMsg(run_id=RUN_OLD, started_tick=h.now))
    h.send(T, tags(h.now + 1, RUN_OLD, "Running"))
    h.send(T, tags(h.now + 2, RUN_OLD, "Running"))
    h.send(T, EM.RunLogMsg(id="rl", run_id=RUN_OLD, runlog=runlog("old", content["n_runlog"])))
    h.send(T, EM.MethodStateMsg(method_state=mstate(content["n_lines"])))
    h.send(T, EM.ErrorLogMsg(log=errlog(max(1, content["n_errors"]), h.now)))
    # an entitled user edits the method (contributor of the run, version 0 -> 1, last_author)
    h.set_identity(run_roles or ["A"], "owner-id", "OWNER-" + sv.upper())
    r = h.request("POST", _PU + T + "/method", json_body={"lines": [{"id": l.id, "content": l.content} for l in method_lines(content["n_lines"])],
                                                          "version": 0, "last_author": ""})
    if r.status == 403:
        raise SetupDenied("POST " + _PU + "{unit_id}/method", run_roles or ["A"], run_roles)
    if r.status != 200 or r.json != {"version": 1}:
        raise HarnessError("owner's method save failed: %r" % (r,))
    h.now = t0 + 20
    h.send(T, EM.RunStoppedMsg(run_id=RUN_OLD, runlog=runlog("old", content["n_runlog"]), method_state=mstate(content["n_lines"]),
                               archive=("archive of %s" % sv) if content["archive"] else None,
                               archive_filename=("archive-%s.zip" % sv) if content["archive"] else None))
    h.send(T, tags(h.now + 1, None, "Stopped"))
    if sorted(unit_roles) != sorted(run_roles):
        h.send(T, uod_info(unit_roles, tagdefs, cmds, "hardware " + sv))        # the UOD now requires other roles
    h.set_identity(unit_roles or ["A"], "owner-id", "OWNER-" + sv.upper())
    if content["run"]:
        h.now = t0 + 30
        h.send(T, EM.RunStartedMsg(run_id=RUN_CUR, started_tick=h.now))
        state = "Running" if content["running"] else "Paused"
        h.send(T, tags(h.now + 1, RUN_CUR, state))
        h.send(T, tags(h.now + 2, RUN_CUR, state))
        h.send(T, EM.RunLogMsg(id="rl2", run_id=RUN_CUR, runlog=runlog("cur", content["n_runlog"])))
        h.send(T, EM.MethodStateMsg(method_state=mstate(content["n_lines"])))
        if content["n_errors"]:
            h.send(T, EM.ErrorLogMsg(log=errlog(content["n_errors"], h.now)))
        h.send(T, EM.ControlStateMsg(control_state=PM.ControlState(is_running=not b, is_holding=b, is_paused=not content["running"])))
    r = h.request("POST", _PU + T + "/register_active_user", params={"user_id": "owner-id"})
    if r.status == 403:
        raise SetupDenied("POST " + _PU + "{unit_id}/register_active_user", unit_roles or ["A"], unit_roles)
    if r.status != 200:
        raise HarnessError("owner's active-user registration failed: %r" % (r,))
    if ch.rpc_calls and [type(m).__name__ for m in ch.rpc_calls] != ["MethodMsg"]:
        raise HarnessError("unexpected rpc calls during set-up: %r" % (ch.rpc_calls,))
    ch.rpc_calls.clear()
    # ---- F: same roles, offline ---------------------------------------------------------------------------
    F = h.register("PC-F-" + nonce, "UodF", location="LocF-" + sv, author="AuthorF-" + sv)
    h.connect(F)
    h.send(F, uod_info(unit_roles, [("TF", "degC")], [("CmdF-" + sv, "f")], "hardware F " + sv))
    h.send(F, EM.TagsUpdatedMsg(tags=[_tv(PM, "System State", "Stopped", t0)], run_id=None))
    h.disconnect(F)
    # ---- N: open unit, identical in both twins ----------------------------------------------------------------
    N = h.register("PC-N-" + nonce, "UodN", location="LocN", author="AuthorN")
    h.connect(N)
    h.send(N, uod_info([], [("TN", "degC")], [("CmdN", "n")], "hardware N"))
    h.send(N, EM.TagsUpdatedMsg(tags=[_tv(PM, "TN", 1.5, t0, "degC"), _tv(PM, "System State", "Stopped", t0)], run_id=None))
    h.now = t0 + 40
    h.send(N, EM.RunStartedMsg(run_id=RUN_N, started_tick=h.now))
    h.send(N, EM.TagsUpdatedMsg(tags=[_tv(PM, "TN", 2.5, h.now + 1, "degC")], run_id=RUN_N))
    h.send(N, EM.RunStoppedMsg(run_id=RUN_N, runlog=PM.RunLog(lines=[]), method_state=PM.MethodState.empty(), archive=None,
                               archive_filename=None))
    h.now = t0 + 50
    return {"T": T, "F": F, "N": N, "RUN": RUN_OLD, "RUN_CUR": RUN_CUR, "RUN_N": RUN_N, "nonce": nonce}


def _snapshot(h, T):
    ed = h.engine_data(T)
    if ed is None:
        return None
    return json.dumps({"method": ed.method.model_dump(), "active": sorted(ed.active_users),
                       "contributors": sorted("%s/%s" % (c.id, c.name) for c in ed.contributors),
                       "has_run": ed.has_run()}, sort_keys=True, default=str)


def _perform(h, spec, world):
    """-> {"refused": bool (403 / websocket refused), "status": int|str, "parts": {name: comparable}, "ids": listing ids | None}"""
    if spec["scope"] == "lsp-ws":
        s = h.lsp_session(world["T"], LSP_TEXT, LSP_PROBES)
        init_ok = s["accepted"] and isinstance(s["initialize"], dict) and "error" not in s["initialize"]
        parts = {}
        for p, res in zip(LSP_PROBES, s["probes"]):
            parts[p["name"]] = json.dumps(res, sort_keys=True).replace(world["nonce"], "W#X")
        return {"refused": not init_ok, "status": "ws-open" if init_ok else "ws-refused:%s" % s["close_code"], "parts": parts, "ids": None}
    path = spec["path"].replace("{T}", world["T"]).replace("{RUN}", world["RUN"])
    method = "POST" if spec["kind"] != "read" else "GET"
    r = h.request(method, path, json_body=spec.get("json"), params=spec.get("params"))
    ids = None
    if spec["scope"] in ("list-units", "list-runs") and isinstance(r.json, list):
        ids = []
        for item in r.json:
            if isinstance(item, dict):
                if spec["scope"] == "list-runs":
                    ids.append(item.get("run_id"))
                else:
                    ids.append(item.get("id") if "id" in item else (item.get("process_unit") or {}).get("id"))
    body = r.body.decode("utf-8", "replace").replace(world["nonce"], "W#X")      # ids differ from world to world only in the nonce
    return {"refused": r.status == 403, "status": r.status, "parts": {"body": "%d %s" % (r.status, body)}, "ids": ids}


def _excerpt(a: str, b: str, width: int = 110):
    """the two texts around their first difference"""
    i = 0
    while i < min(len(a), len(b)) and a[i] == b[i]:
        i += 1
    lo = max(0, i - 60)
    pre = "..." if lo else ""
    return pre + a[lo:lo + width], pre + b[lo:lo + width]


def _warm_up(h, keys, world, run_scope, roles):
    """another user (id peer-id, the given roles) opens the pages of the addressed object: every read route of the run (and the
    run listing) when a run is addressed, else every read route of the unit, the unit listings and the grammar route"""
    scopes = ("run", "list-runs") if run_scope else ("unit", "list-units", "lsp-unit")
    h.set_identity(roles, "peer-id", "PEER")
    statuses = []
    for k in keys:
        sp = _SPEC_BY_KEY[k]
        if sp["scope"] in scopes and sp["kind"] == "read":
            statuses.append(_perform(h, sp, world)["status"])
    return statuses


def _run_case(h, case):
    """-> (violations, classes, nontrivial)"""
    keys = getattr(h, "_c32_keys", None)
    if keys is None:
        keys = h._c32_keys = discover(h)
    out: list[Violation] = []
    required, user, key, content = case["required"], case["user"], case["route"], case["content"]
    spec = _SPEC_BY_KEY[key]
    relation = "open" if not required else ("entitled" if set(required) & set(user) else "unauthorised")
    classes = ["relation:" + relation, "scope:" + spec["scope"], "kind:" + spec["kind"]]
    run_scope = spec["scope"] in ("run", "list-runs")
    if content.get("other") is not None:
        classes.append("other-roles:" + ("same" if sorted(content["other"]) == sorted(required) else "different"))
    try:
        world = build_world(h, required, content, "a", run_scope)
    except SetupDenied as ex:
        # the owner of the set-up holds exactly the required roles (role A when none are required) and was refused
        rel = "entitled" if ex.required else "open"
        classes.append("setup-denied")
        return [Violation("denied-%s:%s" % (rel, ex.key), "set-up of the world: the owner with roles %r was refused (403) by %s on a unit "
                          "requiring %r" % (ex.roles, ex.key, ex.required), case)], classes, False
    # content["warm"] == "opposite": before the judged request another user works with the same object in the same application -
    # an entitled one when the judged user is unauthorised, a stranger (every role the object does not require) when the judged
    # user is open/entitled.  Whatever the first user's requests leave behind (caches, state) must not change the verdict.
    warm_roles = None
    if content.get("warm") == "opposite":
        if relation == "unauthorised":
            warm_roles = list(required)
        elif required:
            warm_roles = [r for r in ALL_ROLES if r not in required]
        classes.append("warm:" + ("entitled-first" if relation == "unauthorised" else ("stranger-first" if required else "nobody-to-refuse")))

    def sequence(w):
        if warm_roles is not None:
            _warm_up(h, keys, w, run_scope, warm_roles)
        snap = _snapshot(h, w["T"])
        h.set_identity(user, "user-id", "USER")
        return snap, _perform(h, spec, w)

    before, res = sequence(world)
    after = _snapshot(h, world["T"])
    rpc = [type(m).__name__ for m in h.rpc_calls(world["T"])]
    classes.append("status:%s:%s" % (relation, res["status"]))
    if relation != "unauthorised" and not res["refused"] and str(res["status"]) not in ("200", "ws-open"):
        classes.append("authorised-non-200:%s:%s" % (key, res["status"]))

    def expected(scope):
        if scope == "list-runs":
            return {"run": world["RUN"]}
        if spec.get("offline"):
            return {"unit": world["T"], "offline-unit": world["F"]}
        return {"unit": world["T"]}

    if relation == "unauthorised":
        if rpc:
            out.append(Violation("command-forwarded:" + key, "user roles %r, unit requires %r: %s answered %s and %r reached the engine"
                                 % (user, required, key, res["status"], rpc), case))
        if before != after:
            out.append(Violation("state-changed:" + key, "user roles %r, unit requires %r: %s answered %s and the unit changed from %s to %s"
                                 % (user, required, key, res["status"], before, after), case))
        if res["ids"] is not None:
            for what, ident in sorted(expected(spec["scope"]).items()):
                if ident in res["ids"]:
                    out.append(Violation("listed:%s:%s" % (key, what), "user roles %r: listing %s contains %s %r which requires %r"
                                         % (user, key, what, ident, required), case))
        if not res["refused"]:
            classes.append("unauthorised-not-refused")
            twin_world = build_world(h, required, content, "b", run_scope)      # its own ids, see build_world
            twin = sequence(twin_world)[1]
            leaking = [name for name in sorted(res["parts"]) if res["parts"][name] != twin["parts"].get(name)]
            if leaking:
                name = "hover-tag-value" if "hover-tag-value" in leaking else leaking[0]     # the live tag value is the most telling part
                out.append(Violation("leak:" + key, "user roles %r, %s requires %r: the answer of %s depends on the data of the unit/run%s - "
                                     "world a: %s | world b (data replaced): %s"
                                     % (user, "run" if run_scope else "unit", required, key,
                                        "" if leaking == ["body"] else " (differing parts: %s; shown: %s)" % (", ".join(leaking), name),
                                        *_excerpt(res["parts"][name], str(twin["parts"].get(name)))), case))
        else:
            classes.append("unauthorised-refused")
    else:
        if res["refused"]:
            out.append(Violation("denied-%s:%s" % (relation, key), "user roles %r, unit/run requires %r (%s): %s was refused with %s"
                                 % (user, required, relation, key, res["status"]), case))
        elif res["ids"] is not None:
            for what, ident in sorted(expected(spec["scope"]).items()):
                if ident not in res["ids"]:
                    out.append(Violation("unlisted-%s:%s:%s" % (relation, key, what), "user roles %r, requires %r (%s): listing %s omits %s %r (ids %r)"
                                         % (user, required, relation, key, what, ident, res["ids"]), case))
    nontrivial = relation == "unauthorised" and spec["data"]
    return out, classes, nontrivial


def check_case(case) -> list[Violation]:
    if not _valid(case):
        return []
    with ApiHarness() as h:
        if case["route"] not in discover(h):
            return []
        return _run_case(h, case)[0]


# ---- generator -------------------------------------------------------------------------------------------

@st.composite
def contents(draw):
    return {"k": draw(st.integers(0, 999)), "n_lines": draw(st.integers(1, 3)), "n_errors": draw(st.integers(0, 2)),
            "n_runlog": draw(st.integers(1, 2)), "run": draw(st.booleans()), "running": draw(st.booleans()),
            "archive": draw(st.booleans()), "str_tag": draw(st.booleans()),
            "other": draw(st.one_of(st.none(), st.sampled_from(role_sets("ABC")))),
            "stale": draw(st.one_of(st.none(), st.sampled_from(role_sets("ABC")))),
            "warm": draw(st.sampled_from([None, "opposite"]))}


# every shard runs its cells with these contents first:
#  1 the richest world, equal roles on unit and run, one request on a fresh world;
#  2 the addressed object restricted while the other one is open, the unit's RecentEngines row stems from a time when it required
#    no roles, and another user (entitled / stranger) works with the object first;
#  3 the other object restricted to all roles (reached with required == []), stale row requiring C, warm-up as in 2
FIXED_CONTENTS = [
    {"k": 7, "n_lines": 2, "n_errors": 1, "n_runlog": 2, "run": True, "running": True, "archive": True, "str_tag": True, "other": None,
     "stale": None, "warm": None},
    {"k": 311, "n_lines": 1, "n_errors": 0, "n_runlog": 1, "run": True, "running": False, "archive": False, "str_tag": False, "other": [],
     "stale": [], "warm": "opposite"},
    {"k": 42, "n_lines": 3, "n_errors": 2, "n_runlog": 1, "run": False, "running": False, "archive": True, "str_tag": True,
     "other": ["A", "B", "C"], "stale": ["C"], "warm": "opposite"},
]


# Role names are free text (Azure app role values).  These pairs (required, user) use names with SQL LIKE / JSON metacharacters and
# near-collisions: one differs from the other by a wildcard character, by case, by a prefix/suffix, by quoting.  Two roles are the
# same role only if the strings are equal, so most pairs are unauthorised; the last ones are entitled controls with the same names.
TRICKY_PAIRS = [
    (["Pilot-Plant"], ["Pilot_Plant"]), (["Pilot_Plant"], ["Pilot-Plant"]),
    (["QC-Lab"], ["QC%"]), (["QC%"], ["QC-Lab"]),
    (["axb"], ["a_b"]), (["a_b"], ["axb"]),
    (["Lab2"], ["Lab"]), (["Lab"], ["Lab2"]),
    (["Admin"], ["admin"]), (["admin"], ["Admin"]),
    (["Operator", "Pilot-Plant"], ["Guest", "Pilot_Plant"]),
    (["Operator"], ["%"]), (["Operator"], ["________"]), (["Operator"], ["Oper%"]), (["Operator"], ["%rator"]),
    (["a\"b"], ["a"]), (["Lab "], ["Lab"]), (["A"], ["\", \""]), (["A", "B"], ["A\", \"B"]), (["A"], ["[\"A\"]"]),
    (["\u00c4pfel"], ["Apfel"]), (["a\\b"], ["a\\\\b"]),
    (["Pilot_Plant"], ["Pilot_Plant"]), (["QC%"], ["QC%", "Guest"]), (["a_b", "axb"], ["axb"]), (["a\"b"], ["a\"b"]),
    (["Lab "], ["Lab "]), (["\u00c4pfel"], ["\u00c4pfel"]),
]
TRICKY_CONTENTS = [
    {"k": 19, "n_lines": 1, "n_errors": 1, "n_runlog": 1, "run": True, "running": True, "archive": True, "str_tag": False, "other": None,
     "stale": None, "warm": None},
]
_TRICKY_NAMES = ["Pilot-Plant", "QC-Lab", "axb", "Lab", "Admin", "Op 1", "R&D", "x.y"]


def tricky_pairs(thorough: bool):
    """the curated pairs; thorough adds systematically derived near-collisions of more names, in both directions"""
    pairs = [(list(r), list(u)) for r, u in TRICKY_PAIRS]
    if thorough:
        seen = {json.dumps(p) for p in pairs}
        for name in _TRICKY_NAMES:
            variants = [name + "2", name[:-1], name.swapcase(), name.lower(), name + "%", "%" + name, "%" + name[1:], name[:-1] + "_",
                        "_" * len(name), name + " ", " " + name, name + "\"", name.replace(name[len(name) // 2], "_"),
                        name.replace(name[len(name) // 2], "%")]
            for v in variants:
                if v and v != name:
                    for p in (([name], [v]), ([v], [name]), ([name, "Guest"], [v, "Other"])):
                        key = json.dumps(p)
                        if key not in seen:
                            seen.add(key)
                            pairs.append(p)
    return pairs


def run_shard(col, cfg):
    with ApiHarness() as h:
        keys = discover(h)
        sets = role_sets(cfg["roles"])
        cells = [(key, req, usr) for key in keys for req in sets for usr in sets]
        tricky = [(key, req, usr) for key in keys for req, usr in tricky_pairs(cfg["roles"] == "ABCD")]
        mine = [c for i, c in enumerate(cells) if i % col.nshards == col.shard]
        mine_tricky = [c for i, c in enumerate(tricky) if i % col.nshards == col.shard]
        col.extra["routes_in_scope"] = "%d: %s" % (len(keys), "; ".join(keys))
        col.extra["routes_out_of_scope"] = "; ".join("%s %s (%s)" % (m, p, s["reason"]) for (m, p), s in TABLE.items() if s["scope"] == "out")
        col.extra["role_combinations_per_route"] = "%d over %s + %d pairs of near-colliding free-text role names" % (
            len(sets) ** 2, cfg["roles"], len(tricky) // max(1, len(keys)))

        def body(content, my_cells=None):
            for key, req, usr in (mine if my_cells is None else my_cells):
                if col.expired():
                    return
                case = {"required": req, "user": usr, "route": key, "content": content}
                vs, classes, nontrivial = _run_case(h, case)
                for name in ("run", "archive", "str_tag"):
                    if content[name]:
                        classes.append("content:" + name)
                if content.get("stale") is not None:
                    classes.append("stale-row:" + ("same-roles" if sorted(content["stale"]) == sorted(req) else "other-roles"))
                if my_cells is not None:
                    classes.append("role-names:tricky")
                col.record(case, nontrivial, classes=classes, violations=vs)

        for content in FIXED_CONTENTS[:int(cfg["fixed_contents"])]:
            body(content)
        for content in TRICKY_CONTENTS:
            body(content, mine_tricky)
        if int(cfg["drawn_contents"]) > 0:
            hyp_run(contents(), body, int(cfg["drawn_contents"]), shard_seed(col.seed, col.shard), col)


def shrink_hints(case):
    if not _valid(case):
        return
    base = {"k": 0, "n_lines": 1, "n_errors": 0, "n_runlog": 1, "run": False, "running": False, "archive": False, "str_tag": False,
            "other": case["content"].get("other"), "stale": case["content"].get("stale"), "warm": case["content"].get("warm")}
    if case["content"] != base:
        yield dict(case, content=base)
        yield dict(case, content=dict(base, run=True))
        yield dict(case, content=dict(base, run=True, archive=True))
    for field in ("other", "stale", "warm"):
        if case["content"].get(field) is not None:
            yield dict(case, content=dict(case["content"], **{field: None}))
    for field in ("required", "user"):
        for i in range(len(case[field])):
            yield dict(case, **{field: case[field][:i] + case[field][i + 1:]})
