"""C07 — method clocks advance only while running.

Domain : generated methods with nested blocks, waits, watches and timed Pause/Hold  x  schedules of
         ticks with arbitrary increments (0, 0.05, 0.1, 1, 5 s) and user control commands.
Oracle : history invariants over (state at tick start, state at tick end, clock deltas):
  Process Time, Run Time = 0 at the tick the run starts; never decrease during a run;
  dProcess > 0 only if the system was Running at tick start, dProcess in {0, inc};
  dRun > 0 only while a run is active;
  dBlockTime / dScopeTime > 0 only if Running at tick start (not Paused, not Holding);
  Block/Scope Time may jump only in ticks with block/scope events (seen by a harness listener);
  progress (documented: "increments when System State is Run"): Running at both ends of a tick with inc>0 and
  no block/scope event => Process, Block and Scope Time advanced by inc.
"""
from __future__ import annotations

from hypothesis import strategies as st

from vp.core.framework import Violation, hyp_run, shard_seed
from vp.harness import pcode_gen as G

ID = "C07"
LEVEL = "exploration"
ENGINE = "engine_harness"
TECHNIQUE = "Hypothesis-generated methods x tick/control schedules; history invariants on clock deltas vs observed run state"
RULE = ("Hypothesis draws a method (blocks, waits, watches, timed Pause/Hold) and a schedule of <=60 steps (ticks with "
        "increments 0/0.05/0.1/1/5 s, user Pause/Unpause/Hold/Unhold/Stop/Start/Restart, and faults that pause the run with an "
        "error - one failing hardware read/write or an injected failing command). Non-trivial = the run has >=1 "
        "tick that begins Paused, >=1 that begins Holding and >=1 Block of the method started (classes report how many had "
        "the pause and the hold while that block was the active one). Distinct = distinct (method, schedule).")
ASSUMPTIONS = [
    "'system was Running in a tick' is read as: System State at the end of the previous tick (the state the tick starts in)",
    "Block Time / Scope Time are read with tag.get_value() (the value thresholds use)",
]
TIERS = {"quick": {"examples": 6400, "budget_s": 100}, "thorough": {"examples": 60000, "budget_s": 1500}}
EPS = 1e-9

CFG = G.GenCfg(kinds={"mark": 3, "wait": 4, "block": 6, "watch": 1, "pause": 1, "hold": 1, "unpause": 1, "unhold": 1, "quick": 1, "blank": 1},
               max_depth=3, max_top=5, max_children=3, thresholds=False, base_first="s",
               pause_durs=(0.1, 0.2, 0.3, 0.5, 0.5, 1.0, 1.5, 2.0, None))

INC = st.sampled_from([0.1] * 8 + [0.0, 0.05, 1.0, 5.0])
# "toggle-pause"/"toggle-hold" are resolved at run time from the engine's reported control state (Pause if not paused ...)
USER = st.sampled_from(["toggle-pause", "toggle-hold"] * 6 + ["Pause", "Unpause", "Hold", "Unhold"] * 2 + ["Stop", "Start", "Restart"])


@st.composite
def cases(draw):
    """schedule = phases: optional user command followed by 1..6 ticks (so every command gets time to act)"""
    tree = draw(G.program(CFG))
    steps = []
    for _ in range(draw(st.integers(4, 16))):
        for _ in range(draw(st.integers(0, 2))):
            steps.append(["user", draw(USER)])
        # a fault that pauses the run with an error in whatever state it is in (also Holding): one failing hardware read or
        # write in the next tick, or an injected command whose exec raises
        r = draw(st.integers(0, 11))
        if r == 0:
            steps.append(["fault", draw(st.sampled_from(["read", "read", "write", "inject-boom"]))])
        for _ in range(draw(st.integers(1, 6))):
            steps.append(["tick", draw(INC)])
    return {"tree": tree, "steps": steps}


def _valid(case) -> bool:
    try:
        G.render(case["tree"])
        return all(s[0] in ("tick", "user", "fault") for s in case["steps"]) and \
            all((s[0] == "fault" and s[1] in ("read", "write", "inject-boom")) or (s[0] == "tick" and isinstance(s[1], (int, float)) and 0 <= s[1] <= 5) or
                (s[0] == "user" and s[1] in ("Pause", "Unpause", "Hold", "Unhold", "Stop", "Start", "Restart", "toggle-pause", "toggle-hold")) for s in case["steps"])
    except Exception:
        return False


def run_case(case):
    from vp.harness.engine_h import EngineHarness
    lines = G.render(case["tree"])
    h = EngineHarness(G.as_method_lines(lines))
    out: list[Violation] = []
    info = {"paused_ticks_in_block": 0, "held_ticks_in_block": 0, "block_events": 0, "rejected": 0}

    def viol(sig, msg):
        if not any(v.sig == sig for v in out):
            out.append(Violation(sig, msg, case))

    def clocks():
        return {n: h.engine.tags[n].get_value() for n in ("Process Time", "Run Time", "Block Time", "Scope Time")}

    try:
        h.user("Start")
        prev_state = "Stopped"
        prev = clocks()
        ev_idx = 0
        gap: set = set()
        root_open = False
        for step in [["tick", 0.1]] + list(case["steps"]):
            if step[0] == "fault":
                if step[1] == "inject-boom":
                    h.inject("Boom: x")
                elif step[1] == "read":
                    h.hw.fail_read = True
                else:
                    h.hw.fail_write = True
                info["faults"] = info.get("faults", 0) + 1
                continue
            if step[0] == "user":
                name = step[1]
                if name == "toggle-pause":
                    name = "Unpause" if h.engine._runstate_paused else "Pause"
                elif name == "toggle-hold":
                    name = "Unhold" if h.engine._runstate_holding else "Hold"
                try:
                    h.user(name)
                    gap.add(name)
                except ValueError:
                    info["rejected"] += 1
                continue
            gap = set()
            inc = float(step[1])
            fault_in_state = prev_state if (h.hw.fail_read or h.hw.fail_write) else None
            fault_tick = h.hw.fail_read or h.hw.fail_write
            o = h.tick(inc)
            h.hw.fail_read = h.hw.fail_write = False      # a scripted hardware fault lasts one tick
            if fault_in_state == "Holding" and o.status == "Error":
                info["error_while_holding"] = info.get("error_while_holding", 0) + 1
            if o.raised is not None:
                viol("tick-raised:%s" % type(o.raised).__name__, repr(o.raised))
                break
            new_events = h.events[ev_idx:]
            ev_idx = len(h.events)
            kinds = {e[1] for e in new_events}
            cur = clocks()
            started_now = "start" in kinds
            block_ev = bool(kinds & {"block_start", "block_end", "start", "stop"})
            scope_ev = bool(kinds & {"scope_start", "scope_activate", "scope_end", "start", "stop", "block_start", "block_end"})
            if kinds & {"start", "stop"}:
                root_open = False
            root_was_open = root_open
            if "block_start" in kinds:
                root_open = True    # the program's root scope/block exists from now on (clocks are 0 before)
            if kinds & {"block_start", "block_end"}:
                info["block_events"] += 1
            in_block = o.block not in (None, "")
            if prev_state == "Paused" and in_block:
                info["paused_ticks_in_block"] += 1
            if prev_state == "Holding" and in_block:
                info["held_ticks_in_block"] += 1
            if prev_state == "Paused":
                info["paused_ticks"] = info.get("paused_ticks", 0) + 1
            if prev_state == "Holding":
                info["held_ticks"] = info.get("held_ticks", 0) + 1
            if "block_start" in kinds and any(e[1] == "block_start" and e[2] != "root" for e in new_events):
                info["real_blocks"] = info.get("real_blocks", 0) + 1
            if started_now:
                for n in ("Process Time", "Run Time"):
                    if abs(cur[n]) > EPS:
                        viol("start-nonzero:%s" % n, "tick %d: run started but %s=%r" % (o.no, n, cur[n]))
            else:
                dp = cur["Process Time"] - prev["Process Time"]
                dr = cur["Run Time"] - prev["Run Time"]
                db = cur["Block Time"] - prev["Block Time"]
                ds = cur["Scope Time"] - prev["Scope Time"]
                run_active_prev = prev_state not in ("Stopped", "Restarting")
                if run_active_prev and o.state not in ("Stopped",):
                    if dp < -EPS:
                        viol("decrease:Process Time", "tick %d: Process Time %r -> %r" % (o.no, prev["Process Time"], cur["Process Time"]))
                    if dr < -EPS:
                        viol("decrease:Run Time", "tick %d: Run Time %r -> %r" % (o.no, prev["Run Time"], cur["Run Time"]))
                if dp > EPS and prev_state != "Running":
                    viol("process:advance-while:%s" % prev_state, "tick %d (inc %s): Process Time advanced by %r although the tick started in state %s"
                         % (o.no, inc, dp, prev_state))
                if dp > EPS and abs(dp - inc) > 1e-6:
                    viol("process:delta", "tick %d: Process Time advanced by %r, increment was %r" % (o.no, dp, inc))
                # progress laws: not judged in a tick with a scripted hardware fault (the error pause may begin before the clocks
                # are updated and be ended by a queued Unpause in the same tick - the run was not Running throughout the tick)
                if prev_state == "Running" and o.state == "Running" and inc > 0 and abs(dp - inc) > 1e-6 and not fault_tick:
                    viol("process:stalled-while-running", "tick %d: Running before and after, inc=%r but Process Time moved %r" % (o.no, inc, dp))
                if dr > EPS and prev_state == "Restarting":
                    # the old run ends during the Restart; whether it still counts as active in the tick in which Restart stops
                    # it is not fixed by the statement (Run Time is reset when the new run starts) - counted, not judged
                    info["run_time_moved_while_restarting"] = info.get("run_time_moved_while_restarting", 0) + 1
                elif dr > EPS and not run_active_prev:
                    viol("run:advance-while:%s" % prev_state, "tick %d: Run Time advanced by %r with no active run" % (o.no, dr))
                if dr > EPS and abs(dr - inc) > 1e-6:
                    viol("run:delta", "tick %d: Run Time advanced by %r, increment was %r" % (o.no, dr, inc))
                if not block_ev:
                    if db > EPS and prev_state != "Running":
                        viol("block:advance-while:%s" % prev_state, "tick %d (inc %s): Block Time advanced by %r although the tick started in state %s (block %r)"
                             % (o.no, inc, db, prev_state, o.block))
                    if db < -EPS:
                        viol("decrease:Block Time", "tick %d: Block Time %r -> %r without block event" % (o.no, prev["Block Time"], cur["Block Time"]))
                    if db > EPS and abs(db - inc) > 1e-6:
                        viol("block:delta", "tick %d: Block Time advanced by %r, increment was %r" % (o.no, db, inc))
                    if root_was_open and prev_state == "Running" and o.state == "Running" and inc > 0 and abs(db - inc) > 1e-6 and not fault_tick:
                        viol("block:stalled-while-running", "tick %d: Running before and after, inc=%r but Block Time moved %r" % (o.no, inc, db))
                if not scope_ev:
                    if ds > EPS and prev_state != "Running":
                        viol("scope:advance-while:%s" % prev_state, "tick %d (inc %s): Scope Time advanced by %r although the tick started in state %s"
                             % (o.no, inc, ds, prev_state))
                    if ds < -EPS:
                        viol("decrease:Scope Time", "tick %d: Scope Time %r -> %r without scope event" % (o.no, prev["Scope Time"], cur["Scope Time"]))
                    if ds > EPS and abs(ds - inc) > 1e-6:
                        viol("scope:delta", "tick %d: Scope Time advanced by %r, increment was %r" % (o.no, ds, inc))
                    if root_was_open and prev_state == "Running" and o.state == "Running" and inc > 0 and abs(ds - inc) > 1e-6 and not fault_tick:
                        viol("scope:stalled-while-running", "tick %d: Running before and after, inc=%r but Scope Time moved %r" % (o.no, inc, ds))
            prev, prev_state = cur, o.state
    finally:
        h.close()
    return out, info


def check_case(case):
    if not isinstance(case, dict) or "tree" not in case or "steps" not in case or not _valid(case):
        return []
    return run_case(case)[0]


def run_shard(col, cfg):
    def body(case):
        vs, info = run_case(case)
        nontrivial = info.get("paused_ticks", 0) > 0 and info.get("held_ticks", 0) > 0 and info.get("real_blocks", 0) > 0
        if info["paused_ticks_in_block"] > 0 and info["held_ticks_in_block"] > 0:
            col.count("paused-and-held-inside-a-block")
        classes = []
        if info["paused_ticks_in_block"]:
            classes.append("paused-in-block")
        if info["held_ticks_in_block"]:
            classes.append("held-in-block")
        if info["block_events"]:
            classes.append("has-block-events")
        if info.get("faults"):
            classes.append("has-fault")
        if info.get("run_time_moved_while_restarting"):
            classes.append("run-time-moved-while-restarting(counted, not judged)")
        if info.get("error_while_holding"):
            classes.append("error-pause-began-while-holding")
        kinds = G.count_kinds(case["tree"])
        if kinds.get("_depth", 0) >= 2:
            classes.append("nested")
        col.record(case, nontrivial, classes=classes, violations=vs,
                   sample={"method": G.text_of(G.render(case["tree"])), "steps": case["steps"][:25]})
    hyp_run(cases(), body, max(1, cfg["examples"] // col.nshards), shard_seed(col.seed, col.shard), col)
