"""C04 - Watch runs once after its condition holds; Alarm re-arms.

Domain : generated methods with Watch/Alarm at any nesting inside Blocks, Watches and Alarms (no macros), End block /
         End blocks placed by threshold, in block bodies and inside other interrupts, Simulate / Simulate off on the
         condition tags, input trajectories that cross the condition constants several times (also one-tick pulses),
         and cancel / force requests on the run-log items of Watch/Alarm lines (issued only when the run log offers them).
Oracle : the harness evaluates every condition itself, exactly (Fractions, in the tag's unit), on *every value the tag
         showed to the interpreter in a tick* (value after the hardware read, value after each Simulate / Simulate off);
         "may be true" = true for at least one of them, "must be true" = true for all of them.
         Observed: Mark assignments and UOD command starts of body lines (unique payload per line), listener events
         scope_start (= the node is armed), scope_activate, scope_end, block_start/block_end, accepted requests.
  ran-unarmed:<kind>                   body effect before the node was ever armed
  watch-ran-twice                      a body line of a Watch outside any Alarm takes effect twice
  body-line-twice:<kind>               a body line takes effect twice between two armings (Alarm: re-arm = new arming)
  fired-without-condition:<kind>[:rearm]  first body effect of an arming with no may-be-true tick in [arming tick, effect
                                       tick] and no accepted force since the previous run
  ran-after-cancel:<kind>[:ctx]        body effect after an accepted cancel (until the node is armed anew); ctx =
                                       armed-after-block-end | accepted-after-activation (cancel accepted although the
                                       node had activated in this arming) | in-alarm (node inside an Alarm body) | none
  body-after-block-end:<how>           body effect in a later tick than the end event of a lexically enclosing Block;
                                       how = armed-before-end | armed-after-end (armed when the block had already ended and
                                       running while the block has not started again) [:user-endblock[:in-alarm] when that
                                       end came from a user End block request; :block-of-interrupt-nested-in-alarm when the
                                       block belongs to the body of an interrupt that itself sits inside an Alarm]
  no-response:<kind>[:rearm]           armed, W consecutive Running ticks with the condition true on every shown value,
                                       not disarmed (cancel, enclosing block end, re-arming, error) and still no first
                                       body line effect; W = latency measured on the tree under test + 2 ticks
  alarm-not-rearmed                    W Running ticks after an Alarm run completed without the Alarm being armed again
  alarm-run-not-completed              (only own End block lines executed in the compared runs) an activation of an Alarm (not
                                       inside an Alarm, no thresholds and no Watch/Alarm line in its body) whose body run
                                       has not completed N + 3 ticks later, N = longest earlier completed run of the same
                                       body; judged only while Running, without error / user End block, with the enclosing
                                       blocks alive and no block active other than enclosing ones and the body's own
"""
from __future__ import annotations

from vp.core.framework import Violation, hyp_run, shard_seed
from vp.harness import c04_h as H
from vp.harness import pcode_gen as G

ID = "C04"
LEVEL = "exploration"
ENGINE = "engine_harness"
TECHNIQUE = ("Hypothesis-generated methods x input trajectories x cancel/force requests on the real Engine; history invariants "
             "against the harness' own exact condition evaluation on every value the tag showed per tick")
RULE = ("Hypothesis draws a method (60 % pcode_gen programs with interrupt-heavy weights and thresholds, 40 % directed shapes: "
        "interrupt in a block ended by threshold / from another interrupt / by itself, Block in Alarm with a Watch inside, "
        "Watch in Alarm, Alarm in Watch, two block levels), a piecewise input trajectory around the condition constants and "
        "0-3 cancel/force requests resolved at run time among the offered run-log items plus 0-2 user End block requests "
        "(injected code) at early ticks; directed shapes also: block-ending interrupt followed by 0-5 lines and the line under "
        "test, Alarm with a Block in its body. Non-trivial = some Watch/Alarm was "
        "armed and its condition (harness evaluation) was true on some tick and false on another one after the arming. "
        "Distinct = distinct (method, ticks, trajectory, requests).")
ASSUMPTIONS = [
    "a node is 'armed' from the listener's scope_start event of the Watch/Alarm (emitted when its interrupt is registered)",
    "per arming: a Watch inside an Alarm body (or an Alarm inside an Alarm) is armed anew by every run of the enclosing body",
    "an accepted force justifies the next activation of that node, whichever arming it falls in",
    "an activation (scope_activate / run-log item) that executes no body line is not judged as 'the body runs' "
    "(counted as class zombie-activation)",
    "'the block that contains it' = lexically enclosing Block lines; their end is the listener's block_end event",
    "bounded response of a Watch is read from the title ('runs once after its condition holds'); of an Alarm from 're-armed'",
    "a run of an Alarm body 'completes' at the listener's scope_end of the Alarm; its duration is compared only with earlier "
    "completed runs of the same body in the same case (no absolute bound)",
    "a user End block request is the injected code 'End block' (Engine.inject_code), issued between two ticks while Running",
    "UOD command starts are given one tick of slack against cancel / block end (a command requested in a tick may start in the next)",
]
TIERS = {"quick": {"examples": 4800, "budget_s": 150, "deep": False},
         "thorough": {"examples": 160000, "budget_s": 1500, "deep": True}}
MARGIN = 2
INF = 10 ** 9
SCOPE_OF = {"watch": "Watch", "alarm": "Alarm"}


class Model:
    """static facts of the rendered method"""

    def __init__(self, lines):
        self.lines = lines
        by_id = {l.id: l for l in lines}
        self.irq = {}          # id -> dict
        self.mark_owner = {}   # mark payload -> (irq id, line id)
        self.cmd_owner = {}    # command argument -> (irq id, line id)
        for l in lines:
            if l.kind in H.INTERRUPT_KINDS:
                blocks, alarm_anc, irq_anc = [], False, False
                p = l.parent
                while p is not None:
                    pl = by_id[p]
                    if pl.kind == "block":
                        blocks.append(pl.payload)
                    if pl.kind == "alarm":
                        alarm_anc = True
                    if pl.kind in H.INTERRUPT_KINDS:
                        irq_anc = True
                    p = pl.parent
                # an enclosing block whose nearest interrupt ancestor has an Alarm above it
                block_in_nested, p, seen_block, seen_irq = False, l.parent, False, False
                while p is not None:
                    pl = by_id[p]
                    if pl.kind == "block" and not seen_irq:
                        seen_block = True
                    elif pl.kind in H.INTERRUPT_KINDS and seen_block:
                        if seen_irq and pl.kind == "alarm":
                            block_in_nested = True
                        seen_irq = True
                    p = pl.parent
                first = next((c for c in lines if c.parent == l.id), None)
                sentinel = first.payload if first is not None and first.kind == "mark" and first.node.get("t") is None else None
                self.irq[l.id] = {"kind": l.kind, "cond": l.node["cond"], "blocks": blocks, "alarm_anc": alarm_anc,
                                  "nested": irq_anc, "block_in_nested": block_in_nested, "sentinel": sentinel, "text": l.text.strip(), "thr": l.node.get("t")}
        for x, q in self.irq.items():
            q["direct_blocks"], q["direct_thr"], q["direct_ends"] = set(), False, set()
            q["has_nested"] = False
        for l in lines:
            if l.kind in H.INTERRUPT_KINDS:
                p = l.parent
                while p is not None:
                    if p in self.irq:
                        self.irq[p]["has_nested"] = True
                    p = by_id[p].parent
        for l in lines:
            p = l.parent
            while p is not None and by_id[p].kind not in H.INTERRUPT_KINDS:
                p = by_id[p].parent
            if p is None:
                continue
            # l runs in the thread of interrupt p
            if l.kind == "block":
                self.irq[p]["direct_blocks"].add(l.payload)
            if l.kind in ("endblock", "endblocks"):
                self.irq[p]["direct_ends"].add(l.id)
            if l.node is not None and l.node.get("t") is not None:
                self.irq[p]["direct_thr"] = True
            if l.kind in ("mark", "quick", "slow"):
                (self.mark_owner if l.kind == "mark" else self.cmd_owner)[l.payload] = (p, l.id)


def analyse(case, tr, latency):
    m = Model(tr.lines)
    W = (latency if latency is not None else 3) + MARGIN
    out: list[Violation] = []
    info = {"armed": 0, "activations": 0, "alarm_refired": 0, "pulse_no_fire": 0, "zombie_activation": 0, "zombie_arm": 0,
            "cut_by_block_end": 0, "toggles": False, "activated_twice_per_arming": 0, "activation_only_after_cancel": 0, "forced_fire": 0, "cancel_effective": 0, "must_windows": 0,
            "response_not_judged_in_alarm": 0, "response_not_judged_threshold_rearm": 0, "alarm_runs_completed": 0}

    def viol(sig, msg):
        if not any(v.sig == sig for v in out):
            out.append(Violation(sig, msg, case))

    if latency is None:
        viol("no-response:calibration-method", "the calibration method (Watch: In2 > 0 / Mark) showed no body effect although In2 was 1")

    ev = tr.events
    n_t = len(tr.states)
    arms = {x: [] for x in m.irq}
    acts = {x: [] for x in m.irq}
    ends = {x: [] for x in m.irq}
    effs = {x: [] for x in m.irq}      # (index, tick, line id, is_cmd)
    reqs = {x: [] for x in m.irq}      # (index, tick, kind)   accepted only
    blockev: dict = {}
    seen_cmd: set = set()
    err_idx = INF
    for i, e in enumerate(ev):
        k = e[1]
        if k in ("scope_start", "scope_activate", "scope_end") and e[2] in ("Watch", "Alarm") and e[3] in m.irq:
            {"scope_start": arms, "scope_activate": acts, "scope_end": ends}[k][e[3]].append(i)
        elif k == "mark" and e[2] in m.mark_owner:
            x, lid = m.mark_owner[e[2]]
            effs[x].append((i, e[0], lid, False))
        elif k == "cmd" and e[4] == "exec" and e[5] in m.cmd_owner and e[3] not in seen_cmd:
            seen_cmd.add(e[3])          # first execution of this command instance = the start of the body line's command
            x, lid = m.cmd_owner[e[5]]
            effs[x].append((i, e[0], lid, True))
        elif k in ("block_start", "block_end"):
            blockev.setdefault(e[2], []).append((i, k))
        elif k == "req" and e[4] and e[3] in m.irq:
            reqs[e[3]].append((i, e[0], e[2]))
        elif k in ("method_error", "stop") and err_idx == INF:
            err_idx = i
    err_tick = ev[err_idx][0] if err_idx != INF else INF
    if tr.raised is not None:
        err_tick = min(err_tick, n_t - 1)

    def may(x, t):
        c = m.irq[x]["cond"]
        return any(H.truth(c, v) is not False for v in tr.cands[t][c["tag"]]) if 0 <= t < n_t else True

    def must(x, t):
        c = m.irq[x]["cond"]
        return all(H.truth(c, v) is True for v in tr.cands[t][c["tag"]])

    def block_state_before(name, i):
        last = None
        for j, k in blockev.get(name, []):
            if j < i:
                last = k
        return last

    for x, q in m.irq.items():
        kind = q["kind"]
        A = arms[x]
        if not A:
            if effs[x]:
                viol("ran-unarmed:%s" % kind, "%s (%s) ran body lines but was never armed" % (x, q["text"]))
            continue
        info["armed"] += 1
        ta0 = ev[A[0]][0]
        tv = [may(x, t) for t in range(ta0, n_t)]
        tm = [must(x, t) for t in range(ta0, n_t)]
        if any(tm) and not all(tv):
            info["toggles"] = True
        # ---- before the first arming ------------------------------------------------------------
        if any(f[0] < A[0] for f in effs[x]):
            viol("ran-unarmed:%s" % kind, "%s (%s) ran a body line before its first arming at tick %d" % (x, q["text"], ta0))
        # ---- a Watch outside any Alarm: once over the whole run -----------------------------------
        if kind == "watch" and not q["alarm_anc"]:
            per_line: dict = {}
            for f in effs[x]:
                per_line[f[2]] = per_line.get(f[2], 0) + 1
            if any(n > 1 for n in per_line.values()):
                viol("watch-ran-twice", "Watch %s (%s), not inside an Alarm: effects per body line %r (activations: %d)"
                     % (x, q["text"], sorted(per_line.items()), len(acts[x])))
        info["activations"] += len(acts[x])
        if kind == "alarm" and len(acts[x]) >= 2:
            info["alarm_refired"] += 1
        prev_act = -1
        for j, a in enumerate(A):
            nxt = A[j + 1] if j + 1 < len(A) else INF
            ta = ev[a][0]
            seg_acts = [i for i in acts[x] if a < i < nxt]
            # a command requested by a body line starts in the command phase of that tick or of the next one: a command start not
            # later than one tick after an arming event still belongs to the run of the previous arming
            ta_n = ev[nxt][0] if nxt < INF else INF
            seg_effs = [f for f in effs[x] if (a < f[0] < nxt and not (f[3] and j > 0 and f[1] <= ta + 1))
                        or (f[3] and nxt < INF and f[0] > nxt and f[1] <= ta_n + 1 and (j + 2 >= len(A) or f[0] < A[j + 2]))]
            rearm = ":rearm" if kind == "alarm" and j > 0 and not q["nested"] else ""
            # ---- once per arming ---------------------------------------------------------------
            if len(seg_acts) > 1:
                info["activated_twice_per_arming"] += 1     # judged through the body lines only (see ASSUMPTIONS)
            per_line = {}
            for f in seg_effs:
                per_line.setdefault(f[2], []).append(f[1])
            for lid, ticks in sorted(per_line.items()):
                if len(ticks) > 1:
                    viol("body-line-twice:%s" % kind, "line %s in the body of %s (%s) took effect at ticks %r within one arming (armed at tick %d)"
                         % (lid, x, q["text"], ticks, ta))
            # ---- cause -------------------------------------------------------------------------
            first = min([f[0] for f in seg_effs], default=None)
            if first is not None:
                k = ev[first][0]
                # inside an Alarm body the node state of one arming can be carried into the next one (the statement does not
                # define armings): the window then starts at the previous arming
                t_from = ev[A[j - 1]][0] if (q["alarm_anc"] and j > 0) else ta
                # (likewise a forced run that an enclosing Alarm splits over two armings is one forced run)
                f_from = A[j - 1] if (q["alarm_anc"] and j > 0) else prev_act
                forced = any(r[2] == "force" and min(prev_act, f_from) < r[0] < first for r in reqs[x])
                if forced:
                    info["forced_fire"] += 1
                elif not any(may(x, t) for t in range(t_from, k + 1)):
                    viol("fired-without-condition:%s%s" % (kind, rearm),
                         "%s (%s) armed at tick %d ran at tick %d; the condition was false on every value of %s shown in ticks %d..%d (%r) and no force was accepted"
                         % (x, q["text"], ta, k, q["cond"]["tag"], t_from, k, [tr.cands[t][q["cond"]["tag"]] for t in range(t_from, min(k, n_t - 1) + 1)][:8]))
                prev_act = first
            # ---- enclosing block ended (tick granularity: what happens in the tick of the end event is not 'after') ----------
            last_end_before_arm = max([i for b in q["blocks"] for i, k in blockev.get(b, []) if k == "block_end" and i < a
                                       and block_state_before(b, a) == "block_end"], default=None)
            zombie_arm = last_end_before_arm is not None
            if zombie_arm:
                info["zombie_arm"] += 1
            ends_after_arm = sorted(i for b in q["blocks"] for i, k in blockev.get(b, []) if k == "block_end" and a < i < nxt)
            first_end = ends_after_arm[0] if ends_after_arm else INF
            for f in seg_effs:
                slack = 1 if f[3] else 0
                before = any(i < f[0] and ev[i][0] + slack < f[1] for i in ends_after_arm)
                # armed after the end: judged while the block has not started again
                after = zombie_arm and ev[last_end_before_arm][0] + slack < f[1] and \
                    any(block_state_before(b, f[0]) == "block_end" for b in q["blocks"])
                if before or after:
                    # context of the root cause: the block was ended by a user End block request (injected code) that executed in
                    # the tick of that end event; in-alarm: the node sits in an Alarm body (whose re-arm resets node state)
                    ctx = ""
                    if not before:
                        t_end = ev[last_end_before_arm][0]
                        if any(e[1] == "req" and e[2] == "endblock" and t_end - 2 <= e[0] <= t_end for e in ev[:last_end_before_arm]):
                            ctx = ":user-endblock" + (":in-alarm" if q["alarm_anc"] else "")
                        elif q["block_in_nested"]:
                            # the ended block belongs to the body of an interrupt that is itself inside an Alarm: the re-arm of that
                            # outer Alarm resets the block's flags while the inner body thread is alive
                            ctx = ":block-of-interrupt-nested-in-alarm"
                    viol("body-after-block-end:%s%s" % ("armed-before-end" if before else "armed-after-end", ctx),
                         "line %s in the body of %s (%s) took effect at tick %d after an enclosing block (%s) had ended (block events %r; armed at tick %d)"
                         % (f[2], x, q["text"], f[1], ",".join(q["blocks"]),
                            [(ev[i][0], k) for b in q["blocks"] for i, k in blockev.get(b, [])][:6], ta))
            if (zombie_arm or first_end < INF) and any(i > first_end or zombie_arm for i in seg_acts) and not seg_effs:
                info["zombie_activation"] += 1
            if seg_effs and first_end < INF and any(f[0] < first_end for f in seg_effs):
                info["cut_by_block_end"] += 1
            # ---- cancel --------------------------------------------------------------------------
            cancels = [r for r in reqs[x] if r[2] == "cancel" and a < r[0] < nxt]
            for r in cancels:
                late = [f[0] for f in seg_effs if f[0] > r[0] and (not f[3] or f[1] > r[1])]
                if late:
                    # root-cause context in the signature: the cancelled arming was itself made after the enclosing block
                    # had ended / the cancel was accepted although the node had already activated in this arming
                    ctx = ":armed-after-block-end" if zombie_arm else (":accepted-after-activation" if any(i < r[0] for i in seg_acts)
                                                                       else (":in-alarm" if q["alarm_anc"] else ""))
                    viol("ran-after-cancel:%s%s" % (kind, ctx), "%s (%s), armed at tick %d, activations at ticks %r: cancel accepted before tick %d, but body lines took effect at ticks %r"
                         % (x, q["text"], ta, [ev[i][0] for i in seg_acts], r[1], sorted({ev[i][0] for i in late})))
                elif any(i > r[0] for i in seg_acts):
                    info["activation_only_after_cancel"] += 1
                else:
                    info["cancel_effective"] += 1
            # ---- bounded response ----------------------------------------------------------------
            if q["sentinel"] is None or zombie_arm:
                continue
            if q["alarm_anc"]:
                info["response_not_judged_in_alarm"] += 1     # node state is reset / shared by the runs of the enclosing Alarm
                continue
            if q["thr"] is not None and j > 0:
                info["response_not_judged_threshold_rearm"] += 1   # a re-armed node waits for its threshold again
                continue
            prev_arm = A[j - 1] if j > 0 else -1
            # a cancel accepted since the previous arming may still be in force (the run log offers the item before the arming)
            carried = [r for r in reqs[x] if r[2] == "cancel" and prev_arm < r[0] <= a]
            if carried:
                continue
            d = min([nxt, first_end, err_idx] + [r[0] for r in cancels])
            td = min(ev[d][0] if d < INF else INF, err_tick)
            te = min([f[1] for f in seg_effs if not f[3] and _payload_is(m, f[2], q["sentinel"])], default=None)
            cnt, had_true = 0, False
            for t in range(ta + 1, n_t):
                if t >= td:
                    break
                good = tr.states[t] == "Running" and tr.states[t - 1] == "Running" and must(x, t)
                had_true = had_true or must(x, t)
                cnt = cnt + 1 if good else 0
                if te is not None and te <= t:
                    break
                if cnt >= W:
                    info["must_windows"] += 1
                    viol("no-response:%s%s" % (kind, rearm),
                         "%s (%s) armed at tick %d: condition true on every shown value and state Running in ticks %d..%d, not cancelled, block not ended, yet the first body line %r had no effect"
                         % (x, q["text"], ta, t - W + 1, t, q["sentinel"]))
                    break
            if had_true and te is None and not seg_acts:
                info["pulse_no_fire"] += 1
        # ---- every run of an Alarm body completes like its earlier runs did (differential against its own history) -------
        # (bodies containing a Watch/Alarm line are not compared: the state a nested handler leaves on its node - completed,
        # activated - is carried into the next run of the body and legitimately shortens single runs)
        if kind == "alarm" and not q["alarm_anc"] and not q["direct_thr"] and not q["has_nested"]:
            allowed = set(q["blocks"]) | q["direct_blocks"] | {"root"}
            all_blk = sorted((i, k, b) for b, l in blockev.items() for i, k in l)
            user_end = [i for i, e in enumerate(ev) if e[1] == "req" and e[2] == "endblock"]

            def clean(ai, t_to):
                """from the activation at event index ai to tick t_to: Running, no error, no user End block, enclosing blocks
                alive, and no block active or started other than the enclosing ones and those of this body's own thread
                (a foreign block can hold the block lock and delay the body)"""
                k = ev[ai][0]
                if t_to >= n_t or t_to >= err_tick or k < 1:
                    return False
                if any(tr.states[t] != "Running" for t in range(k - 1, t_to + 1)):
                    return False
                active = set()
                for i, kk, b in all_blk:
                    if i < ai:
                        (active.add if kk == "block_start" else active.discard)(b)
                    elif ev[i][0] <= t_to:
                        if kk == "block_start" and b not in allowed:
                            return False
                        if kk == "block_end" and b in q["blocks"]:
                            return False
                if not active <= allowed:
                    return False
                if any(block_state_before(b, ai) == "block_end" for b in q["blocks"]):
                    return False
                # only the body's own End block / End blocks lines may have executed: an End block of another thread that ends
                # a block of this body shortens (or alone enables) the completion of this run, not of the next one
                if any(k <= t <= t_to and lid not in q["direct_ends"] for t, lid in tr.endblock_exec):
                    return False
                return not any(i > ai and ev[i][0] <= t_to for i in user_end) and \
                    not any(i <= ai and ev[i][0] >= k - 1 for i in user_end)

            ref = None
            for n, ai in enumerate(acts[x]):
                nxt_act = acts[x][n + 1] if n + 1 < len(acts[x]) else INF
                k = ev[ai][0]
                done = next((i for i in ends[x] if ai < i < nxt_act), None)
                if ref is not None:
                    limit = k + ref + MARGIN + 1
                    if (done is None or ev[done][0] > limit) and clean(ai, limit):
                        viol("alarm-run-not-completed",
                             "Alarm %s (%s) activated at tick %d: the run of its body had not completed by tick %d, although an earlier run of the same body completed in %d ticks "
                             "(Running throughout, no foreign block active, enclosing blocks alive, no user End block); body effects of this run at ticks %r"
                             % (x, q["text"], k, limit, ref, [f[1] for f in effs[x] if ai < f[0] < nxt_act][:8]))
                if done is not None and clean(ai, ev[done][0]):
                    ref = max(ref or 0, ev[done][0] - k)
                    info["alarm_runs_completed"] += 1
        # ---- Alarm re-arms after a completed run ----------------------------------------------------
        if kind == "alarm":
            for e_i in ends[x]:
                te_ = ev[e_i][0]
                if any(block_state_before(b, e_i) == "block_end" for b in q["blocks"]):
                    continue
                if q["nested"]:
                    continue      # an enclosing interrupt body may itself have been reset / aborted meanwhile
                if te_ + W >= n_t or te_ + W >= err_tick or any(tr.states[t] != "Running" for t in range(te_, te_ + W + 1)):
                    continue
                if not any(i > e_i and ev[i][0] <= te_ + W for i in A):
                    viol("alarm-not-rearmed", "Alarm %s (%s) completed a run at tick %d and was not armed again within %d Running ticks"
                         % (x, q["text"], te_, W))
    return out, info


def _payload_is(m, line_id, payload):
    for l in m.lines:
        if l.id == line_id:
            return l.payload == payload
    return False


def run_case(case):
    tr = H.run(case)
    cal = H.calibrate()
    vs, info = analyse(case, tr, cal["latency"])
    info["req"] = dict(tr.req_stats)
    info["raised"] = tr.raised is not None
    info["error"] = any(e[1] == "method_error" for e in tr.events)
    return vs, info, tr


def check_case(case):
    if not H.valid(case):
        return []
    return run_case(case)[0]


def run_shard(col, cfg):
    deep = bool(cfg.get("deep"))

    def body(case):
        vs, info, tr = run_case(case)
        kinds = G.count_kinds(case["tree"])
        m = Model(tr.lines)
        classes = []
        if kinds.get("watch"):
            classes.append("has-watch")
        if kinds.get("alarm"):
            classes.append("has-alarm")
        if any(q["nested"] for q in m.irq.values()):
            classes.append("interrupt-in-interrupt")
        if any(q["blocks"] for q in m.irq.values()):
            classes.append("interrupt-in-block")
        if any(q["alarm_anc"] and q["blocks"] for q in m.irq.values()):
            classes.append("interrupt-in-block-in-alarm-or-alarm-in-block")
        by_id = {l.id: l for l in tr.lines}
        if any(l.kind in ("endblock", "endblocks") and l.parent and by_id[l.parent].kind in H.INTERRUPT_KINDS for l in tr.lines):
            classes.append("endblock-inside-interrupt")
        if any(l.kind in ("endblock", "endblocks") and l.node and l.node.get("t") is not None for l in tr.lines):
            classes.append("endblock-by-threshold")
        if kinds.get("simulate"):
            classes.append("has-simulate")
        for k, label in (("activations", "fired"), ("alarm_refired", "alarm-fired-again"), ("pulse_no_fire", "true-pulse-not-fired"),
                         ("zombie_activation", "zombie-activation"), ("zombie_arm", "armed-after-block-end"),
                         ("cut_by_block_end", "body-cut-by-block-end"), ("forced_fire", "fired-by-force"),
                         ("cancel_effective", "cancel-accepted"), ("activated_twice_per_arming", "activated-twice-per-arming-no-body-effect"),
                         ("activation_only_after_cancel", "activation-only-after-cancel")):
            if info[k]:
                classes.append(label)
        if info["alarm_runs_completed"] >= 2:
            classes.append("alarm-two-clean-completed-runs")
        if any(q["kind"] == "alarm" and q["direct_blocks"] and not q["alarm_anc"] for q in m.irq.values()):
            classes.append("block-in-alarm-body")
        if any(r[1] == "endblock" for r in case["reqs"]):
            classes.append("user-endblock-request")
        if info["req"]["rejected"]:
            classes.append("request-rejected")
        if info["req"]["no-candidate"]:
            classes.append("request-without-offer")
        if info["error"]:
            classes.append("method-error")
        if info["raised"]:
            classes.append("tick-raised")
        if tr.runlog_failed:
            classes.append("runlog-not-producible(C15)")
        if len(case["traj"]) >= 4:
            classes.append("trajectory>=4-changes")
        nontrivial = info["armed"] > 0 and info["toggles"]
        col.record(case, nontrivial, classes=classes, violations=vs,
                   sample={"method": G.text_of(tr.lines), "n_ticks": case["n_ticks"], "traj": case["traj"][:12], "reqs": case["reqs"]})
    hyp_run(H.cases(deep), body, max(1, cfg["examples"] // col.nshards), shard_seed(col.seed, col.shard), col)
