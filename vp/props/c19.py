"""C19 — method analysis never crashes and flags undefined names.

System under test (exactly the editor's path):
    uod definition -> lsp_analysis.build_tags / build_commands -> parse -> SemanticCheckAnalyzer.analyze
    and lsp_analysis.lint(document, engine_id) with fetch_uod_info replaced by the generated definition
    (the same replacement the repository's own lsp tests use).

Oracle
  never-raise : neither the facade SemanticCheckAnalyzer.analyze nor any of its member analyzers run on
                their own, nor lint(), raises for any generated text x tag/command set.
                signature  raised:<Analyzer>:<Exception>@<innermost openpectus function>
  flagged     : an independent line recogniser (written from the documented line grammar, not from the
                parser) finds, in the generated text, the constructs the statement talks about:
                  undefined-tag:{watch,alarm,simulate,simulate-off}  complete reference to a tag not in the set
                  undefined-command                                  instruction that is neither language syntax nor a defined command
                  incomplete-condition:{watch,alarm}:{no-arg,tag-only,no-value,no-tag}
                each must have >= 1 ERROR item whose range starts on that line.
                signature  unflagged:<construct>[:<similarity class of the undefined name>]
  lint        : when the analysis itself does not raise, lint returns exactly one diagnostic per analyzer
                item (same line / code / severity) and not the single generic "Parse error" diagnostic.
                signatures lint:raised:<Exc>, lint:collapsed, lint:items-mismatch

Lines the recogniser does not understand unambiguously (hostile dialect, odd spacing, several operators ...)
carry no expectation: they only take part in the never-raise check.  A judged line that also has an
InvalidIndentation item is not judged (an error *is* shown on the line; the statement does not say which).
"""
from __future__ import annotations

import re

from hypothesis import strategies as st

from vp.core.framework import Violation, hyp_run, shard_seed

# heavy imports (fastapi via the aggregator) once, in the parent process, before the shard workers are forked
import openpectus.lsp.lsp_analysis  # noqa: E402,F401
import openpectus.engine.internal_commands  # noqa: E402,F401
import openpectus.lang.exec.analyzer  # noqa: E402,F401

ID = "C19"
LEVEL = "exploration"
ENGINE = "pure"
DESIGN_REF = "DESIGN.md §3 C19"
TECHNIQUE = "grammar-based generation of method texts (well-formed / semantically broken / lexically hostile) x generated tag+command sets; crash oracle + independent line recogniser for must-flag constructs; lint vs analyzer differential"
RULE = ("a case = tag set (0-6, with/without units), UOD command set (0-4, regex/no-arg/free-text validators), subset of the real "
        "system commands, and 1-40 method lines built from a program tree mixing three dialects. Non-trivial = the text contains "
        ">= 1 judged undefined tag/command reference for which NO similar name is defined (Levenshtein ratio <= 0.7 to every "
        "defined name, or name of <= 2 characters, or empty set). Distinct = distinct case JSON.")
ASSUMPTIONS = [
    "tag names are unique; UOD command names are unique and differ from the system command names",
    "command validators are the ones the product can publish: none, RegexNumber, RegexCategorical, RegexText, no-argument spec",
    "system commands are a subset of those published by InternalCommandsRegistry.get_command_definitions() (incl. the empty subset)",
    "judged references use names over [A-Za-z0-9 _%./-] starting with a letter, lines indented by multiples of 4 spaces; "
    "everything else only takes part in the never-raise check",
    "language instruction names (Mark, Block, Watch, ...) missing from the command set are not 'undefined commands'",
    "Simulate lines with a missing '='/value are counted but not judged (the statement names conditions only)",
]
TIERS = {
    "quick": {"examples": 10000, "max_lines": 24, "depth": 3, "budget_s": 150},
    "thorough": {"examples": 300000, "max_lines": 40, "depth": 4, "budget_s": 850},
}

# Known defects are excluded by construction in most cases so that the rest of the space is explored
# (switch; the remaining share of cases still produces them, so they are still reported with their signature).
EXCLUDE_KNOWN = False   # the four recorded defects were repaired in /repo (see known_findings.json: fixed)
KNOWN_FREE_PERCENT = 25   # share of cases in which known triggers are allowed
KNOWN_TRIGGER = "far-undefined-tag (len>2, tags defined, no similar name) in Watch/Alarm/Simulate/Simulate off"
KNOWN_TRIGGER_MACRO = "macro that calls a self-recursive macro"

BUILTIN = ["Mark", "Block", "End block", "End blocks", "Batch", "Watch", "Alarm", "Macro", "Call macro", "Notify",
           "Base", "Increment run counter", "Run counter", "Wait", "Stop", "Pause", "Unpause", "Hold", "Unhold", "Restart",
           "Info", "Warning", "Error", "Simulate", "Simulate off"]
UNITS = [None, "L/h", "L/min", "degC", "K", "s", "min", "h", "%", "kg", "g", "bar", "mL", "L", "CV", "AU", "mS/cm"]
COMPAT = {"L/h": ["L/h", "L/min"], "L/min": ["L/min", "L/h"], "degC": ["degC", "K", "degF"], "K": ["K", "degC"], "s": ["s", "min", "h"],
          "min": ["min", "s"], "h": ["h", "min"], "%": ["%"], "kg": ["kg", "g"], "g": ["g", "kg"], "bar": ["bar", "Pa"], "mL": ["mL", "L"],
          "L": ["L", "mL"], "CV": ["CV"], "AU": ["AU", "mAU"], "mS/cm": ["mS/cm"]}
OPS = ["<=", ">=", "==", "!=", "<", ">", "="]

_SAFE_REF = r"[A-Za-z](?:[A-Za-z0-9 _%./-]*[A-Za-z0-9_%./-])?"
_LINE_RE = re.compile(r"^(?P<indent>(?: {4})*)(?:(?P<thr>\d+(?:\.\d+)?) )?(?P<name>[A-Za-z](?:[A-Za-z0-9_ ]*[A-Za-z0-9_])?)"
                      r"(?P<colon>:(?: (?P<arg>[^#:]*))?)?(?P<comment> *#.*)?$")
_COND_RE = re.compile(r"^(?P<tag>" + _SAFE_REF + r")? *(?P<op><=|>=|==|!=|<|>|=) *(?P<rest>[^<>=!#:]*)$")
_REF_RE = re.compile(r"^" + _SAFE_REF + r"$")
_LINEBREAKS = "\n\r\x0b\x0c\x1c\x1d\x1e\x85\u2028\u2029"


# ---- repo access (lazy, cached per process) ---------------------------------------------------------

_cache: dict = {}


def _system_defs():
    """name -> CommandDefinition as published by the real registry."""
    if "sys" not in _cache:
        from openpectus.engine.internal_commands import InternalCommandsRegistry
        with InternalCommandsRegistry(engine=None) as registry:
            _cache["sys"] = {d.name: d for d in registry.get_command_definitions()}
    return _cache["sys"]


def _builtin_names() -> set:
    if "builtin" not in _cache:
        from openpectus.lang.model.parser import PcodeParser
        _cache["builtin"] = set(BUILTIN) | set(PcodeParser().instruction_name_map.keys())
    return _cache["builtin"]


def _validator(spec):
    from openpectus.lang.exec import regex as R
    from openpectus.lang.exec.argument_specification import ArgSpec
    if spec is None:
        return None
    k = spec["kind"]
    if k == "number":
        rx = R.RegexNumber(units=spec["units"] or None, non_negative=spec["non_negative"], int_only=spec["int_only"])
    elif k == "categorical":
        rx = R.RegexCategorical(exclusive_options=spec["excl"] or None, additive_options=spec["add"] or None)
    elif k == "text":
        rx = R.RegexText(allow_empty=spec["allow_empty"])
    elif k == "noargs":
        rx = ArgSpec.NoArgsInstance.regex
    else:
        raise AssertionError(k)
    return "RNAP-v1-" + rx


# ---- domain ---------------------------------------------------------------------------------------------

def _name_ok(s) -> bool:
    return (isinstance(s, str) and 0 < len(s) <= 40 and s == s.strip() and s.isprintable()
            and not any(ch in _LINEBREAKS for ch in s))


def _spec_ok(spec) -> bool:
    if spec is None:
        return True
    if not isinstance(spec, dict):
        return False
    k = spec.get("kind")
    if k == "number":
        u = spec.get("units")
        return (isinstance(u, list) and all(x in UNITS and x for x in u)
                and isinstance(spec.get("non_negative"), bool) and isinstance(spec.get("int_only"), bool))
    if k == "categorical":
        e, a = spec.get("excl"), spec.get("add")
        ok = lambda l: isinstance(l, list) and all(isinstance(x, str) and re.fullmatch(r"[A-Za-z0-9]+", x) for x in l)  # noqa: E731
        return ok(e) and ok(a) and bool(e or a)
    if k == "text":
        return isinstance(spec.get("allow_empty"), bool)
    return k == "noargs"


def in_domain(case) -> bool:
    if not isinstance(case, dict):
        return False
    tags, cmds, system, lines = case.get("tags"), case.get("commands"), case.get("system"), case.get("lines")
    if not (isinstance(tags, list) and isinstance(cmds, list) and isinstance(system, list) and isinstance(lines, list)):
        return False
    if not all(isinstance(t, dict) and _name_ok(t.get("name")) and t.get("unit") in UNITS for t in tags):
        return False
    if len({t["name"] for t in tags}) != len(tags):
        return False
    if not all(isinstance(c, dict) and _name_ok(c.get("name")) and _spec_ok(c.get("arg")) for c in cmds):
        return False
    sysdefs = _system_defs()
    names = [c["name"] for c in cmds]
    if len(set(names)) != len(names) or any(n in sysdefs for n in names):
        return False
    if not all(isinstance(s, str) for s in system) or len(set(system)) != len(system):
        return False
    if not all(isinstance(l, str) for l in lines) or len(lines) > 200 or sum(len(l) for l in lines) > 20000:
        return False
    return True


# ---- the independent recogniser of must-flag constructs --------------------------------------------------------

def similarity_class(name: str, defined) -> str:
    if not defined:
        return "empty-set"
    if len(name) <= 2:
        return "short"
    from Levenshtein import ratio
    best = max(ratio(name, d) for d in defined)
    return "near" if best > 0.7 else "far"


def derive(case):
    """-> list of dict(line, construct, name, sim, analyzer) for the text of the case."""
    text = "\n".join(case["lines"])
    tag_names = [t["name"] for t in case["tags"]]
    sysdefs = _system_defs()
    cmd_names = [c["name"] for c in case["commands"]] + [s for s in case["system"] if s in sysdefs]
    builtin = _builtin_names()
    out = []
    for i, line in enumerate(text.splitlines()):
        m = _LINE_RE.match(line)
        if not m:
            continue
        name = m.group("name")
        has_colon = m.group("colon") is not None
        arg = (m.group("arg") or "").strip()
        if has_colon and m.group("arg") is None and m.group("colon") != ":":
            continue
        if name in ("Watch", "Alarm"):
            kind = name.lower()
            if arg == "":
                out.append(dict(line=i, construct="incomplete-condition:%s:no-arg" % kind, name="", sim="-", analyzer="ConditionCheckAnalyzer"))
                continue
            if not any(ch in arg for ch in "<>=!"):
                if _REF_RE.match(arg):
                    out.append(dict(line=i, construct="incomplete-condition:%s:tag-only" % kind, name=arg,
                                    sim=("defined" if arg in tag_names else similarity_class(arg, tag_names)), analyzer="ConditionCheckAnalyzer"))
                continue
            c = _COND_RE.match(arg)
            if not c:
                continue
            tag, rest = c.group("tag"), c.group("rest").strip()
            if tag is None:
                out.append(dict(line=i, construct="incomplete-condition:%s:no-tag" % kind, name="", sim="-", analyzer="ConditionCheckAnalyzer"))
            elif rest == "":
                out.append(dict(line=i, construct="incomplete-condition:%s:no-value" % kind, name=tag,
                                sim=("defined" if tag in tag_names else similarity_class(tag, tag_names)), analyzer="ConditionCheckAnalyzer"))
            elif tag not in tag_names:
                out.append(dict(line=i, construct="undefined-tag:%s" % kind, name=tag, sim=similarity_class(tag, tag_names), analyzer="ConditionCheckAnalyzer"))
        elif name == "Simulate":
            c = _COND_RE.match(arg)
            if c and c.group("op") == "=" and c.group("tag") is not None and c.group("rest").strip() != "":
                tag = c.group("tag")
                if tag not in tag_names:
                    out.append(dict(line=i, construct="undefined-tag:simulate", name=tag, sim=similarity_class(tag, tag_names), analyzer="SimulateCheckAnalyzer"))
            elif arg == "" or not c or c.group("rest").strip() == "" or c.group("tag") is None:
                out.append(dict(line=i, construct="unjudged:simulate-incomplete", name="", sim="-", analyzer=None))
        elif name == "Simulate off":
            if _REF_RE.match(arg) and arg not in tag_names:
                out.append(dict(line=i, construct="undefined-tag:simulate-off", name=arg, sim=similarity_class(arg, tag_names), analyzer="SimulateCheckAnalyzer"))
        elif name not in builtin and name not in cmd_names:
            out.append(dict(line=i, construct="undefined-command", name=name, sim=similarity_class(name, cmd_names), analyzer="CommandCheckAnalyzer"))
    return out


# ---- running the system under test ---------------------------------------------------------------------------------

def _uod_def(case):
    from openpectus.protocol.models import CommandDefinition, TagDefinition, UodDefinition
    sysdefs = _system_defs()
    return UodDefinition(
        commands=[CommandDefinition(name=c["name"], validator=_validator(c["arg"]), docstring="") for c in case["commands"]],
        system_commands=[sysdefs[s] for s in case["system"] if s in sysdefs],
        tags=[TagDefinition(name=t["name"], unit=t["unit"]) for t in case["tags"]])


def _parse(text):
    from openpectus.lang.model.parser import ParserMethod, create_method_parser
    method = ParserMethod.from_pcode(text)
    return create_method_parser(method, uod_command_names=[]).parse_method(method)


def _raise_sig(exc: BaseException) -> str:
    from openpectus.lang.exec.analyzer import AnalyzerVisitorBase
    analyzer, inner = "none", "?"
    tb = exc.__traceback__
    while tb is not None:
        f = tb.tb_frame
        slf = f.f_locals.get("self")
        if analyzer == "none" and isinstance(slf, AnalyzerVisitorBase):
            analyzer = type(slf).__name__
        if "/openpectus/" in f.f_code.co_filename:
            inner = getattr(f.f_code, "co_qualname", f.f_code.co_name)
        tb = tb.tb_next
    return "raised:%s:%s@%s" % (analyzer, type(exc).__name__, inner)


class _Doc:
    """what lint/analyze read from a pylsp Document"""
    def __init__(self, source: str):
        self.source = source
        self.version = 1
        self.uri = "file://verif/c19"

    @property
    def lines(self):
        return self.source.splitlines(True)


def _lint(uod, text, use_pylsp_document: bool, prior=None):
    """lint `text`. With `prior` (a text) the same editor session - same engine, same uod information (the per-engine
    cache of create_analysis_input is kept, as in the running server), same document uri and the same version number
    (a document that is closed and opened again, or opened by a second client, starts from the same version) - has
    linted `prior` first: the diagnostics of `text` must not depend on that"""
    from openpectus.lsp import lsp_analysis

    def mk(source):
        if use_pylsp_document:
            from pylsp.workspace import Document, Workspace
            return Document(uri="file://verif/c19", workspace=Workspace(root_uri="", endpoint=None, config=None),
                            source=source, version=(1 if prior is not None else None))
        return _Doc(source)

    saved = lsp_analysis.fetch_uod_info
    lsp_analysis.fetch_uod_info = lambda _engine_id: uod
    lsp_analysis.create_analysis_input.cache_clear()
    try:
        if prior is not None:
            try:
                lsp_analysis.lint(mk(prior), "verif-c19")
            except Exception:
                pass  # the prior text is judged as a case of its own elsewhere
        return lsp_analysis.lint(mk(text), "verif-c19")
    finally:
        lsp_analysis.fetch_uod_info = saved
        lsp_analysis.create_analysis_input.cache_clear()


def observe(case):
    """run the three paths; returns dict with items / raised signatures / diagnostics"""
    from openpectus.lang.exec.analyzer import SemanticCheckAnalyzer, AnalyzerItemType
    from openpectus.lsp import lsp_analysis
    uod = _uod_def(case)
    text = "\n".join(case["lines"])
    obs = {"raised": {}, "facade_raised": None, "lint_raised": None}

    def key(item):
        return (item.range.start.line, item.message, item.type == AnalyzerItemType.ERROR, item.id)

    # (1) member analyzers one by one on one program, as the facade does, but not stopping at the first failure
    try:
        program = _parse(text)
    except Exception as e:
        obs["raised"]["parser"] = (_raise_sig(e), "%s: %s" % (type(e).__name__, e))
        obs["items"] = []
        obs["diags"] = None
        return obs
    sca = SemanticCheckAnalyzer(lsp_analysis.build_tags(uod), lsp_analysis.build_commands(uod))
    items = []
    for a in sca.analyzers:
        try:
            a.analyze(program)
        except Exception as e:
            obs["raised"][type(a).__name__] = (_raise_sig(e), "%s: %s" % (type(e).__name__, e))
        items.extend(key(it) for it in a.items)
    obs["items_members"] = items

    # (2) the facade on a fresh program
    sca2 = SemanticCheckAnalyzer(lsp_analysis.build_tags(uod), lsp_analysis.build_commands(uod))
    try:
        sca2.analyze(_parse(text))
        obs["items_facade"] = [key(it) for it in sca2.items]
    except Exception as e:
        obs["facade_raised"] = (_raise_sig(e), "%s: %s" % (type(e).__name__, e))
        obs["items_facade"] = None
    obs["items"] = obs["items_facade"] if obs["items_facade"] is not None else items

    # (3) lint
    try:
        prior = case.get("prior")
        obs["diags"] = _lint(uod, text, bool(case.get("pylsp_document")), None if prior is None else "\n".join(prior))
    except Exception as e:
        obs["lint_raised"] = (type(e).__name__, "%s: %s" % (type(e).__name__, e))
        obs["diags"] = None
    return obs


# ---- oracle on one case ------------------------------------------------------------------------------------------------

def check_case(case) -> list[Violation]:
    if not in_domain(case):
        return []
    out: list[Violation] = []
    obs = observe(case)
    text = "\n".join(case["lines"])
    for who, (sig, msg) in sorted(obs["raised"].items()):
        out.append(Violation(sig, "%s raised %s while analysing %r" % (who, msg, _excerpt(text)), case))
    if obs["facade_raised"] and not obs["raised"]:
        sig, msg = obs["facade_raised"]
        out.append(Violation("facade-only:" + sig, "SemanticCheckAnalyzer.analyze raised %s although every member analyzer ran cleanly on its own" % msg, case))
    if not obs["facade_raised"] and obs["raised"] and "parser" not in obs["raised"]:
        out.append(Violation("facade-swallowed", "member analyzers raise %r but the facade returned normally" % sorted(obs["raised"]), case))
    if "parser" in obs["raised"]:
        return _uniq(out)

    # flagged: every must-flag construct has an ERROR item starting on its line
    items = obs["items"]
    error_lines = {}
    for (ln, message, is_err, iid) in items:
        if is_err:
            error_lines.setdefault(ln, []).append(iid)
    lines = text.splitlines()
    for d in derive(case):
        if d["analyzer"] is None or d["analyzer"] in obs["raised"]:
            continue
        ids = error_lines.get(d["line"], [])
        if "InvalidIndentation" in ids:
            continue
        if not ids:
            sig = "unflagged:" + d["construct"] + (":" + d["sim"] if d["construct"].startswith("undefined-") else "")
            out.append(Violation(sig,
                                 "line %d %r: %s %r is not reported as an error on that line (items on the line: %r)"
                                 % (d["line"], lines[d["line"]], d["construct"], d["name"],
                                    [(m, i) for (l, m, e, i) in items if l == d["line"]]), case))

    # lint
    if obs["lint_raised"]:
        out.append(Violation("lint:raised:%s" % obs["lint_raised"][0], "lint raised %s" % obs["lint_raised"][1], case))
    elif obs["diags"] is not None:
        diags = obs["diags"]
        collapsed = any(d["code"] == "Parse error" for d in diags)
        if obs["facade_raised"] is None:
            if collapsed:
                out.append(Violation("lint:collapsed", "analysis runs cleanly but lint returns the generic diagnostic %r"
                                     % ([d["message"] for d in diags if d["code"] == "Parse error"][0][:200],), case))
            else:
                got = sorted((d["range"]["start"]["line"], d["code"], d["severity"] == 1) for d in diags)
                want = sorted((ln, message, is_err) for (ln, message, is_err, iid) in obs["items_facade"])
                if got != want:
                    out.append(Violation("lint:items-mismatch", "lint diagnostics %r differ from analyzer items %r"
                                         % ([g for g in got if g not in want][:3], [w for w in want if w not in got][:3]), case))
    return _uniq(out)


def _uniq(vs):
    seen, out = set(), []
    for v in vs:
        if v.sig not in seen:
            seen.add(v.sig)
            out.append(v)
    return out


def _excerpt(text: str) -> str:
    return text if len(text) <= 160 else text[:157] + "..."


# ---- generator ----------------------------------------------------------------------------------------------------------

TAG_POOL = ["Flow rate", "Temperature", "Count", "pH", "Run Time", "Block Time", "UV 280", "Cond", "P1", "Pressure 1", "Level",
            "Feed volume", "X", "TT01", "Valve state", "Speed %"]
CMD_POOL = ["Flow", "Reset", "Valve", "Pump speed", "Area", "Zero UV", "Inlet", "Fraction collector", "Set", "PU01"]
WEIRD_NAME_CHARS = list("=<>:#+()[]|\\*?!,;'\"$&@") + ["é", "µ", "Ω", "日", "°"]
FAR_ALPHABET = "qzxjkvwy"
LETTERS = "abcdefghijklmnopqrstuvwxyzABCDEFGHIJKLMNOPQRSTUVWXYZ"


def tag_sets(D):
    n = D.sampled_from([0, 1, 2, 3, 4, 5, 6])
    names: list[str] = []
    out = []
    for _ in range(n):
        r = D.integers(0, 9)
        if r < 6:
            nm = D.sampled_from(TAG_POOL)
        elif r < 9:
            nm = D.text(LETTERS + "0123456789 _", min_size=1, max_size=12).strip() or "T"
        else:
            nm = (D.sampled_from(TAG_POOL) + D.sampled_from(WEIRD_NAME_CHARS) + D.text(LETTERS, max_size=3)).strip()
        if nm in names:
            continue
        names.append(nm)
        out.append({"name": nm, "unit": D.sampled_from(UNITS + [None, None])})
    return out


def arg_specs(D):
    k = D.sampled_from(["none", "number", "number", "categorical", "text", "noargs"])
    if k == "none":
        return None
    if k == "number":
        units = D.lists([u for u in UNITS if u], min_size=0, max_size=3, unique=True)
        return {"kind": "number", "units": units, "non_negative": D.booleans(), "int_only": D.booleans()}
    if k == "categorical":
        excl = D.lists(["Open", "Closed", "A", "B"], max_size=2, unique=True)
        add = D.lists(["VA01", "VA02", "VA03", "1", "2"], max_size=3, unique=True)
        if not excl and not add:
            excl = ["Closed"]
        return {"kind": "categorical", "excl": excl, "add": add}
    if k == "text":
        return {"kind": "text", "allow_empty": D.booleans()}
    return {"kind": "noargs"}


def cmd_sets(D):
    n = D.sampled_from([0, 1, 2, 3, 4])
    sysdefs = _system_defs()
    names: list[str] = []
    out = []
    for _ in range(n):
        r = D.integers(0, 9)
        if r < 7:
            nm = D.sampled_from(CMD_POOL)
        elif r < 9:
            nm = D.text(LETTERS + "0123456789 _", min_size=1, max_size=12).strip() or "C"
        else:
            nm = (D.sampled_from(CMD_POOL) + D.sampled_from(WEIRD_NAME_CHARS) + D.text(LETTERS, max_size=3)).strip()
        if nm in names or nm in sysdefs or nm in BUILTIN:
            continue
        names.append(nm)
        out.append({"name": nm, "arg": arg_specs(D)})
    return out


def _safe(name: str) -> bool:
    return bool(_REF_RE.match(name))


class _Gen:
    """draws method lines; keeps the bookkeeping the classes/exclusions need"""

    def __init__(self, D, tags, cmds, system, free, max_lines, max_depth):
        self.D, self.tags, self.cmds, self.system = D, tags, cmds, system
        self.free, self.max_lines, self.max_depth = free, max_lines, max_depth
        self.lines: list[str] = []
        self.kinds: list[str] = []
        self.excluded = 0
        self.excluded_macro = 0
        self.macros: list[str] = []
        self.tag_names = [t["name"] for t in tags]
        self.cmd_names = [c["name"] for c in cmds] + list(system)
        self.n = 0

    # -- helpers ------------------------------------------------------------------------------------
    def pick(self, seq):
        return self.D.sampled_from(seq)

    def emit(self, depth, text, kind):
        thr = ""
        if self.D.integers(0, 11) == 0:
            thr = self.pick(["0 ", "1 ", "0.5 ", "2.25 ", "10 "])
        cm = ""
        if self.D.integers(0, 14) == 0:
            cm = self.pick([" # note", "  #", " # Watch: x > 1", "#c"])
        self.lines.append(" " * (4 * depth) + thr + text + cm)
        self.kinds.append(kind)

    def raw(self, text, kind):
        self.lines.append(text)
        self.kinds.append(kind)

    def word(self, lo, hi, alphabet=LETTERS):
        return self.D.text(alphabet, min_size=lo, max_size=hi)

    def mutate(self, name: str) -> str:
        s = list(name)
        for _ in range(self.pick([1, 1, 2])):
            op = self.pick(["del", "sub", "ins", "swap", "case"])
            pos = self.D.integers(0, max(0, len(s) - 1))
            if op == "del" and len(s) > 1:
                del s[pos]
            elif op == "sub" and s:
                s[pos] = self.pick(LETTERS)
            elif op == "ins":
                s.insert(pos, self.pick(LETTERS))
            elif op == "swap" and len(s) > 1:
                p2 = min(pos + 1, len(s) - 1)
                s[pos], s[p2] = s[p2], s[pos]
            elif s:
                s[pos] = s[pos].swapcase()
        return "".join(s).strip() or "Q"

    def undefined(self, defined, flavour, reserved=()):
        """a safe-alphabet name that is not in `defined` (nor reserved), of the requested flavour"""
        safe_defined = [d for d in defined if _safe(d) and len(d) >= 3]
        for _ in range(4):
            if flavour == "near" and safe_defined:
                cand = self.mutate(self.pick(safe_defined))
            elif flavour == "short":
                cand = self.word(1, 2)
            else:
                cand = self.pick(["Q", "Z", "X", "J"]) + self.word(2, 9, FAR_ALPHABET)
            if _safe(cand) and cand not in defined and cand not in reserved:
                return cand
        return "Qz" if "Qz" not in defined else "Zq"

    def known_trigger(self, name) -> bool:
        return similarity_class(name, self.tag_names) == "far"

    def undefined_tag(self, allow_far_unflagged=True):
        flavour = self.pick(["near", "far", "far", "short"])
        name = self.undefined(self.tag_names, flavour)
        if EXCLUDE_KNOWN and not self.free and self.known_trigger(name):
            self.excluded += 1
            name = self.undefined(self.tag_names, self.pick(["near", "short"]))
            if self.known_trigger(name):
                name = self.undefined(self.tag_names, "short")
        return name

    def value_for(self, unit, good=True):
        num = self.pick(["0", "1", "3", "12.5", ".5", "-2", "1e3", "7."])
        if good:
            if unit is None:
                return num
            return num + self.pick([" ", ""]) + self.pick(COMPAT.get(unit, [unit]))
        bad = self.pick(["missing", "unexpected", "incompatible", "invalid", "unit-only", "text"])
        if bad == "missing":
            return num
        if bad == "unexpected":
            return num + " " + self.pick(["kg", "L/h", "s"])
        if bad == "incompatible":
            return num + " " + self.pick(["m", "kg", "s", "L", "Hz"])
        if bad == "invalid":
            return num + " " + self.pick(["zz", "foo", "L//h", "k g"])
        if bad == "unit-only":
            return unit or "kg"
        return self.pick(["abc", "Open", "on off"])

    def cmd_arg(self, spec, good=True):
        if spec is None:
            return self.pick(["", "", "x", "3"])
        k = spec["kind"]
        if k == "number":
            num = self.pick(["1", "0.5", ".5", "12"]) if not spec["int_only"] else self.pick(["1", "12", "0"])
            if not good:
                return self.pick(["", "abc", num + " zz", "1,5", "--1", num if spec["units"] else num + " kg"])
            return num + (self.pick([" ", ""]) + self.pick(spec["units"]) if spec["units"] else "")
        if k == "categorical":
            if not good:
                return self.pick(["", "Zork", "A+", "+"])
            opts = spec["excl"] + spec["add"]
            return self.pick(opts)
        if k == "text":
            return self.pick(["hello", "a b c", "x"]) if good or spec["allow_empty"] else ""
        return "" if good else "3"

    # -- statements -------------------------------------------------------------------------------------
    def body(self, depth, n_min=1):
        n = self.D.integers(n_min, 5)
        for _ in range(n):
            if len(self.lines) >= self.max_lines:
                break
            self.statement(depth)

    def statement(self, depth):
        dialect = self.pick(["wf", "wf", "wf", "broken", "broken", "broken", "hostile"])
        if dialect == "wf":
            self.well_formed(depth)
        elif dialect == "broken":
            self.broken(depth)
        else:
            self.hostile(depth)

    def condition_header(self, depth, head, cond, kind):
        self.emit(depth, head + cond, kind)
        if depth < self.max_depth and len(self.lines) < self.max_lines:
            self.body(depth + 1)

    def well_formed(self, depth):
        kinds = ["mark", "mark", "block", "watch", "alarm", "macro", "wait", "simple", "uod", "uod", "blank", "comment", "simulate", "simoff"]
        k = self.pick(kinds)
        if k == "mark":
            self.emit(depth, "Mark: " + self.word(1, 6), "wf:mark")
        elif k == "block":
            self.emit(depth, "Block: " + self.word(1, 5), "wf:block")
            if depth < self.max_depth:
                self.body(depth + 1)
            self.emit(depth + 1, self.pick(["End block", "End blocks"]), "wf:end-block")
        elif k in ("watch", "alarm"):
            head = "Watch: " if k == "watch" else "Alarm: "
            usable = [t for t in self.tags if _safe(t["name"])]
            if not usable:
                self.emit(depth, "Mark: " + self.word(1, 6), "wf:mark")
                return
            t = self.pick(usable)
            self.condition_header(depth, head, "%s %s %s" % (t["name"], self.pick(OPS), self.value_for(t["unit"])), "wf:" + k)
        elif k == "macro":
            nm = self.word(1, 5)
            self.macros.append(nm)
            self.emit(depth, "Macro: " + nm, "wf:macro")
            if depth < self.max_depth:
                self.body(depth + 1)
            self.emit(depth, "Call macro: " + nm, "wf:call-macro")
        elif k == "wait":
            self.emit(depth, "Wait: " + self.pick(["1s", "0.5 min", "2 h", "3 s"]), "wf:wait")
        elif k == "simple":
            self.emit(depth, self.pick(["Pause", "Pause: 2s", "Hold: 1 min", "Unpause", "Unhold", "Stop", "Restart", "Base: s", "Base: L",
                                        "Increment run counter", "Run counter: 3", "Info: hello", "Warning: w", "Error: e",
                                        "Notify: n", "Batch: b1", "End block", "End blocks"]), "wf:simple")
        elif k == "uod":
            if not self.cmds:
                self.emit(depth, "Mark: " + self.word(1, 6), "wf:mark")
                return
            c = self.pick(self.cmds)
            a = self.cmd_arg(c["arg"])
            self.emit(depth, c["name"] + (": " + a if a else ""), "wf:uod-command")
        elif k == "blank":
            self.raw(self.pick(["", "", "    ", " " * (4 * depth)]), "wf:blank")
        elif k == "comment":
            self.emit(depth, "# " + self.word(0, 8), "wf:comment")
        elif k == "simulate":
            usable = [t for t in self.tags if _safe(t["name"])]
            if usable:
                t = self.pick(usable)
                self.emit(depth, "Simulate: %s = %s" % (t["name"], self.value_for(t["unit"])), "wf:simulate")
        else:
            usable = [t for t in self.tags if _safe(t["name"])]
            if usable:
                self.emit(depth, "Simulate off: " + self.pick(usable)["name"], "wf:simulate-off")

    def broken(self, depth):
        k = self.pick(["undef-tag-cond", "undef-tag-cond", "undef-tag-sim", "undef-tag-simoff", "undef-cmd", "undef-cmd", "undef-cmd",
                       "incomplete", "incomplete", "bad-unit", "bad-arg", "macro-undefined", "macro-recursive", "noarg-with-arg",
                       "sim-incomplete", "indent"])
        if k == "undef-tag-cond":
            head = self.pick(["Watch: ", "Alarm: "])
            name = self.undefined_tag()
            self.condition_header(depth, head, "%s %s %s" % (name, self.pick(OPS), self.value_for(self.pick(UNITS))), "broken:undefined-tag-condition")
        elif k == "undef-tag-sim":
            self.emit(depth, "Simulate: %s = %s" % (self.undefined_tag(), self.value_for(self.pick(UNITS))), "broken:undefined-tag-simulate")
        elif k == "undef-tag-simoff":
            self.emit(depth, "Simulate off: " + self.undefined_tag(), "broken:undefined-tag-simulate-off")
        elif k == "undef-cmd":
            name = self.undefined(self.cmd_names, self.pick(["near", "far", "far", "short"]), reserved=BUILTIN)
            arg = self.pick(["", "", ": 3", ": 1 L/h", ": Open", ": x y"])
            self.emit(depth, name + arg, "broken:undefined-command")
        elif k == "incomplete":
            head = self.pick(["Watch", "Alarm"])
            usable = [t["name"] for t in self.tags if _safe(t["name"])]
            tag = self.pick(usable) if usable and self.D.booleans() else self.undefined(self.tag_names, self.pick(["near", "far", "short"]))
            form = self.pick(["", ":", ": ", ": " + tag, ": %s %s" % (tag, self.pick(OPS)), ": %s %s" % (self.pick(OPS), "3"), ": " + self.pick(OPS)])
            self.condition_header(depth, head, form, "broken:incomplete-condition")
        elif k == "bad-unit":
            usable = [t for t in self.tags if _safe(t["name"])]
            if usable:
                t = self.pick(usable)
                self.condition_header(depth, self.pick(["Watch: ", "Alarm: "]), "%s %s %s" % (t["name"], self.pick(OPS), self.value_for(t["unit"], good=False)), "broken:bad-unit")
        elif k == "bad-arg":
            if self.cmds:
                c = self.pick(self.cmds)
                a = self.cmd_arg(c["arg"], good=False)
                self.emit(depth, c["name"] + (": " + a if a else ""), "broken:bad-argument")
            else:
                self.emit(depth, self.pick(["Wait", "Wait: 5", "Wait: x", "Base: zz", "Run counter: -1", "Pause: 3"]), "broken:bad-argument")
        elif k == "macro-undefined":
            self.emit(depth, "Call macro: " + self.pick([self.word(1, 5), "", (self.macros[-1] + "x") if self.macros else "m"]), "broken:macro-undefined")
        elif k == "macro-recursive":
            a, b = self.word(1, 4), self.word(1, 4)
            variant = self.pick(["mutual", "self-only", "calls-self-recursive"])
            if variant == "calls-self-recursive" and EXCLUDE_KNOWN and not self.free:
                self.excluded_macro += 1
                variant = self.pick(["mutual", "self-only"])
            first = b if variant == "mutual" else a
            second = b if variant == "self-only" else a
            self.emit(depth, "Macro: " + a, "broken:macro-recursive")
            self.emit(depth + 1, "Call macro: " + first, "broken:macro-recursive")
            self.emit(depth, "Macro: " + b, "broken:macro-recursive")
            self.emit(depth + 1, "Call macro: " + second, "broken:macro-recursive")
            self.emit(depth, self.pick(["Macro", "Macro:", "Call macro", "Call macro: " + a]), "broken:macro-recursive")
        elif k == "noarg-with-arg":
            self.emit(depth, self.pick(["Stop: 1", "Restart: now", "End block: 3", "End blocks: x", "Increment run counter: 2", "Unpause: 1"]), "broken:noarg-with-arg")
        elif k == "sim-incomplete":
            usable = [t["name"] for t in self.tags if _safe(t["name"])] or ["X"]
            tag = self.pick(usable)
            self.emit(depth, self.pick(["Simulate", "Simulate:", "Simulate: " + tag, "Simulate: %s =" % tag, "Simulate: = 3", "Simulate: %s > 3" % tag,
                                        "Simulate off", "Simulate off:", "Simulate off: "]), "broken:simulate-incomplete")
        else:
            self.raw(" " * self.pick([1, 2, 3, 5, 6, 8, 12, 16]) + self.pick(["Mark: a", "Watch: X > 1", "Block: b", "End block", "Zork"]), "broken:indentation")

    def hostile(self, depth):
        k = self.pick(["unicode", "unicode", "template", "template", "tabs", "colon-hash", "names-with-garbage", "linebreak"])
        ind = " " * (4 * depth)
        if k == "unicode":
            self.raw(self.D.unitext(20), "hostile:unicode")
        elif k == "template":
            usable = [t["name"] for t in self.tags if _safe(t["name"])] or ["X"]
            tag = self.pick(usable)
            self.raw(ind + self.pick(["Watch: %s > 1 > 2" % tag, "Watch: %s >= <= 3" % tag, "Alarm: %s = = 3" % tag, "Simulate: %s == 1" % tag,
                                      "Simulate: %s = 1 = 2" % tag, "Watch: ==", "Watch: !", "Watch: %s ! 3" % tag, "Watch:%s>1" % tag, "Watch : %s > 1" % tag,
                                      "Watch: : > 1", "Alarm: # > 1", "Watch: %s > #" % tag, "Simulate off: # x", "Call macro: #", "Macro: : x",
                                      "1", "1 ", "1.5", "1 2 Mark: a", "0 # x", "12 : y", ": x", ":", "::", "Mark", "Mark:", "Block", "Block:",
                                      "End block: x", "Watch: %s > 1e999" % tag, "Watch: %s > -.e1" % tag, "Watch: %s > nan" % tag,
                                      "Watch: %s > 1 %s" % (tag, "L/h/h"), "Watch: %s > 1 %%%%" % tag, "Wait: 1 s s", "Base", "Base:", "_", "_x: 1", "9lives"]), "hostile:template")
        elif k == "tabs":
            self.raw(self.pick(["\t", "\t\t", " \t ", "\t" * depth]) + self.pick(["Mark: a", "Watch: X > 1", "Zork", "", "# c"]), "hostile:tabs")
        elif k == "colon-hash":
            self.raw(ind + "".join(self.D.lists([":", "#", " ", "a", "Watch", "=", ">", "1", "\t", "Mark"], min_size=1, max_size=7)), "hostile:colon-hash")
        elif k == "names-with-garbage":
            nm = self.pick(self.tag_names + self.cmd_names + BUILTIN)
            g = self.D.unitext(6)
            self.raw(ind + self.pick([nm + g, g + nm, nm + ": " + g, "Watch: " + nm + g + " > 1", "Watch: " + nm + " > " + g, "Simulate off: " + nm + g]), "hostile:garbage-around-names")
        else:
            self.raw(ind + "Mark: a" + self.pick(["\x0b", "\x0c", "\x85", "\u2028", "\r", "\x1c"]) + self.pick(["b", "Watch: X > 1", "    Zork"]), "hostile:linebreak-char")


class _D:
    """deterministic draw source: a random.Random seeded from ONE Hypothesis-drawn integer (cheap), plus a small pool of
    Hypothesis-drawn unicode strings for the lexically hostile lines."""

    def __init__(self, seed: int, pool):
        import random
        self.r = random.Random(seed)
        self.pool = pool

    def sampled_from(self, seq):
        return seq[self.r.randrange(len(seq))]

    def integers(self, a, b):
        return self.r.randint(a, b)

    def booleans(self):
        return self.r.random() < 0.5

    def text(self, alphabet, min_size=0, max_size=8):
        n = self.r.randint(min_size, max_size)
        return "".join(alphabet[self.r.randrange(len(alphabet))] for _ in range(n))

    def lists(self, elems, min_size=0, max_size=5, unique=False):
        n = self.r.randint(min_size, max_size)
        out = []
        for _ in range(n):
            x = elems[self.r.randrange(len(elems))]
            if unique and x in out:
                continue
            out.append(x)
        return out

    def unitext(self, max_size):
        t = self.pool[self.r.randrange(len(self.pool))]
        if self.r.random() < 0.3:
            t = t + self.pool[self.r.randrange(len(self.pool))]
        return t[:max_size]


@st.composite
def cases(draw, max_lines, max_depth):
    n0 = draw(st.integers(0, 2 ** 62))
    pool = draw(st.lists(st.text(max_size=12), min_size=5, max_size=5))
    # the generator seed depends on every drawn value, so distinct Hypothesis examples give distinct programs
    import hashlib
    D = _D(int.from_bytes(hashlib.sha256(repr((n0, pool)).encode("utf-8", "surrogatepass")).digest()[:8], "big"), pool)
    tags = tag_sets(D)
    cmds = cmd_sets(D)
    sysnames = list(_system_defs().keys())
    mode = D.sampled_from(["all", "all", "all", "all", "some", "none"])
    if mode == "all":
        system = sysnames
    elif mode == "none":
        system = []
    else:
        system = [s for s in sysnames if D.booleans()]
    free = D.integers(0, 99) < KNOWN_FREE_PERCENT
    g = _Gen(D, tags, cmds, system, free, max_lines, max_depth)
    g.body(0, n_min=1)
    case = {"tags": tags, "commands": cmds, "system": system, "lines": g.lines}
    if D.integers(0, 19) == 0:
        case["pylsp_document"] = True
    if D.integers(0, 3) == 0:
        # the same document (uri, version) of the same engine was linted before with another text
        k = D.integers(0, 3)
        case["prior"] = ([] if k == 0 else ["Mark: a"] if k == 1 else list(reversed(g.lines)) if k == 2
                         else [l for l in g.lines if D.booleans()])
    return case, {"kinds": g.kinds, "excluded": g.excluded, "excluded_macro": g.excluded_macro, "free": free, "system_mode": mode}


def classify(case, meta, derived):
    cl = set()
    for k in meta["kinds"]:
        cl.add("line:" + k)
    dial = {k.split(":")[0] for k in meta["kinds"]}
    cl.add("dialects:" + "+".join(sorted(dial)))
    cl.add("system:" + meta["system_mode"])
    cl.add("tags:%s" % ("none" if not case["tags"] else "some"))
    cl.add("commands:%s" % ("none" if not case["commands"] else "some"))
    if any(t["unit"] for t in case["tags"]) and any(t["unit"] is None for t in case["tags"]):
        cl.add("tags:unit-ful+unit-less")
    if meta["free"]:
        cl.add("known-triggers-allowed")
    for d in derived:
        c = d["construct"]
        cl.add("judged:" + (c if c.startswith("unjudged") else c + ":" + d["sim"]))
    depth = max((len(l) - len(l.lstrip(" "))) // 4 for l in case["lines"]) if case["lines"] else 0
    cl.add("depth:%d" % min(depth, 4))
    if case.get("prior") is not None:
        cl.add("lint:after-another-text-of-the-same-document-version")
    cl.add("lines:%s" % ("1-5" if len(case["lines"]) <= 5 else "6-15" if len(case["lines"]) <= 15 else "16+"))
    return sorted(cl)


def is_nontrivial(derived) -> bool:
    return any((d["construct"].startswith("undefined-tag") or d["construct"] == "undefined-command")
               and d["sim"] in ("far", "short", "empty-set") for d in derived)


def run_shard(col, cfg):
    n = max(1, cfg["examples"] // col.nshards)

    def body(x):
        case, meta = x
        if not in_domain(case):
            raise AssertionError("generator produced an out-of-domain case: %r" % (case,))
        derived = derive(case)
        vs = check_case(case)
        if meta["excluded"]:
            col.count("excluded_known:%s" % KNOWN_TRIGGER, meta["excluded"])
        if meta["excluded_macro"]:
            col.count("excluded_known:%s" % KNOWN_TRIGGER_MACRO, meta["excluded_macro"])
        col.record(case, is_nontrivial(derived), classes=classify(case, meta, derived), violations=vs)

    import warnings
    from hypothesis.errors import HypothesisWarning
    with warnings.catch_warnings():
        # a RecursionError inside the analysed code (a finding, recorded above) makes Hypothesis warn about its own
        # recursion-limit bookkeeping on every later example; that is stderr noise, not information
        warnings.simplefilter("ignore", HypothesisWarning)
        hyp_run(cases(cfg["max_lines"], cfg["depth"]), body, n, shard_seed(col.seed, col.shard), col)


def shrink_hints(case):
    lines = case["lines"]
    # drop a line together with its more deeply indented followers
    for i, l in enumerate(lines):
        ind = len(l) - len(l.lstrip(" "))
        j = i + 1
        while j < len(lines) and lines[j].strip() and (len(lines[j]) - len(lines[j].lstrip(" "))) > ind:
            j += 1
        if j - i > 1:
            yield dict(case, lines=lines[:i] + lines[j:])
    # keep a single line, dedented
    for l in lines:
        if l.strip() and len(lines) > 1:
            yield dict(case, lines=[l.strip()])
    if case.get("pylsp_document"):
        c = dict(case)
        del c["pylsp_document"]
        yield c
    if case.get("prior") is not None:
        c = dict(case)
        del c["prior"]
        yield c
        if case["prior"]:
            yield dict(case, prior=[])
    if len(case["system"]) > 0:
        yield dict(case, system=[])
    for t in case["tags"]:
        if t["unit"] is not None:
            yield dict(case, tags=[dict(x, unit=None) if x is t else x for x in case["tags"]])
    for c in case["commands"]:
        if c["arg"] is not None:
            yield dict(case, commands=[dict(x, arg=None) if x is c else x for x in case["commands"]])
