"""C11 - command exclusivity and init/finalize pairing.

Domain : Hypothesis-generated methods issuing same-name (Slow, Quick, Set) and overlapping (OvA/OvB) UOD commands of 1..N
         iterations from the main thread, Watch/Alarm bodies and Blocks (rarely a failing Boom or a rejected Bad command), x a
         schedule of injected snippets with the same commands (also several in one tick), cancel requests for running
         instances / run log items, user Stop / Restart / Start / Pause / Hold and user commands Open1/Open2; a final Stop.
Observed: the callback log of the instrumented UOD commands (init / exec / finalize with instance id), uod.command_instances
         after every tick.
Oracle :
  exclusive:same-tick-exec   in no tick do two instances of one command, or of one overlap group, get an exec callback
  conflict:*                 when an instance starts while an older one of its name/group was executing at the start of that
                             tick, the older one gets no exec after the newer one started and is finalized in that tick
  init:* / finalize:* / reinit-after-finalize / cancelled-instance-restarted / callback-after-finalize / instance:args-changed
                             per instance id: exactly one init, before the first exec; at most one finalize; nothing after it;
                             all exec callbacks of one instance carry the same arguments
  finalize:missing-at-run-end / leak:args-rejected-instance / registry:*
                             when a run ends (on_stop of Stop and Restart) every instance of the run has been finalized and
                             uod.command_instances is empty; after every tick uod.command_instances holds exactly the
                             instances that are initialised and not finalised (plus never-initialised ones, judged at run end)
"""
from __future__ import annotations

from hypothesis import strategies as st

from vp.core.framework import Violation, hyp_run, shard_seed
from vp.harness import cmd_h as C

ID = "C11"
LEVEL = "exploration"
ENGINE = "engine_harness"
TECHNIQUE = "Hypothesis-generated methods x request schedules; history invariants on the UOD command callback log"
RULE = ("Hypothesis draws a method rich in same-name/overlapping commands of varying duration (main thread, Watch/Alarm bodies, "
        "Blocks), constant inputs and a schedule of 2-10 requests (injected command snippets - also several per tick -, cancel "
        "requests, user Stop/Restart/Start/Pause/Hold/Open1/Open2) followed by a final Stop. Non-trivial = at least one "
        "conflict in which the older command had been executing since an earlier tick: an instance started while an older "
        "instance of the same command or overlap group was initialised and not finalised at the start of that tick "
        "(conflicts between instances started in one tick are counted as a class). Distinct = distinct case JSON.")
ASSUMPTIONS = [
    "'execute at a tick' = the instance's exec function is called in that tick; two instances executing one after the other "
    "within one tick count (signature detail 'sequential'), as the statement says 'at no tick'",
    "'first cancels the older one' is read weakly: the older instance gets no exec after the newer one started and its finalize "
    "happens in the same tick (not necessarily before the newer one's init)",
    "an instance is identified by its instance id; 'older' = its first callback came earlier",
    "an instance object that never receives a callback (arguments rejected) is judged only at run end (it must not stay registered)",
    "cancel requests and injections go through engine.cancel_instruction / engine.inject_code; like the message handlers the "
    "runner treats any exception from them as the rejection reply (counted)",
]
TIERS = {
    "quick": {"examples": 8000, "ticks": (25, 55), "long_max": 8, "depth": 2, "top": 8, "max_ops": 10, "budget_s": 110},
    "thorough": {"examples": 300000, "ticks": (30, 90), "long_max": 14, "depth": 3, "top": 12, "max_ops": 16, "budget_s": 1500},
}


# ---------------------------------------------------------------------------------------------
# generation
# ---------------------------------------------------------------------------------------------

def _cfg(cfg):
    return C.cfg_with({"slow": 6, "ova": 4, "ovb": 4, "quick": 3, "set": 2, "mark": 2, "wait": 3, "pause": 1, "hold": 1,
                       "simulate": 0, "simoff": 0, "block": 2, "watch": 2, "alarm": 2, "stop": 0, "restart": 0},
                      max_depth=cfg["depth"], max_top=cfg["top"])


OP_KIND = st.sampled_from(["inject"] * 8 + ["cancel"] * 4 + ["Stop", "Restart", "Start", "Pause", "Unpause", "Hold", "Unhold",
                                                             "Open1", "Open1", "Open2"])


@st.composite
def cases(draw, cfg):
    tree = draw(C.programs(_cfg(cfg), long_max=cfg["long_max"], faulty_every=7))
    n_ticks = draw(st.integers(*cfg["ticks"]))
    ops = []
    last = 0
    for _ in range(draw(st.integers(2, cfg["max_ops"]))):
        # a third of the requests arrive in the same tick gap as the previous one (several requests per tick)
        i = last if (ops and draw(st.integers(0, 2)) == 0) else draw(st.integers(0, n_ticks - 6))
        last = i
        k = draw(OP_KIND)
        if k == "inject" and draw(st.integers(0, 11)) == 0:
            # a Stop/Restart issued by code (runs in the interpreter, after the method line of that tick)
            ops.append([i, "inject", [[draw(st.sampled_from(["stop", "restart"])), 0]]])
        elif k == "inject":
            ops.append([i, "inject", draw(C.snippet(kinds=("slow",) * 8 + ("ova",) * 5 + ("ovb",) * 5 + ("quick",) * 2 + ("set1",) * 2 + ("mark", "boom", "bad"),
                                                    max_lines=2, long_max=cfg["long_max"]))])
        elif k == "cancel":
            ops.append([i, "cancel", draw(st.integers(0, 7)), draw(st.sampled_from(["alive", "alive", "runlog"]))])
        else:
            ops.append([i, "user", k])
            if k in ("Open1", "Open2") and draw(st.booleans()):
                ops.append([i, "user", k])
    ops.sort(key=lambda o: o[0])
    ops.append([n_ticks - 4, "user", "Stop"])
    case = {"tree": tree, "inputs": draw(C.INPUTS), "ops": ops, "n_ticks": n_ticks}
    # half of the cases run on a unit with further overlap declarations, so that a command is a member of two lists
    extra = draw(st.sampled_from([[], [], [], [["OvA", "Slow"]], [["OvB", "Slow"]], [["Slow", "OvB"], ["Quick", "OvA"]]]))
    if extra:
        case["overlaps"] = extra
    return case


# ---------------------------------------------------------------------------------------------
# oracle
# ---------------------------------------------------------------------------------------------

def _ended(it, pos: int) -> bool:
    """every life of the instance id that began before event position `pos` was finalized before it (an id that was
    initialised again after its finalize has several lives)"""
    n_init = sum(1 for q, _ in it.init if q < pos) or (1 if any(q < pos for q, _ in it.exec) else 0)
    return sum(1 for q, _ in it.fin if q < pos) >= n_init


def _completed_before(tr, it, pos: int) -> bool:
    """did the life of the instance that ended before event position `pos` run to completion?  (harness unit: Slow/OvA/OvB: n
    complete in the exec call with iteration n-1, every other command in its first exec call)"""
    ex = [q for q, _ in it.exec if q < pos]
    if not ex:
        return False
    ev = tr.events[ex[-1]]
    iteration, args = ev[6], ev[5]
    if it.name in ("Slow", "OvA", "OvB"):
        try:
            n = int(float(args))
        except (TypeError, ValueError):
            return False
        return iteration >= n - 1
    return True


def oracle(case, tr: C.Trace) -> tuple[list[Violation], dict]:
    out: list[Violation] = []
    info = {"conflicts_same": 0, "conflicts_overlap": 0, "instances": 0, "same_tick_starts": 0, "run_ends": 0, "restarts": 0,
            "alive_at_run_end": 0, "conflicts_running": 0, "attributed_to_leak": 0, "same_tick_first_unfinalized": 0, "finalize_without_init": 0, "older_finalized_after_newer_init": 0, "runs": 0, "tick_raised": 0}

    def viol(sig, msg):
        if not any(v.sig == sig for v in out):
            out.append(Violation(sig, msg, case))

    insts = C.instances(tr.events, tr)
    info["instances"] = len(insts)
    tick_from = {t.no: t.ev_from for t in tr.ticks}
    tick_end = {t.no: t.ev_from + len(t.ev) for t in tr.ticks}

    # instances that outlived the end of their run (reported below as finalize:missing-at-run-end): what such a leaked instance
    # does in the next run (it stays registered; a later request of its name takes it over; an overlapping command does not
    # cancel it because no request owns it) follows from that one defect and is attributed to it, not judged again
    leaked: dict = {}
    _runs = C.runs_of(tr)
    for ri, r in enumerate(_runs):
        if r["stop_tick"] is None:
            continue
        r["next_start_pos"] = _runs[ri + 1]["start_pos"] if ri + 1 < len(_runs) else len(tr.events)
        end_pos = tick_end[r["stop_tick"]]
        for it in insts.values():
            # also an instance whose first callback comes after on_stop, before any new run (a pending request that the command
            # loop of the stop tick still starts), belongs to the ended run
            if r["start_pos"] < it.first_pos < r["next_start_pos"] and (it.init or it.exec) and not _ended(it, max(end_pos, tick_end.get(min(it.init + it.exec)[1], end_pos))):
                leaked[it.id] = r["stop_pos"]

    # accepted cancel requests per instance id (tick before which the request was made)
    cancelled_by_request: dict = {}
    for t in tr.ticks:
        for op in t.ops:
            if op[0] == "cancel" and op[2] and op[1] in insts:
                cancelled_by_request.setdefault(op[1], []).append(t.no)

    # -- A. pairing per instance (a small state machine over the instance's callbacks in order) ---------------
    for it in insts.values():
        tag = "%s (..%s, args %r)" % (it.name, it.id[-4:], it.args)
        seq = sorted([(p, t, "init") for p, t in it.init] + [(p, t, "exec") for p, t in it.exec] +
                     [(p, t, "finalize") for p, t in it.fin])
        state = "new"            # new -> initialised -> finalized (-> initialised again = a second life, reported once)
        last_fin = None
        for pos, tick, ph in seq:
            if ph == "init":
                if state == "new":
                    state = "initialised"
                elif state == "initialised":
                    viol("init:twice", "%s: second init callback in tick %d without a finalize in between" % (tag, tick))
                elif any(ct <= last_fin for ct in cancelled_by_request.get(it.id, [])):
                    # the accepted cancel request came before (or caused) the finalize of the previous life
                    # was the finalize done by the cancel request itself (between two ticks: the harness labelled the callback
                    # with the tick before) or only later inside a tick?  Immediate finalize + restart = a stale request of the
                    # same name re-created the instance (by-name request lookup, the reinit-after-finalize family)
                    fin_pos = max(q for q, _ in it.fin if q < pos)
                    deferred = tr.events[fin_pos][0] == last_fin
                    # deferred finalize on a line that had been invoked before (Alarm body): the cancellation ran into the failing
                    # mark_cancelled of an already cancelled node (finalize skipped, done by the safety net one tick later)
                    reinvoked = any(o2 is not it and o2.name == it.name and o2.args == it.args and o2.first_pos < it.first_pos
                                    for o2 in insts.values())
                    # the cancel was accepted while the request had not started at all (left pending by an aborted command loop):
                    # cancel_instruction finds no command for it and only flags the line; the request starts anyway, its later
                    # cancellation by the other pending request fails in mark_cancelled (node already cancelled), the instance is
                    # adopted by name, finalized and re-created by its own request
                    before_start = any(ct <= it.init[0][1] for ct in cancelled_by_request.get(it.id, []))
                    viol("cancelled-instance-restarted:cancelled-before-start" if before_start else
                         ("cancelled-instance-restarted:reinvoked-line" if reinvoked else "cancelled-instance-restarted") if deferred
                         else "cancelled-instance-restarted:stale-request-of-same-name",
                         "%s: a cancel request for this instance was accepted before tick %d; it "
                         "was finalized in tick %d, then initialised again in tick %d and executed from iteration 0 (%d exec "
                         "callbacks after the accepted cancel)"
                         % (tag, cancelled_by_request[it.id][0], last_fin, tick, sum(1 for q, _ in it.exec if q > pos)))
                    state = "initialised"
                elif _completed_before(tr, it, pos):
                    # the previous life ran to completion (no cancellation involved): the method line was requested again under
                    # the instance id of its finished invocation (the interpreter takes record.last_instance_id)
                    viol("reinit-after-finalize:completed-instance-requested-again",
                         "%s: completed and finalized in tick %d, then the same instance id was initialised again in tick %d "
                         "(%d exec callbacks afterwards)" % (tag, last_fin, tick, sum(1 for q, _ in it.exec if q > pos)))
                    state = "initialised"
                else:
                    viol("reinit-after-finalize", "%s: finalized in tick %d, then initialised again in tick %d and executed "
                         "from iteration 0 (%d exec callbacks afterwards)"
                         % (tag, last_fin, tick, sum(1 for q, _ in it.exec if q > pos)))
                    state = "initialised"
            elif ph == "exec":
                if state == "new":
                    viol("init:missing", "%s executed in tick %d without a preceding init callback" % (tag, tick))
                    state = "initialised"
                elif state == "finalized":
                    viol("callback-after-finalize:exec", "%s: exec in tick %d after finalize in tick %d" % (tag, tick, last_fin))
            else:
                if state == "finalized":
                    viol("finalize:twice", "%s: finalize callbacks in ticks %d and %d without an init in between"
                         % (tag, last_fin, tick))
                elif state == "new":
                    # an instance that never started (arguments rejected) is finalized by a cancel: the statement asks for the
                    # init before the first execution only, so this is counted, not judged
                    info["finalize_without_init"] += 1
                state, last_fin = "finalized", tick
        if len(it.args_seen) > 1 and it.id in leaked:
            info["attributed_to_leak"] += 1
        elif len(it.args_seen) > 1:
            viol("instance:args-changed", "%s: one instance executed with different arguments %r (another request took the "
                 "instance over)" % (tag, it.args_seen))

    # -- B. exclusivity per tick (pairwise: same command, or both named in one overlap declaration) -----------
    lists = C.overlap_lists(case)
    for t in tr.ticks:
        ids: list = []
        for e in t.ev:
            if e[1] == "cmd" and e[4] == "exec" and e[3] not in ids:
                ids.append(e[3])
        lo, hi = tick_from[t.no], tick_end[t.no]
        for i in range(len(ids)):
            for j in range(i + 1, len(ids)):
                a, b = insts[ids[i]], insts[ids[j]]
                if not C.conflicting(a.name, b.name, lists):
                    continue
                if any(x.id in leaked and leaked[x.id] < lo for x in (a, b)):
                    info["attributed_to_leak"] += 1
                    continue
                pa = [q for q, _ in a.exec if lo <= q < hi][0]
                pb = [q for q, _ in b.exec if lo <= q < hi][0]
                together = a.alive_at(pb) or b.alive_at(pa)
                detail = "alive-together" if together else "sequential"
                if together and a.first_pos >= lo and b.first_pos >= lo:
                    # both conflicting requests arrived in this tick (the 'sequential' family) and the cancellation of the one
                    # that started first was not completed: it is cancelled but stays un-finalized next to the other one
                    detail = "both-started-in-tick:first-left-unfinalized"
                viol("exclusive:same-tick-exec:%s:%s" % ("same-name" if a.name == b.name else "overlap-group", detail),
                     "tick %d: %s (..%s) and %s (..%s) both got exec callbacks in this tick (callback order: %s)"
                     % (t.no, a.name, a.id[-4:], b.name, b.id[-4:],
                        [(e[2], e[3][-4:], e[4]) for e in t.ev if e[1] == "cmd" and e[3] in (a.id, b.id)]))

    # -- C. conflicts ---------------------------------------------------------------------------------
    order = sorted(insts.values(), key=lambda i: i.first_pos)
    for n in order:
        if not (n.init or n.exec):
            continue
        p = n.first_pos
        tk = min(n.init + n.exec + n.fin)[1]      # tick of its first callback
        start_of_tick = tick_from.get(tk, 0)
        for o in order:
            if o is n or o.first_pos >= p or not C.conflicting(o.name, n.name, lists):
                continue
            if any(fp < start_of_tick for fp, _ in o.fin):
                continue            # ended before this tick: no conflict
            if o.id in leaked and leaked[o.id] < p:
                info["attributed_to_leak"] += 1
                continue            # the older one is a leftover of an ended run (reported as finalize:missing-at-run-end)
            started_this_tick = o.first_pos >= start_of_tick
            if started_this_tick:
                info["same_tick_starts"] += 1
            else:
                info["conflicts_running"] += 1
            info["conflicts_same" if o.name == n.name else "conflicts_overlap"] += 1
            late = [(q, t2) for q, t2 in o.exec if q > p]
            if late and not (len(o.init) > 1):
                viol("conflict:older-exec-after-newer-started:%s" % ("same-name" if o.name == n.name else "overlap-group"),
                     "%s (..%s) started in tick %d while %s (..%s) was executing; the older one still got exec in tick %d"
                     % (n.name, n.id[-4:], tk, o.name, o.id[-4:], late[0][1]))
            fin_here = [fp for fp, ft in o.fin if ft == tk]
            if not fin_here and started_this_tick:
                # reported by the exclusivity rule as ...:both-started-in-tick:first-left-unfinalized (both executed in this tick)
                info["same_tick_first_unfinalized"] += 1
                if not o.exec or not n.exec:
                    viol("exclusive:same-tick-exec:%s:both-started-in-tick:first-left-unfinalized"
                         % ("same-name" if o.name == n.name else "overlap-group"),
                         "%s (..%s) and %s (..%s) both started in tick %d; the one started first was not finalized in that tick"
                         % (o.name, o.id[-4:], n.name, n.id[-4:], tk))
            elif not fin_here:
                viol("conflict:older-not-finalized-in-tick:%s" % ("same-name" if o.name == n.name else "overlap-group"),
                     "%s (..%s) started in tick %d while %s (..%s) was executing; the older one was %s"
                     % (n.name, n.id[-4:], tk, o.name, o.id[-4:],
                        ("finalized only in tick %d" % o.fin[0][1]) if o.fin else "never finalized"))
            elif fin_here[0] > p:
                info["older_finalized_after_newer_init"] += 1

    # -- D. run end + E. registry consistency --------------------------------------------------------------
    runs = _runs
    info["runs"] = len(runs)
    for r in runs:
        s = r["stop_tick"]
        if s is None:
            continue
        info["run_ends"] += 1
        info["restarts"] += r["kind"] == "Restart"
        T = tr.by_no(s)
        stop_pos = r["stop_pos"]
        marks = [q for q, ev in enumerate(tr.events[:stop_pos]) if ev[1] == "cancel_all" and q > r["start_pos"]]
        begin_pos = marks[-1] if marks else stop_pos
        delivery = {"user": "user-request", "code": "code-issued"}.get(tr.events[marks[-1]][3], "unknown-delivery") \
            if marks else "unknown-delivery"
        P = tr.by_no(s - 2)
        if P is not None and P.inst:
            info["alive_at_run_end"] += 1
        end_pos = tick_end[s]
        for it in insts.values():
            if not (r["start_pos"] < it.first_pos < r["next_start_pos"]):
                continue
            if (it.init or it.exec) and not _ended(it, max(end_pos, tick_end.get(min(it.init + it.exec)[1], end_pos))) and it.id in leaked:
                began = [q for q, _ in it.init] or [q for q, _ in it.exec]
                if max(began) < begin_pos:
                    cause = "not-cancelled"
                elif any(fp < max(began) for fp, _ in it.fin):
                    cause = "restarted-after-cancel"        # the id had a life before (by-name cancellation + stale request)
                elif any(rid == it.id for tk0 in [tr.by_no(min(it.init + it.exec)[1] - 1)] if tk0 is not None
                         for _n, rid in tk0.reqs):
                    cause = "pending-request-started-after-cancel"   # request listed before the Stop's tick, not yet started
                else:
                    cause = "started-after-cancel:%s" % delivery   # first started after the Stop/Restart cancelled everything
                viol("finalize:missing-at-run-end:%s" % cause,
                     "tick %d: the run ended (%s) but %s (..%s, args %r), initialised in tick %d, has %s"
                     % (s, r["kind"], it.name, it.id[-4:], it.args, (it.init or it.exec)[0][1],
                        ("its finalize only in tick %d" % it.fin[0][1]) if it.fin else "never been finalized"))
        for name, iid in T.inst:
            it = insts.get(iid)
            if it is None or not (it.init or it.exec):
                viol("leak:args-rejected-instance", "tick %d: the run ended (%s) but uod.command_instances still holds %s (..%s), "
                     "an instance that never received init/exec/finalize" % (s, r["kind"], name, iid[-4:]))
    for t in tr.ticks:
        pos = tick_end[t.no]
        reg = {iid: name for name, iid in t.inst}
        for iid, name in reg.items():
            it = insts.get(iid)
            if it is not None and it.fin and len(it.init) <= 1 and any(fp < pos for fp, _ in it.fin):
                viol("registry:finalized-instance-still-registered", "tick %d: uod.command_instances holds %s (..%s) which was "
                     "finalized in tick %d" % (t.no, name, iid[-4:], it.fin[0][1]))
        for it in insts.values():
            if it.alive_at(pos) and len(it.init) <= 1 and it.id not in reg:
                viol("registry:alive-instance-not-registered", "tick %d: %s (..%s) is initialised and not finalized but not in "
                     "uod.command_instances %r" % (t.no, it.name, it.id[-4:], sorted(reg.values())))
        if t.raised is not None:
            info["tick_raised"] += 1          # judged by C13, only classified here
    return out, info


def check_case(case):
    if not C.valid(case):
        return []
    tr = C.run_case(case)
    return oracle(case, tr)[0]


# ---------------------------------------------------------------------------------------------
# driver
# ---------------------------------------------------------------------------------------------

def run_shard(col, cfg):
    def body(case):
        tr = C.run_case(case)
        vs, info = oracle(case, tr)
        nontrivial = info["conflicts_running"] > 0
        classes = []
        if info["conflicts_same"]:
            classes.append("conflict-same-name")
        if info["conflicts_overlap"]:
            classes.append("conflict-overlap-group")
        if info["same_tick_starts"]:
            classes.append("conflicting-instances-started-in-one-tick")
        if info["older_finalized_after_newer_init"]:
            classes.append("older-finalized-after-newer-init")
        if tr.info["cancel_alive_uod"]:
            classes.append("cancel-request-on-running-uod-command")
        if tr.info["cancel_ok"]:
            classes.append("cancel-accepted")
        if tr.info["cancel_rejected"]:
            classes.append("cancel-rejected")
        if tr.info["inject_ok"]:
            classes.append("inject")
        if info["alive_at_run_end"]:
            classes.append("command-alive-when-run-ends")
        if info["restarts"]:
            classes.append("restart")
        if info["runs"] > 1:
            classes.append("several-runs")
        if info["run_ends"] == 0:
            classes.append("no-run-end")
        kinds = {l.split(":")[0].strip() for l in tr.lines}
        if any(e[1] == "cmd" and e[2] == "Boom" for e in tr.events):
            classes.append("failing-command-executed")
        if any(n == "Bad" for t in tr.ticks for n, _ in t.inst):
            classes.append("rejected-arguments-instance")
        if any(e[1] == "cmd" and e[2] in ("Open1", "Open2") for e in tr.events):
            classes.append("user-command")
        if "Alarm" in kinds:
            classes.append("alarm")
        per_line: dict = {}
        for it in C.instances(tr.events, tr).values():
            if it.exec:
                per_line[(it.name, it.args)] = per_line.get((it.name, it.args), 0) + 1
        if any(v > 1 for v in per_line.values()):
            classes.append("line-invoked-again(same-command-and-argument)")
        if info["tick_raised"]:
            classes.append("tick-raised(judged-by-C13)")
        if info["finalize_without_init"]:
            classes.append("never-started-instance-finalized-by-cancel")
        if info["attributed_to_leak"]:
            col.count("excluded_known:consequence-of-instance-leaked-at-run-end")
        col.count("count:instances", info["instances"])
        col.count("count:conflicts", info["conflicts_same"] + info["conflicts_overlap"])
        col.count("count:conflicts-with-a-command-running-since-an-earlier-tick", info["conflicts_running"])
        col.record(case, nontrivial, classes=classes, violations=vs,
                   sample={"method": tr.lines, "ops": case["ops"], "n_ticks": case["n_ticks"]})

    hyp_run(cases(cfg), body, max(1, cfg["examples"] // col.nshards), shard_seed(col.seed, col.shard), col)


def shrink_hints(case):
    ops = case.get("ops", [])
    for i in range(len(ops)):
        c = dict(case)
        c["ops"] = ops[:i] + ops[i + 1:]
        yield c
