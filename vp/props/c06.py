"""C06 — run state and System State always agree; control commands gated.

Part A (exhaustive): every sequence of length <= L over {Start, Stop, Pause, Unpause, Hold, Unhold,
Restart, tick} from the stopped state, followed by settle ticks.
Part B (Hypothesis): longer sequences in which the *method* also issues Pause/Hold (with and without
duration), Stop and Restart, interleaved with user requests.
Part C (exhaustive): histories of several runs - "Start, tick" followed by every sequence of K macro-steps
<command, n ticks> with n from a small set that includes "settled" (a Restart needs three ticks, a Stop two) and
"at once" (0 ticks: the next request arrives before the next tick): what an engine does long after a completed
Restart or Stop (second run, third run) is out of reach of Part A's length.

Oracle = reference model (DESIGN Appendix A.1) written from the statement:
  flags (active, paused, holding), restart/stop phases, timers of timed Pause/Hold.
  after every tick : System State tag == model state; control-state message flags == model flags;
                     tag/flag self-consistency (Stopped <=> not running, Paused <=> paused, ...);
                     Run Id non-empty and fresh while a run is active, None when Stopped.
  every user request: accepted (no ValueError) iff valid in the model state at request time.
Where the statement leaves the outcome open (two or more requests pending for one tick, a request
while a Stop/Restart is in progress) the model only checks consistency + acceptance and re-syncs
its flags from the engine; such steps are counted as class "ambiguous".
"""
from __future__ import annotations

import itertools

from hypothesis import strategies as st

from vp.core.framework import Violation, hyp_run, shard_seed

ID = "C06"
LEVEL = "exploration"
ENGINE = "engine_harness"
TECHNIQUE = "exhaustive command-sequence enumeration + Hypothesis sequences against a reference run-state model"
RULE = ("Part A: all sequences of length<=L over 7 user control commands + tick (itertools.product, sharded), 4 settle ticks; "
        "Part B: Hypothesis sequences (<=30 steps) with method-issued Pause/Hold/Stop/Restart; "
        "Part C: Start,tick + all sequences of K macro-steps <command, n ticks> (n in {0,2,3} quick / {0,1,2,3} thorough). Non-trivial = the run visits "
        ">=3 distinct system states. Distinct = distinct operation sequence (+method).")
ASSUMPTIONS = [
    "a user request is validated against the state at request time and executed in the next tick; Stop needs two ticks, "
    "Restart three (Restarting -> Stopped -> Running) as observed on the unchanged tree",
    "outcome of >=2 requests pending for the same tick, or of a request arriving while Stop/Restart is in progress, is not "
    "fixed by the statement: only consistency and acceptance are judged there",
]
CMDS = ["Start", "Stop", "Pause", "Unpause", "Hold", "Unhold", "Restart"]
ALPHA = CMDS + ["tick"]
TIERS = {
    "quick": {"L": 5, "hyp_examples": 150, "budget_s": 150, "exhaustive": True, "K": 3, "gaps": [0, 2, 3]},
    "thorough": {"L": 6, "hyp_examples": 4000, "budget_s": 1500, "exhaustive": True, "K": 4, "gaps": [0, 1, 2, 3]},
}


# ---- reference model ---------------------------------------------------------------------------

class Model:
    def __init__(self):
        self.active = False
        self.paused = False
        self.holding = False
        self.phase = None        # None | "stopping" | "restart1" | "restart2"
        self.pending: list[str] = []
        self.pause_end = None
        self.hold_end = None
        self.run_ids: set = set()
        self.shown = None        # state displayed during the first tick of Stop/Restart when it differs from the model's

    def state(self) -> str:
        if self.shown is not None:
            return self.shown
        if self.phase == "restart1":
            return "Restarting"
        if not self.active:
            return "Stopped"
        if self.paused:
            return "Paused"
        if self.holding:
            return "Holding"
        return "Running"

    def valid(self, cmd: str) -> bool:
        s = self.state()
        live = s not in ("Stopped", "Restarting")
        return {
            "Start": s == "Stopped",
            "Stop": live,
            "Restart": live,
            "Pause": live and not self.paused,
            "Unpause": live and self.paused,
            "Hold": live and not self.holding,
            "Unhold": live and self.holding,
        }[cmd]

    def apply(self, cmd: str, now: float, dur: float | None = None):
        if cmd == "Start":
            if not self.active:
                self.active, self.paused, self.holding = True, False, False
        elif cmd == "Pause":
            self.paused = True
            if dur is not None:
                self.pause_end = now + dur
        elif cmd == "Unpause":
            self.paused = False
        elif cmd == "Hold":
            self.holding = True
            if dur is not None:
                self.hold_end = now + dur
        elif cmd == "Unhold":
            self.holding = False
        elif cmd == "Stop":
            if self.state() not in ("Stopped", "Restarting"):
                self.phase = "stopping"
        elif cmd == "Restart":
            if self.state() not in ("Stopped", "Restarting"):
                self.phase = "restart1"


def _flags(h):
    from openpectus.engine.engine_message_builder import EngineMessageBuilder
    cs = EngineMessageBuilder(h.engine, "", False).create_control_state_msg().control_state
    return cs.is_running, cs.is_paused, cs.is_holding


def _consistent(state: str, running: bool, paused: bool, holding: bool) -> str | None:
    """tag vs reported flags, straight from the statement"""
    if state == "Restarting":
        return None
    if (state == "Stopped") != (not running):
        return "Stopped<=>no-run"
    if running:
        exp = "Paused" if paused else ("Holding" if holding else "Running")
        if state != exp:
            return "flags->%s" % exp
    return None


def run_case(case) -> tuple[list[Violation], dict]:
    from vp.harness.engine_h import EngineHarness
    ops = case["ops"]
    method = case.get("method") or ["Mark: a", "Wait: 1000s"]
    h = EngineHarness(method)
    m = Model()
    out: list[Violation] = []
    states_seen = {"Stopped"}
    info = {"ambiguous": 0, "rejected": 0, "accepted": 0}
    sched: list[tuple] = []
    orig_sched = h.engine.schedule_execution

    def spy(name, arguments="", instance_id=None):
        sched.append((name, arguments))
        return orig_sched(name, arguments, instance_id)
    h.engine.schedule_execution = spy  # type: ignore  (interpreter -> engine boundary)

    def viol(sig, msg):
        if not any(v.sig == sig for v in out):
            out.append(Violation(sig, msg, case))

    ambiguous_pending = False     # "unsettled": the model re-synced after an ambiguous tick and commands are still executing
    try:
        for step, op in enumerate(list(ops) + ["tick"] * case.get("settle", 4)):
            if op != "tick":
                expect = m.valid(op)
                try:
                    h.user(op)
                    accepted = True
                except ValueError:
                    accepted = False
                if accepted != expect and not ambiguous_pending:
                    viol("%s:%s@%s" % ("accept-invalid" if accepted else "reject-valid", op, m.state()),
                         "step %d: user %s in model state %s (paused=%s holding=%s) was %s" %
                         (step, op, m.state(), m.paused, m.holding, "accepted" if accepted else "rejected"))
                info["accepted" if accepted else "rejected"] += 1
                if accepted:
                    m.pending.append(op)
                continue
            # ---- tick ------------------------------------------------------------------------
            del sched[:]
            o = h.tick()
            if o.raised is not None:
                viol("tick-raised:%s" % type(o.raised).__name__, "step %d: tick raised %r" % (step, o.raised))
                break
            now = o.time
            method_cmds = [(n, a) for (n, a) in sched if n in CMDS]
            in_phase_before = m.phase
            m.shown = None
            pending = m.pending
            m.pending = []
            ambiguous = (len(pending) + len(method_cmds) >= 2) or (in_phase_before is not None and (pending or method_cmds)) \
                or ambiguous_pending
            # progress multi-tick commands started earlier
            if in_phase_before == "stopping":
                m.active = m.paused = m.holding = False
                m.phase = None
                m.pause_end = m.hold_end = None
            elif in_phase_before == "restart1":
                m.active = m.paused = m.holding = False
                m.phase = "restart2"
                m.pause_end = m.hold_end = None
            elif in_phase_before == "restart2":
                m.active, m.paused, m.holding = True, False, False
                m.phase = None
            else:
                # timers of timed Pause / Hold
                for attr, flag in (("pause_end", "paused"), ("hold_end", "holding")):
                    end = getattr(m, attr)
                    if end is not None:
                        if now >= end + 1e-6:
                            setattr(m, flag, False)
                            setattr(m, attr, None)
                        elif now >= end - 1e-6:
                            ambiguous = True
                for cmd in pending:
                    m.apply(cmd, now)
                for name, args in method_cmds:
                    dur = None
                    if args:
                        a = args.strip()
                        num = float(a.rstrip("sminh ").strip())
                        dur = num * (60 if a.endswith("min") else 3600 if a.endswith("h") else 1)
                    m.apply(name, now, dur)
            running, paused, holding = _flags(h)
            c = _consistent(o.state, running, paused, holding)
            if c is not None:
                viol("inconsistent:%s:%s" % (c, "multi-request" if ambiguous else "single-request"),
                     "step %d: System State=%s but control state running=%s paused=%s holding=%s"
                     % (step, o.state, running, paused, holding))
            if ambiguous:
                info["ambiguous"] += 1
                # re-sync from the engine (the statement does not fix the outcome here); stay unsettled while any
                # command is still executing inside the engine (its internal progress is unknown to the model)
                m.active, m.paused, m.holding = running, paused, holding
                m.phase = "restart1" if o.state == "Restarting" else None
                m.pause_end = m.hold_end = None
                ambiguous_pending = len(h.engine._command_manager.cmd_executing) > 0  # type: ignore
            elif m.phase in ("stopping", "restart1"):
                # first tick of a Stop/Restart: commands are being cancelled (a cancelled timed Pause/Hold un-pauses); the
                # statement fixes only the end result, so only consistency is judged here; flags follow the engine
                m.paused, m.holding = paused, holding
                m.pause_end = m.hold_end = None
                m.shown = o.state      # requests in the coming gap are validated against the displayed state
            else:
                if o.state != m.state():
                    viol("state-mismatch:%s->%s" % (m.state(), o.state),
                         "step %d: model says %s, System State tag says %s (ops so far %s)" % (step, m.state(), o.state, ops[:step + 1]))
                    m.active, m.paused, m.holding = running, paused, holding   # continue from the engine's view
                    m.phase = "restart1" if o.state == "Restarting" else None
                elif (running, paused, holding) != (m.active, m.paused, m.holding) and m.phase is None:
                    viol("flags-mismatch", "step %d: model flags %s, reported %s" % (step, (m.active, m.paused, m.holding), (running, paused, holding)))
                    m.active, m.paused, m.holding = running, paused, holding
            if c is not None:
                info["aborted_after_inconsistency"] = 1
                break   # engine state is already inconsistent: everything after has the same root cause
            # run id
            rid = o.run_id
            if o.state == "Stopped":
                if rid is not None:
                    viol("runid:not-cleared", "step %d: state Stopped but Run Id=%r" % (step, rid))
            elif o.state != "Restarting":
                if not rid:
                    viol("runid:empty", "step %d: state %s but Run Id=%r" % (step, o.state, rid))
            if rid and rid not in m.run_ids:
                m.run_ids.add(rid)
            if o.state not in states_seen:
                states_seen.add(o.state)
            # a new run must have a fresh id: detect Stopped->active transitions
            info.setdefault("runs", [])
            if rid and (not info["runs"] or info["runs"][-1] != rid):
                if rid in info["runs"]:
                    viol("runid:reused", "step %d: run id %r reused" % (step, rid))
                info["runs"].append(rid)
    finally:
        h.close()
    info["states"] = sorted(states_seen)
    return out, info


def check_case(case) -> list[Violation]:
    if not isinstance(case, dict) or not all(o in ALPHA for o in case.get("ops", [None])):
        return []
    if case.get("method") is not None and not all(x in METHOD_LINE_SET for x in case["method"]):
        return []
    if case.get("method") is not None and not case["method"]:
        return []
    if int(case.get("settle", 4)) < 4:
        return []
    return run_case(case)[0]


# ---- generation ---------------------------------------------------------------------------------

METHOD_LINE_SET = ["Mark: a", "Pause", "Pause: 0.3s", "Pause: 0.25s", "Hold", "Hold: 0.3s", "Hold: 0.15s", "Stop", "Restart", "Unpause", "Unhold",
                                "Wait: 0.3s", "Mark: b", "Quick: q"]
METHOD_LINES = st.sampled_from(METHOD_LINE_SET)


@st.composite
def hyp_case(draw):
    method = draw(st.lists(METHOD_LINES, min_size=1, max_size=6))
    ops = draw(st.lists(st.sampled_from(ALPHA + ["tick"] * 6), min_size=3, max_size=30))
    return {"ops": ["Start", "tick"] + ops, "method": method, "settle": 6}


def run_shard(col, cfg):
    L = cfg["L"]
    # Part A: exhaustive, sharded by index
    idx = 0
    for n in range(1, L + 1):
        for seq in itertools.product(ALPHA, repeat=n):
            idx += 1
            if idx % col.nshards != col.shard:
                continue
            if seq[-1] == "tick" and n > 1:
                continue    # covered by the shorter sequence plus settle ticks
            if col.expired():
                return
            case = {"ops": list(seq)}
            vs, info = run_case(case)
            col.record(case, len(info["states"]) >= 3, classes=["A:len%d" % n] + (["A:ambiguous"] if info["ambiguous"] else []),
                       violations=vs, sample={"ops": list(seq), "states": info["states"]})
    col.extra["exhaustive_sequences_up_to_len"] = L

    # Part C: macro-steps <command, n ticks> after "Start, tick"; K-1 and K steps (a shorter history is not a prefix run:
    # the settle ticks at the end differ)
    steps = [(c, g) for c in CMDS for g in cfg["gaps"]]
    n_c = 0
    for k in (cfg["K"] - 1, cfg["K"]):
        for seq in itertools.product(steps, repeat=k):
            idx += 1
            if idx % col.nshards != col.shard:
                continue
            if col.expired():
                return
            ops = ["Start", "tick"]
            for c, g in seq:
                ops += [c] + ["tick"] * g
            case = {"ops": ops}
            vs, info = run_case(case)
            n_c += 1
            col.record(case, len(info["states"]) >= 3, classes=["C:steps%d" % k] + (["C:ambiguous"] if info["ambiguous"] else [])
                       + (["C:runs>=3"] if len(info.get("runs", [])) >= 3 else []),
                       violations=vs, sample={"ops": ops, "states": info["states"]})
    col.extra["macro_step_histories"] = n_c

    # Part B
    def body(case):
        vs, info = run_case(case)
        col.record(case, len(info["states"]) >= 3, classes=["B", "B:states%d" % len(info["states"])] +
                   (["B:ambiguous-steps"] if info["ambiguous"] else []), violations=vs,
                   sample={"method": case["method"], "ops": case["ops"], "states": info["states"]})
    hyp_run(hyp_case(), body, max(1, cfg["hyp_examples"] // col.nshards), shard_seed(col.seed, col.shard), col)


def shrink_hints(case):
    if case.get("method"):
        for i in range(len(case["method"])):
            c = dict(case)
            c["method"] = case["method"][:i] + case["method"][i + 1:]
            if c["method"]:
                yield c
