"""C17 — parsing maps every line to one node with indentation structure.

Statement (properties.jsonl): for any method text parsing never fails and yields exactly one instruction per
source line, in source order, each identified by that line's id.  For correctly indented text each line belongs
to the nearest preceding line one indentation level (four spaces) shallower that opens a body (Block, Watch,
Alarm, Macro).  Any other indentation is flagged as an indentation error instead of being silently re-nested.

Case    : {"mode": "lines", "lines": [str], "ids": [str], "uod": [str]}      explicit ParserMethod lines
          {"mode": "text",  "text": str, "uod": [str]}                       one string; lines := str.splitlines()
Oracle  : (T) totality    no exception from create_method_parser(..).parse_method / parse_pcode (3 parser flavours)
          (L) line law    get_all_nodes() minus root: one node per line, position.line == index, id == line id,
                          parent pointers agree with the children lists
          (S) structure   only when EVERY line is inside the strict reference line grammar below (ASCII, space
                          indentation; the line kind - blank / comment / opener / other instruction - is decided by
                          an independent classifier, never by the parser).  An independent indentation stack walks the
                          instruction lines; up to the first line whose indentation is not a body indentation of an
                          open scope every instruction line must hang under the reference parent and carry no
                          indent_error; that first offending line must carry indent_error.  After it only the local law
                          "an unflagged instruction line sits exactly 4 deeper than an opener parent / at 0 under root"
                          is checked.  Only the FIRST structural disagreement of a case is reported (everything after
                          it is a consequence), with a signature naming the context.
          Blank and comment lines: only (T) and (L).  The repository's own tests (test_parse_block_w_blank_1..5,
          test_block_with_blanks) fix that their indentation is free, so nothing is asserted about their parent.
"""
from __future__ import annotations

import json
import os
import re
import shutil
import subprocess
import sys
import tempfile
import traceback

from hypothesis import strategies as st

from vp.core.framework import Violation, hyp_run, shard_seed

ID = "C17"
LEVEL = "exploration"
ENGINE = "pure"
DESIGN_REF = "DESIGN.md §3 C17"
TECHNIQUE = ("Hypothesis (arbitrary-unicode + grammar/tree generators with indentation perturbation) against an "
             "independent indentation-stack reference; coverage-guided atheris fuzzing of the same oracle in the thorough tier")
RULE = ("cases are line lists (explicit ParserMethod lines with ids) or single strings (split by str.splitlines): "
        "arbitrary unicode, grammar lines mixed with garbage, rendered program trees (depth<=4) kept correct, with "
        "free-floating blank/comment lines, or with perturbed instruction indentation (+-1..3, jumps, dedents into "
        "nothing, 2-space style). Non-trivial = at least 3 lines and (at least one body opener or one change of "
        "indentation between consecutive non-blank lines). Distinct = distinct case JSON.")
ASSUMPTIONS = [
    "method lines reach the parser as ParserMethodLine(id, content) with unique ids (Mdl.Method.to_parser_method) or as one "
    "string through ParserMethod.from_pcode (LSP, inject); lone surrogates are excluded (pydantic rejects them)",
    "structure is judged only for texts whose every line matches the strict reference grammar (printable ASCII, space "
    "indentation, '[threshold ]Name[: args][ # comment]'); all other texts get totality and the line law only",
    "blank and comment lines have free indentation (fixed by the repository's own parser tests): they never close or open "
    "a scope in the reference and nothing is asserted about their parent or their indent_error flag",
    "'correctly indented' = every instruction line sits at the body indentation of a scope that is open at that point; "
    "an opener directly followed by a line at its own or a shallower open level either has an empty body (the line hangs "
    "under the reference parent, unflagged) or the line is flagged as indentation error - both readings are accepted, "
    "only an unflagged line attached to the wrong parent is reported",
    "a correctly indented instruction line must not carry indent_error (such a line 'cannot execute due to incorrect "
    "indentation' in the analyzer) - implied by 'any OTHER indentation is flagged'",
    "after the first indentation error only the local law is checked (the statement does not define error recovery)",
    "thorough tier: the atheris stage is bounded by -runs (deterministic) with a wall-clock safety cap; its executions are "
    "reported under coverage.fuzz_* and are not part of `evaluations`",
]
TIERS = {
    "quick": {"examples": 1400, "max_lines": 40, "budget_s": 150},
    "thorough": {"examples": 60000, "max_lines": 80, "budget_s": 1300, "fuzz_runs": 4800000, "fuzz_cap_s": 300},
}

# switches ------------------------------------------------------------------------------------------------------
ASSERT_WS_FREE_READING = True     # judge instruction lines also when blank/comment lines float at other indentations
ASSERT_AFTER_ERROR_LOCAL = False  # local law after the first (correctly flagged) indentation error: the statement does not define
                                  # error recovery, so by default such cases are only counted (class after-error:silent-renest)

OPENERS = ("Block", "Watch", "Alarm", "Macro")
UOD_NAMES = ["Foo", "Bar baz", "Reset"]

# ---- independent line classifier (strict reference grammar) -----------------------------------------------------
_PRINTABLE = re.compile(r"[ -~]*\Z")
_INSTR = re.compile(r"(?:\d+(?:\.\d+)? )?([A-Za-z][A-Za-z0-9_]*(?: [A-Za-z0-9_]+)*) *(?:[:#][ -~]*)?\Z")
# characters str.splitlines() splits on
_BREAKS = "\n\r\x0b\x0c\x1c\x1d\x1e\x85\u2028\u2029"


_WS_NONSPACE = "\t\u00a0\u2003\u3000"   # non-space whitespace the generators use for indentation (none of them breaks lines)


def classify_line(s: str):
    """-> (kind, indent, opener) with kind in blank|comment|instr, or None when outside the strict grammar.

    Leading whitespace that is not made of spaces only (tab, NBSP, ...) is never a correct indentation ("four spaces").
    Such a line is classified with indent = number of leading whitespace characters when that number is NOT a multiple
    of four: under every reading the line is then incorrectly indented and must be flagged.  When the number IS a
    multiple of four the parser's reading (whitespace characters count like spaces) and the strict reading (only spaces
    count) disagree on whether the line is correct, so the text is left to the unstructured tier (counted, not judged)."""
    lead = s[:len(s) - len(s.lstrip())]
    if lead.strip(" ") != "":
        if any(ch not in _WS_NONSPACE + " " for ch in lead):
            return None
        rest = s[len(lead):]
        if not _PRINTABLE.match(rest):
            return None
        n = len(lead)
        if rest == "":
            return ("blank", n, False)
        if rest[0] == "#":
            return ("comment", n, False)
        m = _INSTR.match(rest)
        if not m or n % 4 == 0:
            return None
        return ("instr", n, m.group(1) in OPENERS)
    if not _PRINTABLE.match(s):
        return None
    n = len(s) - len(s.lstrip(" "))
    rest = s[n:]
    if rest == "":
        return ("blank", n, False)
    if rest[0] == "#":
        return ("comment", n, False)
    m = _INSTR.match(rest)
    if not m:
        return None
    return ("instr", n, m.group(1) in OPENERS)


def _nonspace_lead(s: str) -> bool:
    lead = s[:len(s) - len(s.lstrip())]
    return lead.strip(" ") != "" and s.strip() != ""


# ---- domain ---------------------------------------------------------------------------------------------------

def _has_surrogate(s: str) -> bool:
    return any(0xD800 <= ord(ch) <= 0xDFFF for ch in s)


def _domain(case):
    """validate a (possibly shrunk) case; -> (mode, lines, ids, uod, text) or None"""
    if not isinstance(case, dict):
        return None
    uod = case.get("uod", [])
    if not (isinstance(uod, list) and all(isinstance(u, str) for u in uod)):
        return None
    mode = case.get("mode")
    if mode == "text":
        text = case.get("text")
        if not isinstance(text, str) or _has_surrogate(text):
            return None
        lines = text.splitlines()
        return ("text", lines, ["id_%d" % (i + 1) for i in range(len(lines))], uod, text)
    if mode == "lines":
        lines, ids = case.get("lines"), case.get("ids")
        if not (isinstance(lines, list) and isinstance(ids, list) and len(lines) == len(ids)):
            return None
        if not all(isinstance(x, str) and not _has_surrogate(x) for x in lines + ids):
            return None
        if len(set(ids)) != len(ids):
            return None
        return ("lines", lines, ids, uod, None)
    return None


# ---- oracle ---------------------------------------------------------------------------------------------------

def _where(exc: BaseException) -> str:
    """innermost openpectus frame of an exception: file:function (stable across line-number changes)"""
    loc = "?"
    for fs in traceback.extract_tb(exc.__traceback__):
        if "openpectus" in fs.filename:
            loc = "%s:%s" % (os.path.basename(fs.filename), fs.name)
    return loc


def _line_law(program, lines, ids, label, case, check_ids=True):
    """(L): one node per line, in order, right id, consistent parent pointers. -> (violations, nodes|None)"""
    import openpectus.lang.model.ast as p
    out = []
    flat = []       # (node, parent-by-traversal)
    stack = [(program, None)]
    seen = 0
    limit = 4 * len(lines) + 8
    while stack:
        node, par = stack.pop()
        flat.append((node, par))
        seen += 1
        if seen > limit:
            return [Violation("lines:%s:tree-not-finite" % label, "more than %d nodes reachable for %d lines" % (limit, len(lines)), case)], None
        if isinstance(node, p.NodeWithChildren):
            for ch in reversed(node.children):
                stack.append((ch, node))
    api = program.get_all_nodes()
    if [id(n) for n in api] != [id(n) for n, _ in flat]:
        out.append(Violation("lines:%s:get_all_nodes-not-preorder" % label, "get_all_nodes() differs from a pre-order walk over .children", case))
    if not flat or flat[0][0] is not program or not isinstance(program, p.ProgramNode):
        return out + [Violation("lines:%s:root" % label, "first node is not the ProgramNode", case)], None
    nodes = [n for n, _ in flat[1:]]
    if len(nodes) != len(lines):
        kind = "more" if len(nodes) > len(lines) else "fewer"
        return out + [Violation("lines:%s:count-%s" % (label, kind), "%d lines but %d nodes" % (len(lines), len(nodes)), case)], None
    for k, (n, par) in enumerate(flat[1:]):
        if n.position.line != k:
            out.append(Violation("lines:%s:order" % label, "node #%d in pre-order has position.line=%r" % (k, n.position.line), case))
            return out, None
        if n.parent is not par:
            out.append(Violation("lines:%s:parent-pointer" % label, "line %d: node.parent is not the node that lists it as child" % k, case))
            return out, None
        if check_ids and n.id != ids[k]:
            out.append(Violation("lines:%s:id" % label, "line %d has id %r but its node has id %r" % (k, ids[k], n.id), case))
            return out, None
    return out, nodes


def _structure(nodes, lines, cls, case):
    """(S): the reference indentation stack. -> (violations, classes)"""
    classes = []
    out: list[Violation] = []
    idx_of = {id(n): k for k, n in enumerate(nodes)}

    def parent_idx(n):
        return idx_of.get(id(n.parent), -1)

    stack = [(-1, 0)]            # (line index of the opener, body indentation); root body = 0
    prev_opener = None           # index of the opener when the previous instruction line was one
    ws_since = []                # indents of blank/comment lines since the previous instruction line
    ws_floating = False          # some blank/comment line not at the innermost body indentation (so far)
    saw_empty_body = saw_ws_after_opener = False
    max_depth = 0
    offence_at = None
    k = 0
    for k, (kind, c, opener) in enumerate(cls):
        if kind != "instr":
            ws_since.append(c)
            if c != stack[-1][1]:
                ws_floating = True
            continue
        n = nodes[k]
        prefix = "wsfree" if ws_floating else "correct"
        valid = any(c == b for _, b in stack)
        if not valid:
            offence_at = k
            okind = ("non-space-indentation" if _nonspace_lead(lines[k]) else "non-multiple-of-4") if c % 4 else "deeper-than-open-body"
            classes.append("offence:" + okind)
            if not n.indent_error and (ASSERT_WS_FREE_READING or not ws_floating):
                out.append(Violation("unflagged:%s:%s" % (prefix, okind),
                                     "line %d %r is indented %d but the open body indentations are %s; no indent_error, parent line %d"
                                     % (k, lines[k], c, [b for _, b in stack], parent_idx(n)), case))
            break
        empty_closed = prev_opener is not None and c != stack[-1][1]
        first_body_line = prev_opener is not None and c == stack[-1][1]
        ws_low_after_opener = first_body_line and any(w <= cls[prev_opener][1] for w in ws_since)
        if empty_closed:
            saw_empty_body = True
            if n.indent_error:
                # The statement does not say whether an opener needs an indented body.  Reading A: the body is empty and
                # this line hangs under the reference parent, unflagged.  Reading B (the parser's own 'increment_required'):
                # the missing increment is an indentation error and this line is flagged.  Both are accepted; only a line
                # that is neither flagged nor under the reference parent (silently re-nested) is a violation.
                offence_at = k
                classes.append("offence:empty-body-flagged")
                break
        if first_body_line and ws_since:
            saw_ws_after_opener = True
        while stack[-1][1] != c:
            stack.pop()
        exp = stack[-1][0]
        act = parent_idx(n)
        judged = ASSERT_WS_FREE_READING or not ws_floating
        if act != exp and judged:
            if empty_closed:
                sig = "empty-body-opener-captures-next-line"
            elif ws_low_after_opener:
                sig = "ws-line-after-opener:wrong-parent"
            else:
                sig = "%s:wrong-parent:%s" % (prefix, "dedent" if len(ws_since) == 0 and k > 0 and c < _prev_instr_indent(cls, k) else
                                              ("indent" if first_body_line else "same-or-other"))
            out.append(Violation(sig, "line %d %r (indent %d): reference parent is line %d, parser attached it to line %d (indent_error=%r)"
                                 % (k, lines[k], c, exp, act, n.indent_error), case))
            break
        if n.indent_error and judged:
            if ws_low_after_opener:
                sig = "ws-line-after-opener:spurious-indent-error"
            elif empty_closed:
                sig = "empty-body-opener:spurious-indent-error"
            else:
                sig = "%s:spurious-indent-error" % prefix
            out.append(Violation(sig, "line %d %r (indent %d) is correctly indented under line %d but carries indent_error"
                                 % (k, lines[k], c, exp), case))
            break
        if opener:
            stack.append((k, c + 4))
            prev_opener = k
            max_depth = max(max_depth, len(stack) - 1)
        else:
            prev_opener = None
        ws_since = []
    else:
        k = len(cls)
    if offence_at is not None and not out:
        # after the first (correctly flagged) indentation error the reference has no state any more.  What still
        # follows from the statement: an indentation that is not a multiple of 4 can never be correct -> flagged.
        # The local law (unflagged line sits 4 deeper than an opener parent / at 0 under root) is only counted
        # unless ASSERT_AFTER_ERROR_LOCAL: the statement does not define how nesting recovers after an error.
        renest_seen = False
        for j in range(offence_at + 1, len(cls)):
            kind, c, opener = cls[j]
            if kind != "instr":
                continue
            n = nodes[j]
            if n.indent_error:
                continue
            if c % 4:
                out.append(Violation("unflagged:after-error:" + ("non-space-indentation" if _nonspace_lead(lines[j]) else "non-multiple-of-4"),
                                     "line %d %r is indented %d (not a multiple of 4) and carries no indent_error (first error was line %d)"
                                     % (j, lines[j], c, offence_at), case))
                break
            pi = parent_idx(n)
            ok = (c == 0) if pi < 0 else (cls[pi][0] == "instr" and cls[pi][2] and c == cls[pi][1] + 4)
            if not ok and not renest_seen:
                renest_seen = True
                classes.append("after-error:silent-renest" + ("" if ASSERT_AFTER_ERROR_LOCAL else "(counted, not judged)"))
                if ASSERT_AFTER_ERROR_LOCAL:
                    first_after_parent = pi >= 0 and not any(cls[m][0] == "instr" for m in range(pi + 1, j))
                    sig = ("empty-body-opener-captures-next-line" if first_after_parent and cls[pi][2] and c <= cls[pi][1]
                           else "after-error:silent-renest")
                    out.append(Violation(sig,
                                         "after the indentation error on line %d: line %d %r (indent %d) is attached without indent_error to %s"
                                         % (offence_at, j, lines[j], c, "root" if pi < 0 else "line %d %r (indent %d)" % (pi, lines[pi], cls[pi][1])), case))
                    break
    if offence_at is None:
        classes.append("tier:correct-wsfree" if ws_floating else "tier:correct-strict")
    else:
        classes.append("tier:incorrect")
    if saw_empty_body:
        classes.append("has:empty-body-opener")
    if saw_ws_after_opener:
        classes.append("has:ws-between-opener-and-body")
    if max_depth >= 2:
        classes.append("has:nesting>=2")
    if max_depth >= 3:
        classes.append("has:nesting>=3")
    return out, classes


def _prev_instr_indent(cls, k):
    for j in range(k - 1, -1, -1):
        if cls[j][0] == "instr":
            return cls[j][1]
    return 0


def _nontrivial(lines) -> bool:
    if len(lines) < 3:
        return False
    prev = None
    for s in lines:
        c = classify_line(s)
        if c is not None and c[2]:
            return True
        if s.strip() == "":
            continue
        ind = len(s) - len(s.lstrip())
        if prev is not None and ind != prev:
            return True
        prev = ind
    return False


def evaluate(case):
    """-> (violations, classes, nontrivial) ; check_case is its first component"""
    dom = _domain(case)
    if dom is None:
        return [], ["out-of-domain"], False
    from openpectus.lang.model.parser import (ParserMethod, ParserMethodLine, PcodeParser, create_inject_parser,
                                              create_method_parser)
    mode, lines, ids, uod, text = dom
    out: list[Violation] = []
    classes = ["mode:" + mode]

    # (T) + (L) on the id-carrying parser -------------------------------------------------------------------
    try:
        if mode == "text":
            method = ParserMethod.from_pcode(text)
        else:
            method = ParserMethod(lines=[ParserMethodLine(i, c) for i, c in zip(ids, lines)])
        program = create_method_parser(method, list(uod)).parse_method(method)
    except Exception as e:      # the oracle: the statement says parsing never fails
        return [Violation("raises:%s:%s" % (type(e).__name__, _where(e)), "parse_method raised %s: %s" % (type(e).__name__, e), case)], classes, _nontrivial(lines)
    vs, nodes = _line_law(program, lines, ids, "method", case)
    out += vs
    if mode == "text":
        # the two other parser flavours real callers use on strings (LSP: PcodeParser(); engine: inject parser)
        for label, mk in (("incremental", lambda: PcodeParser(uod_command_names=list(uod))), ("inject", lambda: create_inject_parser(list(uod)))):
            try:
                prog2 = mk().parse_pcode(text)
            except Exception as e:
                out.append(Violation("raises:%s:%s:%s" % (label, type(e).__name__, _where(e)), "parse_pcode raised %s: %s" % (type(e).__name__, e), case))
                continue
            vs2, _ = _line_law(prog2, lines, ids, label, case, check_ids=False)
            out += vs2

    # (S) ---------------------------------------------------------------------------------------------------
    cls = [classify_line(s) for s in lines]
    if any(c is None for c in cls):
        classes.append("tier:unstructured")
        if any(c is None and _nonspace_lead(x) and len(x) - len(x.lstrip()) and (len(x) - len(x.lstrip())) % 4 == 0 for c, x in zip(cls, lines)):
            classes.append("ambiguous:non-space-indent-multiple-of-4(counted, not judged)")
    elif not any(c[0] == "instr" for c in cls):
        classes.append("tier:no-instruction-lines")
    elif nodes is not None:
        vs3, cl3 = _structure(nodes, lines, cls, case)
        out += vs3
        classes += cl3
    if any(ord(ch) > 126 or (ord(ch) < 32) for s in lines for ch in s):
        classes.append("has:non-ascii-or-control")
    if any(s[:1].isspace() and s.strip() != "" and not s.startswith(" ") for s in lines):
        classes.append("has:non-space-indent")
    n = len(lines)
    classes.append("lines:%s" % ("0-2" if n < 3 else "3-9" if n < 10 else "10-29" if n < 30 else "30+"))
    return out, classes, _nontrivial(lines)


def check_case(case) -> list[Violation]:
    return evaluate(case)[0]


# ---- generators -----------------------------------------------------------------------------------------------

_PLAIN = ["Mark: m%d", "Mark", "End block", "End blocks", "Wait: 0.%ds", "Stop", "Pause: %ds", "Pause", "Hold: 1s", "Unpause",
          "Call macro: M%d", "Base: s", "Base: L", "Info: msg %d", "Warning: w", "Error: e %d", "Notify: n%d", "Batch: b%d",
          "Simulate: T = %d", "Simulate off: T", "Increment run counter", "Run counter: %d", "Restart", "Foo: %d", "Bar baz",
          "Reset: a=%d", "Unknowncmd: x%d", "Blocks: no opener %d", "Watch it: not an opener %d", "block: lower case %d"]
_OPEN = ["Block: b%d", "Block: b%d", "Block", "Watch: T > %d", "Watch: Run Counter >= %d s", "Watch", "Alarm: T < %d degC",
         "Alarm: X = a%d", "Macro: M%d", "Macro"]


class _Draw:
    """the tree / flat generators draw through this thin adapter around a random.Random that Hypothesis seeds
    (st.randoms(use_true_random=True)): one Hypothesis draw per case instead of several hundred."""

    def __init__(self, rnd):
        self.r = rnd

    def int(self, lo, hi):
        return self.r.randint(lo, hi)

    def pick(self, seq):
        return seq[self.r.randrange(len(seq))]


def _instr_body(d: _Draw, i, opener):
    t = d.pick(_OPEN if opener else _PLAIN)
    s = t % i if "%d" in t else t
    deco = d.int(0, 9)
    if deco == 0:
        s = "%d.%d %s" % (i % 7, i % 10, s)
    elif deco == 1:
        s = "%d %s" % (i, s)
    elif deco == 2:
        s = s + " # c%d" % i
    elif deco == 3:
        s = s + "   "
    elif deco == 4:
        s = s + "#"
    return s


def _tree(d: _Draw, max_lines, allow_empty):
    """rendered program tree: list of [kind, depth, body]; kind in instr|opener|blank|comment"""
    out: list = []
    max_depth = d.int(1, 4)

    def body(depth):
        n = d.int(1, 5) if depth else d.int(2, 8)
        emitted_instr = False
        for j in range(n):
            if len(out) >= max_lines:
                break
            r = d.int(0, 11)
            i = len(out)
            if r <= 4 or (j == n - 1 and not emitted_instr and not allow_empty):
                out.append(["instr", depth, _instr_body(d, i, False)])
                emitted_instr = True
            elif r <= 8 and depth < max_depth:
                out.append(["opener", depth, _instr_body(d, i, True)])
                emitted_instr = True
                if allow_empty and d.int(0, 3) == 0:
                    continue
                body(depth + 1)
            elif r == 9:
                out.append(["blank", depth, ""])
            elif r == 10:
                out.append(["comment", depth, "# note %d" % i])
            else:
                out.append(["instr", depth, _instr_body(d, i, False)])
                emitted_instr = True
        if not emitted_instr and not allow_empty and len(out) < max_lines + 4:
            out.append(["instr", depth, "Mark: fill%d" % len(out)])

    body(0)
    return out


def _render(tree, indents=None):
    res = []
    for k, (kind, depth, bodytxt) in enumerate(tree):
        ind = 4 * depth if indents is None else indents[k]
        res.append(" " * ind + bodytxt)
    return res


_SUBS = ["strict", "strict", "empty-bodies", "ws-floating", "ws-floating", "perturbed", "perturbed", "perturbed", "two-space", "shifted",
         "nonspace-indent"]
_NONSPACE_LEADS = ["\t", "\t\t", "\t    ", "    \t", " \t", "\u00a0", "\u00a0\u00a0", "\u3000", "\u2003 ", "  \t", "\t  ", "\t\t\t", "     \t",
                   "\t   ", "   \t"]
_HOWS = ["+1", "+2", "+3", "-1", "-2", "-3", "+4", "+8", "+12", "-4", "-8", "zero", "rand", "subtree+4", "subtree-4"]


def _tree_case(d: _Draw, max_lines):
    sub = d.pick(_SUBS)
    tree = _tree(d, max_lines, allow_empty=(sub == "empty-bodies" or (sub == "perturbed" and d.int(0, 4) == 0)))
    indents = [4 * dep for _, dep, _ in tree]
    if sub == "ws-floating":
        for k, (kind, dep, _) in enumerate(tree):
            if kind in ("blank", "comment") and d.int(0, 2) > 0:
                indents[k] = d.pick([0, 0, 1, 2, 3, 4, 5, 8, 12, 4 * dep + 4])
        # extra blank / comment lines anywhere (directly after openers, before dedents ...)
        for _ in range(d.int(0, 3)):
            if not tree:
                break
            pos = d.int(0, len(tree))
            kind = d.pick(["blank", "blank", "comment"])
            tree.insert(pos, [kind, 0, "" if kind == "blank" else "# x"])
            indents.insert(pos, d.pick([0, 0, 0, 2, 4, 8]))
    elif sub == "perturbed":
        cand = [k for k, (kind, _, _) in enumerate(tree) if kind in ("instr", "opener")]
        for _ in range(d.int(1, 3)):
            if not cand:
                break
            k = d.pick(cand)
            how = d.pick(_HOWS)
            if how == "zero":
                indents[k] = 0
            elif how == "rand":
                indents[k] = d.int(0, 18)
            elif how.startswith("subtree"):
                delta = 4 if how.endswith("+4") else -4
                d0 = tree[k][1]
                j = k
                while j < len(tree) and (j == k or tree[j][1] > d0):
                    indents[j] = max(0, indents[j] + delta)
                    j += 1
            else:
                indents[k] = max(0, indents[k] + int(how))
    elif sub == "two-space":
        indents = [2 * dep for _, dep, _ in tree]
    elif sub == "shifted":
        off = d.pick([1, 2, 4, 4, 8])
        indents = [x + off for x in indents]
    lines = _render(tree, indents)
    if sub == "nonspace-indent":
        cand = [k for k, (kind, dep, _) in enumerate(tree) if kind in ("instr", "opener") and (dep > 0 or d.int(0, 2) == 0)]
        for _ in range(d.int(1, 2)):
            if not cand:
                break
            k = d.pick(cand)
            lines[k] = d.pick(_NONSPACE_LEADS) + tree[k][2]
    return "tree:" + sub, lines


def _flat_case(d: _Draw, max_lines):
    """grammar lines, each with an independent random indentation"""
    n = d.int(1, min(max_lines, 14))
    lines = []
    for i in range(n):
        r = d.int(0, 9)
        ind = d.pick([0, 0, 0, 4, 4, 4, 8, 8, 12, 16, 1, 2, 3, 5, 6, 7, 9])
        if r == 0:
            lines.append(" " * d.int(0, 9))
        elif r == 1:
            lines.append(" " * ind + "# c")
        else:
            lines.append(" " * ind + _instr_body(d, i, r >= 6))
    return "flat-random-indent", lines


_WS = ["\t", "\x0b", "\x0c", "\xa0", "\u2003", "\u3000", "\x1f", "\x00", "\u200b", "\ufeff", " ", "  ", "    "]
_JUNK = st.one_of(
    st.text(max_size=20),
    st.text(alphabet=st.sampled_from(list(" \t:#\x00\xa0\x0b<>=!.0123456789abBlockWatchMarkEnd\xb0\xb5")), max_size=24),
    st.builds(lambda a, b: a + b, st.sampled_from(_WS), st.text(max_size=12)),
    st.sampled_from(["", " ", "#", ":", ": ", "#:", "1", "1 ", "1.0 ", "1. Mark", ".5 Mark", "Block:", "Block :", ":Block", "Block#", "\tBlock: a",
                     "    \tMark", "\xa0\xa0\xa0\xa0Mark: a", "Watch: a >", "Watch: > 1", "Watch: a >= <= 2", "Alarm: = = =", "Simulate: = ",
                     "\xc6r\xf8: x", "    ???", "    (x)", "Mark: \x00", "Block: a\x0bMark: b", "Block: a\u2028    Mark: b"]),
)


@st.composite
def _junk_lines_case(draw, max_lines):
    n = draw(st.integers(0, min(max_lines, 12)))
    lines = []
    for i in range(n):
        r = draw(st.integers(0, 5))
        if r <= 2:
            s = draw(_JUNK)
        elif r == 3:
            s = " " * draw(st.sampled_from([0, 4, 8, 2])) + draw(st.sampled_from(_OPEN)).replace("%d", str(i))
        else:
            s = " " * draw(st.sampled_from([0, 4, 4, 8, 3])) + draw(st.sampled_from(_PLAIN)).replace("%d", str(i))
        lines.append(s)
    return "junk-mix", lines


def _ids_for(n, style, d: _Draw):
    if style == 0:
        return ["id_%d" % (i + 1) for i in range(n)]
    perm = list(range(n))
    d.r.shuffle(perm)
    return ["%08x-0000-4000-8000-%012x" % (7919 * (j + 1), j) for j in perm]     # uuid-like, unrelated to the line order


def _structured_case(rnd, max_lines):
    """tree / flat generators: the whole case comes from the one Hypothesis-seeded Random"""
    d = _Draw(rnd)
    if d.int(0, 5) == 0:
        label, lines = _flat_case(d, max_lines)
    else:
        label, lines = _tree_case(d, max_lines)
    uod = d.pick([[], UOD_NAMES])
    if d.int(0, 4) == 0:
        sep = d.pick(["\n", "\n", "\r\n"])
        text = sep.join(lines) + d.pick(["", sep])
        if text.splitlines() == lines:
            return label, {"mode": "text", "text": text, "uod": uod}
    return label, {"mode": "lines", "lines": lines, "ids": _ids_for(len(lines), d.int(0, 1), d), "uod": uod}


@st.composite
def _hostile_case(draw, g, max_lines):
    uod = draw(st.sampled_from([[], UOD_NAMES]))
    if g == "unicode-text":
        text = draw(st.one_of(st.text(max_size=120),
                              st.lists(st.tuples(_JUNK, st.sampled_from(["\n", "\n", "\r\n", "\r", "\x0b", "\u2028", "\x85", "\n\n"])), max_size=10)
                              .map(lambda ps: "".join(a + b for a, b in ps))))
        return "unicode-text", {"mode": "text", "text": text, "uod": uod}
    if g == "unicode-lines":
        lines = draw(st.lists(st.text(max_size=30), max_size=12))
        label = "unicode-lines"
    else:
        label, lines = draw(_junk_lines_case(max_lines))
    if draw(st.integers(0, 2)) == 0:
        ids = draw(st.lists(st.text(max_size=6), min_size=len(lines), max_size=len(lines), unique=True))
    else:
        ids = ["id_%d" % (i + 1) for i in range(len(lines))]
    return label, {"mode": "lines", "lines": lines, "ids": ids, "uod": uod}


# (strategy name, share of the example budget); separate Hypothesis runs keep the shares exact
GENERATORS = [("structured", 0.60), ("junk", 0.16), ("unicode-lines", 0.12), ("unicode-text", 0.12)]


def strategy(name, max_lines):
    if name == "structured":
        return st.randoms(use_true_random=True).map(lambda r: _structured_case(r, max_lines))
    return _hostile_case(name, max_lines)


# ---- shard driver ---------------------------------------------------------------------------------------------

def run_shard(col, cfg):
    def body(x):
        label, case = x
        vs, classes, nontrivial = evaluate(case)
        col.record(case, nontrivial, classes=["gen:" + label] + classes, violations=vs)

    for gi, (name, share) in enumerate(GENERATORS):
        hyp_run(strategy(name, cfg["max_lines"]), body, max(1, int(cfg["examples"] * share)), shard_seed(col.seed, col.shard) * 10 + gi, col)
    if cfg.get("fuzz_runs") and not col.expired():
        _fuzz_stage(col, cfg)


def _fuzz_stage(col, cfg):
    """coverage-guided stage: atheris in a subprocess on /verif/fuzz/fuzz_c17.py (same oracle)."""
    from vp.core.framework import REPO, VERIF
    target = os.path.join(VERIF, "fuzz", "fuzz_c17.py")
    tmp = tempfile.mkdtemp(prefix="c17fuzz")
    try:
        corpus, outdir, art = os.path.join(tmp, "corpus"), os.path.join(tmp, "out"), os.path.join(tmp, "artifacts")
        for d in (corpus, outdir, art):
            os.makedirs(d)
        seeds = os.path.join(VERIF, "fuzz", "corpus_c17")
        env = dict(os.environ)
        env["PYTHONPATH"] = os.pathsep.join([REPO, VERIF, os.path.join(VERIF, ".deps"), "/verif/.deps"])   # second entry: snapshot runs (vp run) share the installed copy
        env["PYTHONHASHSEED"] = "0"
        env["C17_FUZZ_OUT"] = outdir
        runs = int(cfg["fuzz_runs"]) // max(1, col.nshards)
        import time
        cap = int(max(10, min(float(cfg["fuzz_cap_s"]), col.deadline - time.monotonic())))     # budget only, never a verdict
        cmd = [sys.executable, target, "-runs=%d" % runs, "-seed=%d" % (shard_seed(col.seed, col.shard) + 1),
               "-max_total_time=%d" % cap, "-max_len=512", "-timeout=60", "-artifact_prefix=" + art + os.sep,
               "-print_final_stats=0", "-dict=" + os.path.join(VERIF, "fuzz", "c17.dict"), corpus]
        if os.path.isdir(seeds):
            cmd.append(seeds)
        proc = subprocess.run(cmd, env=env, cwd=tmp, stdout=subprocess.DEVNULL, stderr=subprocess.PIPE, text=True, errors="replace")
        stats_p = os.path.join(outdir, "stats.json")
        if not os.path.exists(stats_p):
            raise RuntimeError("atheris stage produced no stats (rc=%s): %s" % (proc.returncode, proc.stderr[-2000:]))
        with open(stats_p) as f:
            stats = json.load(f)
        col.extra["fuzz_execs"] = stats["execs"]
        col.extra["fuzz_nontrivial_execs"] = stats["nontrivial"]
        col.extra["fuzz_structured_execs"] = stats["structured"]
        def add(case, label):
            # fuzz-found cases are re-judged here by the same oracle; they are kept out of `evaluations` (which counts the
            # Hypothesis cases only and must not depend on how far the fuzzer got)
            vs, classes, _ = evaluate(case)
            col.count("gen:" + label)
            for v in vs:
                col.viol_counts[v.sig] += 1
                lst = col.violations.setdefault(v.sig, [])
                if len(lst) < col.MAX_VIOL_PER_SIG:
                    lst.append(v.to_json())
            return vs

        for fn in sorted(os.listdir(outdir)):
            if fn.startswith("viol-") and fn.endswith(".json"):
                with open(os.path.join(outdir, fn)) as f:
                    add(json.load(f), "atheris-collected-violation")
        # libFuzzer artifacts (crash-/timeout-/oom-): convert the bytes into a case and judge it with the same oracle
        sys.path.insert(0, os.path.dirname(target))
        try:
            import fuzz_c17
        finally:
            sys.path.pop(0)
        for fn in sorted(os.listdir(art)):
            with open(os.path.join(art, fn), "rb") as f:
                case = fuzz_c17.bytes_to_case(f.read())
            vs = add(case, "atheris-artifact:" + fn.split("-")[0])
            if not vs and fn.startswith("timeout-"):
                v = Violation("fuzz:hang>60s", "libFuzzer reported a >60 s execution on this input", case)
                col.viol_counts[v.sig] += 1
                col.violations.setdefault(v.sig, []).append(v.to_json())
            col.extra["fuzz_artifacts"] = col.extra.get("fuzz_artifacts", 0) + 1
    finally:
        shutil.rmtree(tmp, ignore_errors=True)


def shrink_hints(case):
    """drop single lines (with their ids) and normalise ids"""
    if not isinstance(case, dict):
        return
    if case.get("mode") == "text" and isinstance(case.get("text"), str):
        ls = case["text"].splitlines()
        yield {"mode": "lines", "lines": ls, "ids": ["id_%d" % (i + 1) for i in range(len(ls))], "uod": case.get("uod", [])}
        return
    lines, ids = case.get("lines"), case.get("ids")
    if not (isinstance(lines, list) and isinstance(ids, list) and len(lines) == len(ids)):
        return
    n = len(lines)
    chunk = max(1, n // 2)
    while chunk >= 1:
        for i in range(0, n, chunk):
            yield dict(case, lines=lines[:i] + lines[i + chunk:], ids=ids[:i] + ids[i + chunk:])
        chunk //= 2
    simple = ["id_%d" % (i + 1) for i in range(n)]
    if ids != simple:
        yield dict(case, ids=simple)
    if case.get("uod"):
        yield dict(case, uod=[])
