"""C09 — Unpause restores exactly the outputs from before that pause.

Domain : output-driving methods x control schedules over >= 1 runs (user and method pauses with/without duration,
         error pauses, Hold/Unhold, Stop, Start, Restart, user output commands during the pause).
Oracle = model of the statement.  For every pause the harness records the output tag values in effect
immediately before it (read by the harness at the moment the engine enters the pause, cross-checked against the
values of the previous tick and the values commands set in that tick).  When the matching Unpause completes, every
output tag with a safe value must hold exactly that value (or a value a command callback set in that very tick).
  not-restored        the safe value (or another unexplained value) is still there
  stale:earlier-pause a value captured before an earlier, already undone pause of the same run is applied
  stale:cross-run     a value captured in an earlier run is applied
  stale:applied-outside-unpause   an output changes, in a tick where no pause begins or ends and no command writes it, to a value
                      captured before an earlier pause (e.g. at the expiry of a timed Pause the user already undid)
  hw-mismatch         the hardware does not receive the restored value in the tick the Unpause completes
"""
from __future__ import annotations

from vp.core.framework import Violation, hyp_run, shard_seed
from vp.harness import ctrl_scen as S
from vp.harness import pcode_gen as G

ID = "C09"
LEVEL = "exploration"
ENGINE = "engine_harness"
TECHNIQUE = "Hypothesis-generated methods x pause/unpause/stop/restart schedules; snapshot model of pre-pause outputs"
RULE = ("Hypothesis draws an output-driving method (Set/Slow/Ov commands, timed Pause/Hold, failing command) and a control "
        "schedule over one or more runs. Non-trivial = >= 2 completed pause/unpause pairs with different pre-pause values, "
        "or completed pairs in two different runs. Distinct = distinct (method, schedule).")
ASSUMPTIONS = [
    "'immediately before the Pause' = output tag values at the moment the engine enters the pause in that tick",
    "a value set by a command callback in the very tick the Unpause completes is accepted (execution order inside a tick is "
    "not fixed by the statement)",
]
TIERS = {"quick": {"examples": 6400, "budget_s": 100}, "thorough": {"examples": 80000, "budget_s": 1500}}

CFG = G.GenCfg(kinds={"set": 6, "slow": 2, "ova": 1, "wait": 3, "pause": 3, "hold": 1, "unpause": 1, "unhold": 1, "block": 1, "mark": 2, "watch": 1},
               max_depth=2, max_top=8, max_children=3, thresholds=False, base_first="s", wait_max=1.0,
               pause_durs=(0.1, 0.2, 0.3, 0.5, 0.5, 1.0, 1.5, 2.0, None, None))


def oracle(case, recs):
    from vp.harness.engine_h import OUT_SAFE
    out: list[Violation] = []
    info = {"pairs": 0, "pairs_runs": set(), "snap_values": set(), "error_pauses": 0, "timed": 0}

    def viol(sig, msg):
        if not any(v.sig == sig for v in out):
            out.append(Violation(sig, msg, case))

    run_no = 0
    expected = None           # snapshot of the currently open pause
    history: list = []        # (run_no, snapshot) of pauses already undone / abandoned
    prev_tags = None
    for r in recs:
        evk = [e[1] for e in r.events]
        if "start" in evk:
            run_no += 1
            if expected is not None:
                history.append((run_no - 1, expected))
            expected = None
        paused_before, paused_after = r.prev_flags[1], r.flags[1]
        out_sets = {}
        for e in r.events:
            if e[1] == "out_set":
                out_sets.setdefault(e[2], set()).add(e[3])
        rs = [e[2] for e in r.events if e[1] == "runstate" and e[2] in ("Pause", "Unpause")]
        if (r.no >= 0 and paused_before and paused_after and r.flags[0] and "Unpause" in rs
                and "Pause" in rs[rs.index("Unpause") + 1:]):
            # the open pause was undone and a NEW pause began inside this tick (a queued Unpause executes, commands of
            # the tick run, a queued Pause executes): the values restored in between are not observable at the end of
            # the tick, and the new pause has its own pre-pause values - the ones the engine held when it captured
            info["repause_within_tick"] = info.get("repause_within_tick", 0) + 1
            if expected is not None:
                history.append((run_no, expected))
            if len(r.safe_calls) == 1:
                expected = {reg: {r.safe_calls[0][reg]} for reg in OUT_SAFE}
            else:
                expected = None      # capture moment not observable: this pause is not judged
        elif r.no >= 0 and not paused_before and paused_after and r.flags[0]:
            # a pause began in this tick
            cand = {}
            for reg in OUT_SAFE:
                c = set(out_sets.get(reg, set()))
                if prev_tags is not None:
                    c.add(prev_tags[reg])
                cand[reg] = c
            if len(r.safe_calls) == 1 and all(r.safe_calls[0][reg] in cand[reg] for reg in OUT_SAFE):
                expected = {reg: {r.safe_calls[0][reg]} for reg in OUT_SAFE}
            else:
                expected = cand   # moment of capture not observable: any value in effect during that tick is accepted
            if r.status == "Error":
                info["error_pauses"] += 1
        elif r.no >= 0 and paused_before and not paused_after:
            stopped = ("stop" in evk) or not r.flags[0] or r.state in ("Stopped", "Restarting")
            if stopped:
                if expected is not None:
                    history.append((run_no, expected))
                expected = None
            elif expected is not None:
                info["pairs"] += 1
                info["pairs_runs"].add(run_no)
                info["snap_values"].add(tuple(sorted((k, tuple(sorted(v))) for k, v in expected.items())))
                for reg, safe in OUT_SAFE.items():
                    allowed = set(expected[reg]) | out_sets.get(reg, set())
                    val = r.tags[reg]
                    if val not in allowed:
                        sig = "not-restored"
                        for (rn, snap) in reversed(history):
                            if val in snap[reg] and val != safe:
                                sig = "stale:cross-run" if rn != run_no else "stale:earlier-pause"
                                break
                        viol(sig, "tick %d: Unpause completed, %s=%r but the value before this pause was %r (safe value %r)"
                             % (r.no, reg, val, sorted(expected[reg]), safe))
                    elif r.mem.get(reg) != val:
                        viol("hw-mismatch", "tick %d: Unpause completed, tag %s=%r but hardware holds %r" % (r.no, reg, val, r.mem.get(reg)))
                history.append((run_no, expected))
                expected = None
        # A captured value must never be applied outside the Unpause it belongs to: an output that changes in a tick with
        # no command write, no pause beginning, no unpause completing and no run start/stop, to a value captured before an
        # earlier pause, is such an application (e.g. the expiry of a timed Pause the user has already undone).
        if (r.no >= 0 and prev_tags is not None and paused_before == paused_after and not r.safe_calls
                and not ({"start", "stop"} & set(evk)) and r.flags[0] and r.prev_flags[0] and not r.restart_in_progress
                and r.state not in ("Stopped", "Restarting") and r.prev_state not in ("Stopped", "Restarting")):
            for reg, safe in OUT_SAFE.items():
                val = r.tags[reg]
                if val == prev_tags[reg] or val in out_sets.get(reg, set()):
                    continue
                hit = next(((rn, snap) for (rn, snap) in reversed(history) if val in snap[reg]), None)
                if hit is not None and val != safe:
                    viol("stale:applied-outside-unpause" + (":cross-run" if hit[0] != run_no else ""),
                         "tick %d (%s, no pause began or ended, no command wrote %s): %s changed from %r to %r, the value captured before an "
                         "earlier, already undone pause" % (r.no, r.state, reg, reg, prev_tags[reg], val))
                else:
                    info["unexplained_changes"] = info.get("unexplained_changes", 0) + 1
        if r.raised is not None:
            viol("tick-raised:%s" % type(r.raised).__name__, repr(r.raised))
        prev_tags = r.tags
    return out, info


def check_case(case):
    if not S.valid(case):
        return []
    recs, _ = S.run(case)
    return oracle(case, recs)[0]


def run_shard(col, cfg):
    def body(case):
        recs, rinfo = S.run(case)
        vs, info = oracle(case, recs)
        nontrivial = (info["pairs"] >= 2 and len(info["snap_values"]) >= 2) or len(info["pairs_runs"]) >= 2
        classes = ["pairs:%d" % min(info["pairs"], 3)]
        if len(info["pairs_runs"]) >= 2:
            classes.append("pairs-in-two-runs")
        if info["error_pauses"]:
            classes.append("error-pause")
        if any(s[0] == "user" and s[1] in ("Unpause", "toggle-pause") for s in case["steps"]) and any(
                "Pause" in l for l in rinfo["lines"]):
            classes.append("method-pause+user-unpause-in-schedule")
        if info.get("unexplained_changes"):
            classes.append("output-change-without-command-or-pause(counted, not judged)")
        col.record(case, nontrivial, classes=classes, violations=vs,
                   sample={"method": rinfo["lines"], "steps": case["steps"][:30]})
    hyp_run(S.cases(cfg=CFG, with_boom=True, templates=True, faults=True), body, max(1, cfg["examples"] // col.nshards), shard_seed(col.seed, col.shard), col)
