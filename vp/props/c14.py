"""C14 - injected code runs once in the current scope, even across edits.

Domain : generated method (Mark/Quick/OvA/Wait/Block/Watch/Alarm/Macro, thresholds) x user Pause/Hold windows x ONE injected
         snippet (Mark, Set3, Slow, Wait, Block...End block) at a generated tick (running, paused or held), optionally
         followed 0-5 ticks later by a live edit (same edit kinds as C01, target resolved from the reported method state).
Oracle : every injected line's effect (Mark assignment / command start, ground-truth log of the harness unit) occurs
         exactly once, in source order, never in a tick that began Paused or Holding, promptly (coarse bound) when nothing
         blocks it; every injected command is initialised and finalized exactly once - also when an edit is accepted
         meanwhile; the method itself is untouched: started/executed line sets, per-line effect counts and the outcome of
         the edit equal those of a twin run without the injection (same ticks; timing-sensitive lines excluded).
"""
from __future__ import annotations

from hypothesis import strategies as st

from vp.core.framework import Violation, hyp_run, shard_seed
from vp.harness import edit_h as E
from vp.harness import pcode_gen as G

ID = "C14"
LEVEL = "exploration"
ENGINE = "engine_harness"
TECHNIQUE = ("Hypothesis-generated methods x pause/hold windows x injected snippet at every tick index (+ optional live edit); "
             "exactly-once counting on the unit's effect log, differential twin run without the injection")
RULE = ("Hypothesis draws a method (<=6 top-level nodes, depth<=3), 0-2 user Pause/Hold windows, an injection tick anywhere in "
        "the estimated run (tick index reported as class), a snippet of 1-4 lines (Mark, Set3, Slow n, Wait, optional Block) and in "
        "45 % of the cases a live edit 0-5 ticks after the injection. Non-trivial = at the injection a method line was started "
        "and not completed (Wait / threshold / block pending) or a method command was running. Distinct = distinct case.")
ASSUMPTIONS = [
    "'run is paused or on hold in a tick' = System State at the beginning of the tick (end of the previous tick) is Paused/Holding; "
    "the tick in which a Pause/Hold request is executed still interprets (the interpreter runs before the command queue)",
    "injected commands use names the method does not use (Slow, Set3): same-name commands cancel each other (C11's subject)",
    "iterations of an already started injected command during Pause are not judged here (known finding of C08)",
    "twin comparison skipped when the snippet contains a Block and the method has a Watch/Alarm inside a Block or changing inputs "
    "(the injected block legitimately delays the method's blocks)",
    "a method error raised by a line inside an Alarm or Macro body that occurs only with the injection is not attributed to it (recorded "
    "nested-interrupt reset of re-armed bodies, a matter of tick alignment); the twin comparison of such a case is skipped and counted",
    "an edit op that resolves to different lines with and without the injection (the reported state differs by a tick or two when an "
    "injected Block restarts Block Time) is a different edit; its outcome is not compared",
    "twin comparison skipped (and counted) after an accepted merge that shows C01's known defect (method state emptied): the method "
    "starts over there, with or without the injection",
]
TIERS = {"quick": {"examples": 2400, "budget_s": 150, "max_top": 6, "max_depth": 3},
         "thorough": {"examples": 64000, "budget_s": 1500, "max_top": 9, "max_depth": 4}}

# one pair of command names per injection (same-name commands cancel each other: C11's subject); only the first snippet has
# a long-running command, "slow" lines of the later ones become instant commands
INJ_CMDS = [("Slow", "Set3"), (None, "Set1"), (None, "Set2")]
EDIT_CMDS = ("OvA", "Quick")
EDIT_KINDS_W = ["append_end"] * 3 + ["append_scope"] * 3 + ["change"] * 2 + ["insert"] * 3 + ["delete"] * 2 + ["ws"] + ["change_started"] * 2

# Known genuine defect of C01 (signature lost-state:all:merge-installs-stateless-program): an accepted merge discards the
# run progress and the method starts over.  What the METHOD does after such a merge is not a basis for a comparison, so
# with the switch on the twin comparison of the method is skipped for these cases (counted as excluded_known:...); the
# clauses about the injected code itself (exactly once, finalized also across the edit) are still judged.
EXCLUDE_KNOWN_C01_MERGE = True
# A method error raised by a line inside an Alarm or Macro body (bodies that are reset and run again) is the recorded
# nested-interrupt reset family of C02/C04; the twin comparison is skipped for such a case and counted.
EXCLUDE_RECORDED_NESTED_INTERRUPT_RESET = True
C01_SIG = "C01:lost-state:all:merge-installs-stateless-program"

SIG_CMD_LOST = "injected-cmd-never-finalized:edit-while-running"
SIG_LINES_LOST = "injected-lines-lost:edit-before-they-ran"
SIG_BLOCK_NEVER_ENDS = "injected-lines-lost:behind-injected-block"
SIG_BLOCK_TOUCHES_METHOD = "method-changed:by-injected-block"


def _cfg(tier_cfg) -> G.GenCfg:
    return G.GenCfg(kinds={"mark": 4, "quick": 2, "ova": 7, "wait": 4, "block": 3, "watch": 2, "alarm": 1, "macro": 1,
                           "callmacro": 1, "blank": 1, "comment": 1},
                    max_depth=tier_cfg.get("max_depth", 3), max_top=tier_cfg.get("max_top", 6), max_children=3,
                    thresholds=True, base_first="s")


@st.composite
def cases(draw, tier_cfg):
    tree = E.fix_tree(draw(G.program(_cfg(tier_cfg))))
    est = min(E.est_ticks(tree), 270)      # ops stay within tick 1..300 (valid_ops)
    init = {t: float(draw(st.sampled_from([0, 1, 2, 3, 5, 8]))) for t in ("In1", "In2", "Temp")}
    traj = [[0, init]]
    if draw(st.integers(0, 3)) == 0:
        traj += [p for p in draw(G.trajectory(est + 10)) if p[0] > 0]
    t_inj = draw(st.integers(1, est + 5))
    ops = []
    for _ in range(draw(st.integers(0, 2))):
        which = draw(st.sampled_from(["Pause", "Hold"]))
        a = max(1, t_inj + draw(st.integers(-6, 3)))
        ln = draw(st.integers(1, 8))
        ops.append({"op": "user", "tick": a, "name": which})
        ops.append({"op": "user", "tick": a + ln, "name": "Unpause" if which == "Pause" else "Unhold"})
    long_cmd = draw(st.integers(0, 5)) == 0
    if long_cmd:
        # long-command family: a multi-tick command injected (almost) alone, the next injection at every offset from right
        # after it to after its last iteration - the snippet's lines are all visited while its command still executes
        nlong = draw(st.integers(4, 7))
        snippet = [{"k": "slow", "n": nlong}] + ([{"k": "mark"}] if draw(st.integers(0, 3)) == 0 else [])
    else:
        snippet = draw(E.snippet_strategy(allow_block=True))
    if not any(x["k"] in ("mark", "quick", "slow") for x in snippet):
        snippet.append({"k": "mark"})
    ops.append({"op": "inject", "tick": t_inj, "snippet": snippet})
    t_last = t_inj
    for n_more in range(draw(st.sampled_from([1, 1, 2]) if long_cmd else st.sampled_from([0, 0, 1, 1, 2]))):
        # further injections shortly after: they overlap the earlier one
        t_last = t_last + (draw(st.integers(1, nlong + 3)) if long_cmd and n_more == 0 else draw(st.integers(0, 4)))
        sn = draw(E.snippet_strategy(allow_block=False))
        if not any(x["k"] in ("mark", "quick", "slow") for x in sn):
            sn.append({"k": "mark"})
        ops.append({"op": "inject", "tick": t_last, "snippet": sn})
    if draw(st.integers(0, 8)) < (1 if long_cmd else 4):
        ops.append({"op": "edit", "tick": t_inj + draw(st.integers(0, 5)), "kind": draw(st.sampled_from(EDIT_KINDS_W)),
                    "idx": draw(st.integers(0, 40)), "payload": draw(st.lists(E.LEAF, min_size=1, max_size=2))})
    return {"tree": tree, "traj": traj, "ops": ops}


def _valid(case) -> bool:
    try:
        if not isinstance(case, dict) or not E.valid_tree(case.get("tree")) or not E.valid_ops(case.get("ops")):
            return False
        lines = G.render(case["tree"])
        if not lines or len(lines) > 80:
            return False
        if any(l.kind == "slow" for l in lines):      # Slow is reserved for the injected code
            return False
        tr = case.get("traj")
        if not isinstance(tr, list):
            return False
        for p in tr:
            if not (isinstance(p, list) and len(p) == 2 and isinstance(p[0], int) and 0 <= p[0] <= 400 and isinstance(p[1], dict)
                    and all(k in ("In1", "In2", "Temp") and isinstance(v, (int, float)) for k, v in p[1].items())):
                return False
        inj = [o for o in case["ops"] if o["op"] == "inject"]
        if not (1 <= len(inj) <= 3) or len([o for o in case["ops"] if o["op"] == "edit"]) > 1:
            return False
        if any(x.get("k") == "block" for o in inj[1:] for x in o["snippet"]):      # only the first snippet may hold a Block
            return False
        if [o["tick"] for o in inj] != sorted(o["tick"] for o in inj):
            return False
        # the edit never precedes the injection
        if any(o["op"] == "edit" and (o["tick"] < inj[0]["tick"] or case["ops"].index(o) < case["ops"].index(inj[0])) for o in case["ops"]):
            return False
        return True
    except Exception:
        return False


def _kind_of_key(key: str) -> str:
    return "mark" if key.startswith("mark:") else key.split(":")[1].lower()


def _snippet_cost(snippet) -> int:
    """generous bound (ticks that begin Running) from the injection to the last injected effect, when nothing blocks"""
    n, w = 0, 0
    for x in snippet:
        for y in ([x] + list(x.get("c", []))) if x["k"] == "block" else [x]:
            n += 1
            if y["k"] == "wait":
                w += int(round(float(y["d"]) * 10)) + 2
        if x["k"] == "block":
            n += 3
    return 8 + 3 * n + w


def _keys_after_first_block(snippet, keys):
    """effect keys of the snippet lines that follow its first Block...End block (keys are in source order)"""
    n = 0
    for x in snippet:
        if x["k"] == "block":
            n += len([y for y in x["c"] if y["k"] in ("mark", "quick", "slow")])
            return keys[n:]
        if x["k"] in ("mark", "quick", "slow"):
            n += 1
    return []


def _keys_from_first_block(snippet, keys):
    """effect keys of the snippet lines inside and behind its first Block"""
    n = 0
    for x in snippet:
        if x["k"] == "block":
            return keys[n:]
        if x["k"] in ("mark", "quick", "slow"):
            n += 1
    return []


def _errors_in_repeated_bodies(A, S):
    """method errors of the run whose failing line (key='<id>.<Instruction>' in the error text) lies in an Alarm or Macro body;
    [] as soon as one error is elsewhere or cannot be located"""
    import re
    out = []
    for e in A["error_events"]:
        m = re.search(r"key='([^'.]+)\.", str(e[3]))
        i = S.index.get(m.group(1)) if m else None
        if i is None or not (S.info(i)["in_alarm"] or S.info(i)["in_macro"]):
            return []
        out.append(m.group(1))
    return out


def run_case(case):
    lines0 = [list(x) for x in G.as_method_lines(G.render(case["tree"]))]
    traj, ops = case["traj"], case["ops"]
    out: list[Violation] = []
    info = {"classes": [], "nontrivial": False}
    cl = info["classes"]

    def viol(sig, msg):
        if not any(v.sig == sig for v in out):
            out.append(Violation(sig, msg, case))

    A = E.run_script(lines0, traj, ops, edit_cmds=EDIT_CMDS, inj_cmds=INJ_CMDS)
    if A["raised"] is not None:
        viol("tick-raised", "tick %d raised %s" % A["raised"])
    injs = A["injects"]
    inj0 = injs[0]
    any_block = any(i["has_block"] for i in injs)
    cl.append("injections:%d" % len(injs))
    for a_, b_ in zip(injs, injs[1:]):
        cl.append("injection-gap:%d" % (b_["tick"] - a_["tick"]))
    edits = [r for r in A["edits"] if r["new_lines"] is not None]
    acc = [r for r in edits if r["accepted"]]
    for r in A["edits"]:
        cl.append("edit:%s:%s" % (r["info"]["kind"], "noop" if r["new_lines"] is None else "accepted" if r["accepted"] else "rejected"))
        cl.append("edit-delay:%d" % (r["tick"] - inj0["tick"]))
    if not A["edits"]:
        cl.append("no-edit")

    S = E.Struct(A["final_lines"])
    B = E.run_script(lines0, traj, ops, edit_cmds=EDIT_CMDS, inj_cmds=INJ_CMDS, drop_injects=True, n_ticks=A["n_ticks"])
    # a method whose own Block never ends (twin without the injection) keeps an injected Block waiting for the block lock
    open_blocks_B = [i for i in B["final_ms"]["started"] if E.split_line(dict(B["final_lines"]).get(i, ""))[1] == "Block"]
    starts, life = E.effects(A["events"])
    first_tick: dict = {}
    counts: dict = {}
    for t, k in starts:
        counts[k] = counts.get(k, 0) + 1
        first_tick.setdefault(k, t)
    enough = A["quiet"] or A["n_ticks"] >= E.MAX_TICKS

    for n_inj, inj in enumerate(injs):
        snippet = ops[inj["op"]]["snippet"]
        keys = inj["keys"]
        t_inj = inj["tick"]
        if bool(inj["ms_before"]["started"] - {"root"}) or bool(inj["cmds_running"]):
            info["nontrivial"] = True
        cl.append("inject-state:%s" % inj["state"])
        cl.append("inject-tick:%s" % ("1-5" if t_inj <= 5 else "6-15" if t_inj <= 15 else "16-40" if t_inj <= 40 else ">40"))
        if inj["has_block"]:
            cl.append("snippet-block")
        if any(k.startswith("cmd:Slow") for k in keys):
            cl.append("snippet-slow")
            if n_inj == 0 and len(injs) > 1 and len(keys) <= 2:
                n_it = int(float([k for k in keys if k.startswith("cmd:Slow")][0].split(":")[2]))
                if n_it >= 4:
                    cl.append("long-injected-command:next-injection-offset:%d" % (injs[1]["tick"] - t_inj))
        if any(x["k"] == "wait" for x in snippet):
            cl.append("snippet-wait")
        if inj["cmds_running"]:
            cl.append("inject-while-method-command-runs" if any(c in ("OvA", "Quick") for c in inj["cmds_running"])
                      else "inject-while-injected-command-runs")
        if n_inj > 0:
            prev_keys = [k for i2 in injs[:n_inj] for k in i2["keys"]]
            if any(counts.get(k, 0) == 0 or first_tick[k] >= t_inj for k in prev_keys) or \
                    any(c in ("Slow",) for c in inj["cmds_running"]):
                cl.append("injection-overlaps-earlier-one")
        if inj["refused"] is not None:
            cl.append("inject-refused")
            if inj["state"] in ("Running", "Paused", "Holding"):
                viol("inject:refused:%s" % inj["state"], "injection %d at tick %d during an active run (System State %s) was refused: %s; "
                     "snippet %r" % (n_inj + 1, t_inj, inj["state"], inj["refused"], inj["pcode"]))
            continue
        later = [r for r in acc if (r["tick"], r["op"]) > (t_inj, inj["op"])]
        t_edit = later[0]["tick"] if later else None
        # ---- exactly once, in order, only while running ------------------------------------------------------------
        lost = [k for k in keys if counts.get(k, 0) == 0]
        keys_after_block = _keys_after_first_block(snippet, keys)
        if lost and inj["has_block"] and open_blocks_B:
            cl.append("lost-not-judged:method-block-never-ends")
            lost = [k for k in lost if k not in _keys_from_first_block(snippet, keys)]
        if lost and enough:
            if t_edit is None and inj["has_block"] and all(k in keys_after_block for k in lost):
                viol(SIG_BLOCK_NEVER_ENDS, "injected at tick %d (state %s): %r; the lines behind the injected block never ran in %d ticks: %s"
                     % (t_inj, inj["state"], inj["pcode"], A["n_ticks"], lost))
            elif t_edit is not None:
                viol(SIG_LINES_LOST, "injected at tick %d: %r; edit accepted at tick %d; injected effects that never happened in %d ticks: %s"
                     % (t_inj, inj["pcode"], t_edit, A["n_ticks"], lost))
            else:
                viol("inject:lost:%s" % _kind_of_key(lost[0]), "injection %d of %d at tick %d (state %s): %r; effects that never happened "
                     "in %d ticks: %s; all injections: %s" % (n_inj + 1, len(injs), t_inj, inj["state"], inj["pcode"], A["n_ticks"], lost,
                                                            [(i2["tick"], i2["pcode"]) for i2 in injs]))
        for k in keys:
            if counts.get(k, 0) > 1:
                viol("inject:twice:%s%s" % (_kind_of_key(k), ":after-edit" if t_edit is not None else ""),
                     "injected line %s produced its effect %d times (ticks %s)" % (k, counts[k], [t for t, kk in starts if kk == k]))
        seen = [k for _, k in starts if k in keys]
        want = [k for k in keys if k in seen]
        dedup = []
        for k in seen:
            if k not in dedup:
                dedup.append(k)
        if dedup != want:
            viol("inject:order", "injected %r ran in the order %s" % (inj["pcode"], dedup))
        for t, k in starts:
            if k in keys and A["state_before"].get(t) in ("Paused", "Holding"):
                viol("inject:ran-while:%s" % A["state_before"][t], "injected line %s took effect in tick %d which began %s (injected at tick %d)"
                     % (k, t, A["state_before"][t], t_inj))
        # ---- injected commands: one init, one finalize ----------------------------------------------------------
        for k in keys:
            if not k.startswith("cmd:") or k not in life:
                continue
            d = life[k]
            if d["fin"] == 0 and enough:
                if t_edit is not None and first_tick[k] <= t_edit:
                    viol(SIG_CMD_LOST, "injected %s started at tick %d, edit accepted at tick %d, command never finalized (%s) in %d ticks; "
                         "command instances left: %s" % (k, first_tick[k], t_edit, d, A["n_ticks"], A["cmds_left"]))
                else:
                    viol("inject:cmd-not-finalized%s" % (":started-after-edit" if t_edit is not None else ""),
                         "injected %s started at tick %d never finalized (%s)" % (k, first_tick[k], d))
            if d["fin"] > 1 or d["init"] > 1:
                viol("inject:cmd-lifecycle-repeated", "injected %s: %s" % (k, d))
        # ---- promptness (coarse) -------------------------------------------------------------------------------------
        if not any_block and not acc and not lost and keys:
            last = max(first_tick[k] for k in keys)
            running_ticks = len([t for t in range(t_inj, last + 1) if A["state_before"].get(t) == "Running"])
            if running_ticks > _snippet_cost(snippet):
                viol("inject:late", "injected at tick %d: last injected effect at tick %d after %d ticks that began Running (bound %d)"
                     % (t_inj, last, running_ticks, _snippet_cost(snippet)))
    # ---- the method is untouched: twin without the injection --------------------------------------------------------
    reason = None
    merge_broken = any(r["accepted"] and (r["ms_before"]["started"] | r["ms_before"]["executed"] | r["ms_before"]["failed"])
                       and not (r["ms_after"]["started"] | r["ms_after"]["executed"] | r["ms_after"]["failed"]) for r in acc)
    if merge_broken and EXCLUDE_KNOWN_C01_MERGE:
        reason = "known-C01-merge-discards-state"
        info["excluded"] = 1
    elif any_block and (S.has_interrupt_in_block() or any(p[0] > 0 for p in traj)):
        reason = "injected-block-delays-method"
    if reason is None:
        eA = [(r["op"], r["accepted"], r["info"].get("target")) for r in A["edits"]]
        eB = [(r["op"], r["accepted"], r["info"].get("target")) for r in B["edits"]]
        same_target = [(a[0], a[2]) for a in eA] == [(b[0], b[2]) for b in eB]
        err_rep = _errors_in_repeated_bodies(A, S) if not B["error_events"] else []
        if not same_target:
            # `idx` is resolved from the method state at the edit tick: an injected Block may delay a threshold line by a tick or
            # two (Block Time restarts), so the same op can hit another line - another edit, not an outcome to compare
            cl.append("twin-skipped:edit-resolved-to-different-line(timing)")
        elif eA != eB:
            viol("method-changed:edit-outcome", "edit (op, accepted, target) with injection %s, without %s" % (eA, eB))
        elif B["error_events"]:
            cl.append("twin-skipped:method-error-without-injection")
        elif err_rep and EXCLUDE_RECORDED_NESTED_INTERRUPT_RESET:
            # recorded engine behaviour (C02 interrupt-in-repeated-body / C04 re-arm family): an Alarm or macro body that re-arms /
            # is called again resets the nodes of a nested Watch/Alarm that is still executing (e.g. Wait: wait_start_time None ->
            # TypeError).  Whether a run hits it is a matter of tick alignment, which an injection may shift; not attributed to it.
            cl.append("twin-skipped:method-error-in-repeated-body")
            info["excluded_reset"] = 1
        elif A["final_lines"] == B["final_lines"]:
            cl.append("twin-compared")
            if A["error_events"]:
                viol("method-changed:method-error", "method error only with the injection: %s" % (A["error_events"][0][2:],))
            if (A["final_state"], A["final_status"]) != (B["final_state"], B["final_status"]):
                viol("method-changed:run-state:%s/%s" % (A["final_state"], A["final_status"]),
                     "after %d ticks the run is %s / Method Status %s with the injection(s) %s, but %s / %s without"
                     % (A["n_ticks"], A["final_state"], A["final_status"], [(i2["tick"], i2["pcode"]) for i2 in injs],
                        B["final_state"], B["final_status"]))
            byblk = "by-injected-block:" if any_block else ""
            robust = {lid for i, (lid, _) in enumerate(A["final_lines"]) if not S.info(i)["in_alarm"] and S.ins[i] != "Alarm"}
            if not A["quiet"]:
                cl.append("twin-compared:not-quiescent")
            for fld in ("executed", "started"):
                a, b = A["final_ms"][fld] & robust, B["final_ms"][fld] & robust
                if a != b:
                    viol(("method-changed:%s-set" % fld) if not byblk else SIG_BLOCK_TOUCHES_METHOD, "%s lines after %d ticks: only with the injection %s, only without %s"
                         % (fld, A["n_ticks"], sorted(a - b), sorted(b - a)))
            startsB, _ = E.effects(B["events"])
            cB: dict = {}
            for _, k in startsB:
                cB[k] = cB.get(k, 0) + 1
            for i, (lid, text) in enumerate(A["final_lines"]):
                k = E.line_key(text)
                if k is None or lid not in robust:
                    continue
                if counts.get(k, 0) != cB.get(k, 0):
                    viol("method-changed:effect-count" if not byblk else SIG_BLOCK_TOUCHES_METHOD, "line %s (%s): %d effects with the injection, %d without"
                         % (lid, k, counts.get(k, 0), cB.get(k, 0)))
                    break
    if reason is not None:
        cl.append("twin-skipped:%s" % reason)
    return out, info


def check_case(case):
    if not _valid(case):
        return []
    return run_case(case)[0]


def run_shard(col, cfg):
    def body(case):
        vs, info = run_case(case)
        if info.get("excluded"):
            col.count("excluded_known:%s" % C01_SIG, info["excluded"])
        if info.get("excluded_reset"):
            col.count("excluded_known:C02:interrupt-in-repeated-body(method error of a line in an Alarm/Macro body)", 1)
        kinds = G.count_kinds(case["tree"])
        classes = sorted(set(info["classes"]))
        if kinds.get("_depth", 0) >= 2:
            classes.append("method-nested")
        for k in ("watch", "alarm", "macro", "block"):
            if kinds.get(k):
                classes.append("method-has-%s" % k)
        lines = G.render(case["tree"])
        col.record(case, info["nontrivial"], classes=classes, violations=vs,
                   sample={"method": G.text_of(lines), "traj": case["traj"], "ops": case["ops"]})
    # batches with derived seeds: after the budget has run out Hypothesis would still generate (not run) every remaining
    # example of a call, so a shard stops between batches instead
    n, batch, b = max(1, cfg["examples"] // col.nshards), 200, 0
    while b * batch < n and not col.expired():
        hyp_run(cases(cfg), body, min(batch, n - b * batch), shard_seed(col.seed, col.shard) * 1000 + b, col)
        b += 1
