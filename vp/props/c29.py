"""C29 — plot-log persistence is monotone, throttled and faithful.

Case    : {"interval": D, "readings": [...], "ops": [...]} — engine E1 registers, connects, sends UodInfo (readings,
          data_log_interval_seconds = D, "Mark" annotated), optionally a pre-run tag snapshot (run None), RunStarted r
          and then a stream of TagsUpdatedMsg(run_id=r) batches (the "ops" list, executed by vp.harness.agg_h).
          Tick times lie on a 0.25 s grid (exact in binary floating point, so `gap > D` is decided without rounding);
          batches are out of order, duplicated, carry tags that appear late, tags without a plot-log entry and Mark resets.
Model   : DESIGN A.3.  reported[tag] = every (t, value) the engine delivered for that tag, in arrival order;
          held[tag] = the latest arrival the aggregator accepted (a Mark update with empty value is the documented skip).
          Rows (PlotLogEntryValue joined to entry and plot log) are read back after every message; rows that are new after
          a message were persisted by that message.
Oracle  : per plot-log entry, in row-id order
            monotone:<kind>      tick_time not strictly greater than the previous row of the entry (kind = equal | decreasing)
            throttle             the distinct persisted batch times of a run: next - previous must be > D (first exempt)
            unfaithful:never-reported          no delivered report of that tag has the row's value
            unfaithful:time-before-report      the value was only reported with a tick time later than the row's time
            unfaithful:not-latest-value        the row's value is not the value held for the tag when the row was written
            stale-value          the report behind the row is older than the report behind the entry's previous row
            row-in-wrong-run     a new row appears under a plot log of another run id than the active one
Not judged (counted as `unjudged:...`): comparisons that straddle an engine reconnect inside the run (the statement
          quantifies over tag-update streams; what a reconnect may do to the throttle is C28's subject).
"""
from __future__ import annotations

from hypothesis import strategies as st

from vp.core.framework import Violation, hyp_run, shard_seed
from vp.harness.agg_h import AggHarness

ID = "C29"
LEVEL = "exploration"
ENGINE = "aggregator_harness"
DESIGN_REF = "DESIGN.md §3 C29, Appendix A.3"
TECHNIQUE = "generated tag-update streams on the real aggregator + sqlite; persisted rows read back after every message and checked against a sample-and-hold model of what the engine reported"
RULE = ("Hypothesis draws the data-log interval from {0,0.25,0.5,1,2,5} s, 1-3 readings, an optional pre-run snapshot and 3-16 "
        "batches of 1-4 tag updates with tick times on a 0.25 s grid: mostly advancing, some exactly one interval apart, "
        "some older than already sent ones, some batches repeated verbatim, tags that first appear mid-run, a tag without "
        "plot-log entry, Mark set/reset. Non-trivial = the delivered run stream contains at least one out-of-order tick time "
        "(a tag update older than an earlier update of the same run) or a tag whose first report comes after RunStarted. "
        "Distinct = distinct case.")
ASSUMPTIONS = [
    "tick times are finite and on a 0.25 s grid near 1.7e9 (exactly representable), values are int, finite float, str or None",
    "all tag updates during the run carry the run id (what EngineRunner's steady-state and buffer loops send); the run-less snapshot an engine sends after a reconnect is only generated in the unjudged reconnect class",
    "equality of values is Python equality of the stored column value and the reported value (1 == 1.0)",
    "'recorded at most once per data-log interval' is read as: two distinct persisted batch times of one run differ by more than the interval (the implementation's own threshold, DESIGN A.3)",
    "'never older than one already recorded' is judged on the tick time of the report that produced the row (stale-value) in addition to the row time (monotone)",
]
TIERS = {
    "quick": {"cases": 3000, "budget_s": 170},
    "thorough": {"cases": 200000, "budget_s": 800},
}
T0 = AggHarness.T0
E = "E1"
RUN = "run-1"
TAGS = ["A", "B", "C"]
_MISSING = object()


def _num(x):
    return isinstance(x, (int, float)) and not isinstance(x, bool) and x == x and abs(x) != float("inf")


def _valid_tags(tags):
    if not isinstance(tags, list) or not tags:
        return False
    for t in tags:
        if not (isinstance(t, list) and len(t) == 3 and isinstance(t[0], str) and t[0] and _num(t[2]) and t[2] >= 0
                and (t[2] * 4) == int(t[2] * 4)
                and (t[1] is None or isinstance(t[1], str) or _num(t[1]))):
            return False
    return True


def _same(a, b):
    if a is None or b is None:
        return a is None and b is None
    if isinstance(a, str) or isinstance(b, str):
        return isinstance(a, str) and isinstance(b, str) and a == b
    return a == b


# ---- oracle ------------------------------------------------------------------------------------------------

def _run(case):
    """-> (violations, classes, nontrivial, unjudged counters)"""
    out: list[Violation] = []
    classes: set[str] = set()
    unjudged: dict[str, int] = {}
    if not isinstance(case, dict):
        return out, classes, False, unjudged
    interval, readings, ops = case.get("interval"), case.get("readings"), case.get("ops")
    if not (_num(interval) and interval >= 0 and isinstance(readings, list) and readings
            and all(isinstance(r, str) and r for r in readings) and isinstance(ops, list)):
        return out, classes, False, unjudged
    reported: dict[str, list] = {}     # tag -> [(t, value)] delivered, arrival order
    held: dict[str, tuple] = {}        # tag -> (t, value) latest accepted arrival
    last_row: dict[int, dict] = {}     # entry id -> {"tick": , "src": report time behind the row, "seg": segment}
    batch_times: dict[str, list] = {}  # run id -> [(time, segment)] distinct persisted batch times in persist order
    seen_rows = 0
    segment = 0
    run_stream_max = None
    out_of_order = late_tag = False
    pre_run_tags: set[str] = set()
    emitted: set[str] = set()

    def emit(sig, msg, cross_segment=False):
        if cross_segment:
            unjudged["unjudged:after-reconnect:" + sig] = unjudged.get("unjudged:after-reconnect:" + sig, 0) + 1
            return
        if sig not in emitted:          # one representative per signature and case
            emitted.add(sig)
            out.append(Violation(sig, msg, case))

    with AggHarness() as h:
        def connect_block():
            h.register(E)
            h.connect(E)
            h.send(E, h.uod_info_msg(readings, float(interval), annotate=["Mark"]))
        connect_block()
        for idx, op in enumerate(ops):
            if not isinstance(op, dict):
                continue
            kind = op.get("op")
            if kind == "reconnect":
                if h.disconnect(E):
                    connect_block()
                    segment += 1
                    held.clear()           # a re-registered engine starts with empty tag info on the aggregator
                    classes.add("reconnect")
                    if op.get("snapshot") and _valid_tags(op.get("tags")):
                        # the run-less snapshot an engine sends when it reaches steady state again
                        h.send(E, h.tags_msg(op["tags"], None))
                        for name, value, t in op["tags"]:
                            reported.setdefault(name, []).append((t, value))
                        if h.active_run(E) is None:
                            for name, value, t in op["tags"]:
                                if not (name == "Mark" and value == ""):
                                    held[name] = (t, value)
                continue
            if kind == "run_started":
                if op.get("run") != RUN or not _num(op.get("t")):
                    continue
                r = h.apply({"op": "run_started", "engine": E, "run": RUN, "t": op["t"]})
                if r.get("reply") != "SuccessMessage":
                    emit("harness:run-started-refused", "RunStarted answered %r" % (r,))
                pre_run_tags = set(reported)
                continue
            if kind != "tags" or not _valid_tags(op.get("tags")) or op.get("run") not in (None, RUN):
                continue
            active = h.active_run(E)
            if op.get("run") != active:
                # the aggregator skips updates whose run id disagrees with the active run; out of this property's domain
                classes.add("skipped:run-id-mismatch")
                continue
            tags = op["tags"]
            reply = h.send(E, h.tags_msg(tags, op.get("run")))
            if type(reply).__name__ != "SuccessMessage":
                classes.add("handler-error:tags")
            for name, value, t in tags:
                reported.setdefault(name, []).append((t, value))
                if name == "Mark" and value == "":
                    classes.add("mark-reset")
                    continue
                if active is not None:
                    if run_stream_max is not None and t < run_stream_max:
                        out_of_order = True
                    if name not in pre_run_tags and name not in held:
                        late_tag = True
                held[name] = (t, value)
            if active is not None:
                m = max(t for _, _, t in tags)
                run_stream_max = m if run_stream_max is None else max(run_stream_max, m)
                bt0 = batch_times.get(active)
                if bt0 and held and max(v[0] for v in held.values()) - bt0[-1][0] == interval:
                    classes.add("boundary:newest-tag-exactly-one-interval-after-last-persisted")
            # ---- rows written by this message -------------------------------------------------------------
            rows = h.plot_rows()
            new = rows[seen_rows:]
            seen_rows = len(rows)
            for row in new:
                where = "op %d: row %r" % (idx, {k: row[k] for k in ("name", "value", "tick_time", "run_id")})
                if row["run_id"] != active:
                    emit("row-in-wrong-run", "%s written while the active run is %r" % (where, active))
                tick, name = row["tick_time"], row["name"]
                bt = batch_times.setdefault(row["run_id"], [])
                if not bt or bt[-1][0] != tick:
                    if bt:
                        gap = tick - bt[-1][0]
                        if gap == interval:
                            classes.add("gap-equals-interval-persisted")
                        if not gap > interval:
                            emit("throttle", "%s: persisted batch time follows the previous one (%r) by %r s, data log interval is %r s"
                                 % (where, bt[-1][0], gap, interval), cross_segment=bt[-1][1] != segment)
                    bt.append((tick, segment))
                # faithfulness
                reps = reported.get(name, [])
                same_value = [t for t, v in reps if _same(v, row["value"])]
                src = None
                if not same_value:
                    emit("unfaithful:never-reported", "%s: the engine never reported that value for %s (reports: %r)" % (where, name, reps[-6:]))
                elif min(same_value) > tick:
                    emit("unfaithful:time-before-report", "%s: the value was first reported at %r, after the row's time" % (where, min(same_value)))
                hv = held.get(name, _MISSING)
                if hv is _MISSING or not _same(hv[1], row["value"]):
                    emit("unfaithful:not-latest-value", "%s: the latest accepted report for %s is %r" % (where, name, None if hv is _MISSING else hv))
                else:
                    src = hv[0]
                    if src > tick:
                        emit("unfaithful:time-before-report", "%s: the report behind the row has tick time %r, later than the row's time" % (where, src))
                prev = last_row.get(row["entry_id"])
                if prev is not None:
                    cross = prev["seg"] != segment
                    if tick == prev["tick"]:
                        emit("monotone:equal", "%s: previous row of the entry has the same tick_time" % where, cross)
                    elif tick < prev["tick"]:
                        emit("monotone:decreasing", "%s: previous row of the entry has tick_time %r" % (where, prev["tick"]), cross)
                    if src is not None and prev["src"] is not None and src < prev["src"]:
                        emit("stale-value", "%s comes from a report at %r, the entry's previous row from a report at %r" % (where, src, prev["src"]), cross)
                last_row[row["entry_id"]] = {"tick": tick, "src": src, "seg": segment}
            if new:
                classes.add("persisted")
            elif active is not None:
                classes.add("throttled-or-no-entry")
    if out_of_order:
        classes.add("out-of-order")
    if late_tag:
        classes.add("late-tag")
    if seen_rows == 0:
        classes.add("no-rows")
    return out, classes, (out_of_order or late_tag) and seen_rows > 0, unjudged


def check_case(case) -> list[Violation]:
    return _run(case)[0]


# ---- generator -------------------------------------------------------------------------------------------

_values = st.one_of(st.integers(-3, 12), st.integers(-3, 12).map(lambda k: k + 0.5), st.sampled_from(["on", "off", "x"]),
                    st.integers(0, 5), st.none())


@st.composite
def cases(draw):
    interval = draw(st.sampled_from([0.0, 0.25, 0.5, 1.0, 1.0, 2.0, 5.0]))
    readings = draw(st.lists(st.sampled_from(TAGS), min_size=1, max_size=3, unique=True))
    names = list(TAGS) + ["Mark", "X"]           # X never has a plot-log entry; tags not in `readings` neither
    cur = T0
    ops: list[dict] = []
    if draw(st.integers(0, 3)) > 0:      # pre-run snapshot
        snap = draw(st.lists(st.sampled_from(names), min_size=1, max_size=4, unique=True))
        ops.append({"op": "tags", "run": None, "tags": [[n, "" if n == "Mark" else draw(_values), cur - draw(st.sampled_from([0, 0.25, 3.0]))] for n in snap]})
    cur += draw(st.sampled_from([0.25, 1.0]))
    ops.append({"op": "run_started", "run": RUN, "t": cur})
    nb = draw(st.integers(3, 16))
    reconnect_case = draw(st.integers(0, 11)) == 0
    reconnect_at = draw(st.integers(1, nb - 1)) if reconnect_case else -1
    prev_batch = None
    for b in range(nb):
        if b == reconnect_at:
            snap = [[n, draw(_values), cur] for n in readings]
            ops.append({"op": "reconnect", "snapshot": draw(st.booleans()), "tags": snap})
        step = draw(st.sampled_from([0.0, 0.25, 0.25, 0.5, 1.0, 2.5, 6.0, "D", "D", "D+"]))
        cur += interval if step == "D" else (interval + 0.25 if step == "D+" else step)
        if prev_batch is not None and draw(st.integers(0, 9)) == 0:
            ops.append({"op": "tags", "run": RUN, "tags": [list(t) for t in prev_batch]})       # verbatim duplicate
            continue
        chosen = draw(st.lists(st.sampled_from(names), min_size=1, max_size=4, unique=True))
        tags = []
        for n in chosen:
            lag = draw(st.sampled_from([0, 0, 0, 0, 0.25, 0.5, 1.0, 3.0, 10.0]))
            if n == "Mark":
                v = draw(st.sampled_from(["", "", "M1", "M2"]))
            else:
                v = draw(_values)
            tags.append([n, v, cur - lag])
        ops.append({"op": "tags", "run": RUN, "tags": tags})
        prev_batch = tags
    return {"interval": interval, "readings": readings, "ops": ops}


def run_shard(col, cfg):
    per_shard = max(1, cfg["cases"] // col.nshards)

    def body(case):
        vs, classes, nontrivial, unjudged = _run(case)
        classes.add("interval:%s" % case["interval"])
        col.record(case, nontrivial, classes=sorted(classes), violations=vs)
        for k, n in sorted(unjudged.items()):
            col.count(k, n)

    hyp_run(cases(), body, per_shard, shard_seed(col.seed, col.shard), col)


def shrink_hints(case):
    ops = case.get("ops", [])
    # keep only one tag per batch
    for i, o in enumerate(ops):
        if o.get("op") == "tags" and isinstance(o.get("tags"), list) and len(o["tags"]) > 1:
            for k in range(len(o["tags"])):
                c = dict(case)
                c["ops"] = ops[:i] + [dict(o, tags=o["tags"][:k] + o["tags"][k + 1:])] + ops[i + 1:]
                yield c
    # move times closer to T0
    for i, o in enumerate(ops):
        if o.get("op") == "tags" and isinstance(o.get("tags"), list):
            for k, t in enumerate(o["tags"]):
                if isinstance(t, list) and len(t) == 3 and _num(t[2]) and t[2] > T0 + 1:
                    c = dict(case)
                    nt = [list(x) for x in o["tags"]]
                    nt[k][2] = T0 + (t[2] - T0) // 2
                    c["ops"] = ops[:i] + [dict(o, tags=nt)] + ops[i + 1:]
                    yield c
